"""C07 correspondence + direct oracles: the public twin of a private key and its export, against the extracted model
(Model/PubExport.v: pubkey_of / export built from the FIELDS of the private key; Model/KeyPackets.v: packet splitter and
key-body parser used as the independent reader of PGPy's output), plus the literal secret-octet search and the
precondition table of private operations.

PARTIAL (as stated in Props/C07.v): "no octet sequence of a secret integer" is proved as non-interference and is TESTED
here as a substring search (every secret integer of >= 16 octets, big- and little-endian, also while the key is unlocked,
and the encrypted secret blob of protected keys) over the binary and the de-armored export."""
import base64, copy, hashlib, inspect, warnings
from datetime import timedelta

from .common import Driver, hx, unhx, hn, unhn, outcome, load_repo
from .c18 import key_tokens, split_packets, rfc_fp, src_hash, packets_of_key, mat_tokens, wallclock, nondefault_kdf_blob

PUBLIC_TAGS = {6, 14, 13, 17, 2}
PINS = {
    'PrivKeyV4.pubkey': '4612486ea4ab27ef',      # repair 3c1c8c6: refuses OpaquePrivKey material (Model/PubExport.v pubkey_of = None)
    'PGPKey.pubkey': '8ca1b2d84e32a4d4',
    'PGPKey.__bytearray__': 'cf5c4a72b4df4a15',
    'KeyAction.check_attributes': '5bc1ee5f304ffbd0',
    'KeyAction.__call__': 'c8bb870361fccd66',
}


# ---------------------------------------------------------------- fields of a PGPKey -> model tokens
def body_of(pkt):
    (tag, body), = split_packets(bytes(pkt.__bytearray__()))
    return tag, body


def sub_areas(sigbody):
    """independent reading of a v4 signature body: [(type, data)] of the hashed and of the unhashed area"""
    def area(b):
        out, i = [], 0
        while i < len(b):
            l0 = b[i]
            if l0 < 192:
                n, i = l0, i + 1
            elif l0 < 255:
                n, i = ((l0 - 192) << 8) + b[i + 1] + 192, i + 2
            else:
                n, i = int.from_bytes(b[i + 1:i + 5], 'big'), i + 5
            out.append((b[i] & 0x7f, b[i + 1:i + n])); i += n
        return out
    hl = int.from_bytes(sigbody[4:6], 'big')
    ul = int.from_bytes(sigbody[6 + hl:8 + hl], 'big')
    return area(sigbody[6:6 + hl]), area(sigbody[8 + hl:8 + hl + ul])


def exportable_indep(sigbody):
    h, u = sub_areas(sigbody)
    for t, data in h + u:
        if t == 4:
            return data != b'\x00'
    return True


def sig_tokens(s):
    p = s._signature
    if s.parent is not None:
        # embedded (primary-key-binding) signature: lives inside its parent's subpacket, is never emitted on its own
        return '1 1 - 1 1'
    tag, body = body_of(p)
    assert tag == 2
    return '%d %d %s %d %d' % (p.header._lenfmt, p.header._llen, hx(body), 1 if exportable_indep(body) else 0, 1 if s.parent is not None else 0)


def sigs_tokens(sigs):
    sigs = list(sigs)
    return ' '.join(['%d' % len(sigs)] + [sig_tokens(s) for s in sigs])


def keym_tokens(pkt):
    return '%d %d %s' % (pkt.header._lenfmt, pkt.header._llen, key_tokens(pkt))


def tkey_tokens(key):
    parts = [keym_tokens(key._key), sigs_tokens(key._signatures)]
    uids = list(key._uids)
    parts.append('%d' % len(uids))
    for u in uids:
        tag, body = body_of(u._uid)
        parts.append('%s %d %d %s %s' % (hn(tag), u._uid.header._lenfmt, u._uid.header._llen, hx(body), sigs_tokens(u._signatures)))
    subs = list(key._children.values())
    parts.append('%d' % len(subs))
    for sk in subs:
        parts.append(keym_tokens(sk._key) + ' ' + sigs_tokens(sk._signatures))
    return ' '.join(parts)


def dearmor(text):
    lines = text.strip().splitlines()
    assert lines[0].startswith('-----BEGIN PGP ') and lines[-1].startswith('-----END PGP '), 'armor frame'
    i = lines.index('') if '' in lines else 0
    b64 = [l for l in lines[i + 1:-1] if not l.startswith('=')]
    return lines[0].strip('-').replace('BEGIN PGP ', ''), base64.b64decode(''.join(b64))


def secrets_of(key):
    """(label, octets) for every secret integer of >= 16 octets currently in memory (big- and little-endian), plus the
    encrypted secret blob of protected packets"""
    out = []
    for i, pkt in enumerate(packets_of_key(key)):
        km = pkt.keymaterial
        for f in km.__privfields__:
            v = int(getattr(km, f))
            n = (v.bit_length() + 7) // 8
            if n >= 16:
                out.append(('%d.%s' % (i, f), v.to_bytes(n, 'big')))
                out.append(('%d.%s.le' % (i, f), v.to_bytes(n, 'little')))
        if km.s2k and len(km.encbytes) >= 16:
            out.append(('%d.encbytes' % i, bytes(km.encbytes)))
            out.append(('%d.enc-head' % i, bytes(km.encbytes[:16])))
    return out


def search_secrets(ctx, suite, what, blobs, secrets, case):
    ctx.case(suite, (what, case.get('key'), case.get('stage'), len(secrets)), nontrivial=bool(secrets))
    for label, sec in secrets:
        for bname, blob in blobs:
            if sec in blob:
                ctx.fail(suite, 'export contains the octets of secret %s (%s)' % (label, bname), dict(case, what=what, secret_label=label, blob=blob.hex()))


def public_fields(pkt):
    """'created alg material' of a key packet as the model parser prints it"""
    return '%s %s %s | -' % (hn(wallclock(pkt.created)), hn(int(pkt.pkalg)), mat_tokens(pkt.pkalg, pkt.keymaterial))


def check_twin(ctx, d, suite, key, pub, case, secrets, fresh=True):
    """everything C07 says about `pub` = (a) public twin of private `key`"""
    raw = bytes(pub)
    case = dict(case, export=raw.hex())
    magic, dea = outcome(dearmor, str(pub))[1] if outcome(dearmor, str(pub))[0] == 'ok' else ('?', b'')
    if magic != 'PUBLIC KEY BLOCK' or dea != raw:
        ctx.fail(suite, 'armored export is not a PUBLIC KEY BLOCK around the binary export', dict(case, magic=magic))
    sp = outcome(split_packets, raw)
    ctx.case(suite, (case.get('key'), case.get('stage'), hashlib.sha1(raw).hexdigest()), sample={'key': case.get('key'), 'stage': case.get('stage'), 'tags': [t for t, b in sp[1]] if sp[0] == 'ok' else '?'})
    if sp[0] != 'ok':
        ctx.fail(suite, 'export of the public twin is not a well-formed packet sequence', dict(case, impl=repr(sp)[:200])); return
    # --- tags, through the model's packet splitter and through the Python one
    r = d.call('packets', hx(raw))
    if r == 'ERR':
        ctx.fail(suite, 'model packet splitter cannot read the export', case); return
    pk = [(unhn(x.split(':')[0]), unhx(x.split(':')[1])) for x in r.split(' ')] if r != '-' else []
    if pk != split_packets(raw):
        ctx.fail(suite, 'harness: model splitter and Python splitter disagree', case)
    bad = sorted(set(t for t, b in pk) - PUBLIC_TAGS)
    if bad:
        ctx.fail(suite, 'export of the public twin contains packets with tags %s' % bad, case)
    # --- key packets: fields and fingerprints
    kb = [(t, b) for t, b in pk if t in (6, 14)]
    privpk = packets_of_key(key)
    if [t for t, b in kb] != [6] + [14] * (len(kb) - 1):
        ctx.fail(suite, 'key packets of the export are not one primary followed by subkeys', case)
    if fresh and len(kb) != len(privpk):
        ctx.fail(suite, 'twin does not have the subkeys of the private key', dict(case, n_pub=len(kb), n_priv=len(privpk)))
    pubfps = [str(pub.fingerprint)] + [str(s.fingerprint) for s in pub.subkeys.values()]
    for i, (t, b) in enumerate(kb):
        if i >= len(privpk):
            break
        ctx.expect_eq(suite, 'public fields in the export differ from the private key\'s', dict(case, idx=i), d.call('parse', hx(b)), public_fields(privpk[i]))
        f = d.call('rfcfp', hx(b))
        if not (f == rfc_fp(b) == str(privpk[i].fingerprint).lower() == pubfps[i].lower()):
            ctx.fail(suite, 'fingerprint of exported key packet / twin / private key differ', dict(case, idx=i, rfc=f, priv=str(privpk[i].fingerprint), pub=pubfps[i]))
    # --- identities and signatures
    if fresh:
        want_uids = [body_of(u._uid) for u in key._uids]
        if [(t, b) for t, b in pk if t in (13, 17)] != want_uids:
            ctx.fail(suite, 'identities in the export differ from the private key\'s', case)
        want_sigs = [body_of(s._signature)[1] for s in key._signatures if s.parent is None and exportable_indep(body_of(s._signature)[1])]
        for u in key._uids:
            want_sigs += [body_of(s._signature)[1] for s in u._signatures if exportable_indep(body_of(s._signature)[1])]
        for sk in key._children.values():
            want_sigs += [body_of(s._signature)[1] for s in sk._signatures if s.parent is None and exportable_indep(body_of(s._signature)[1])]
        if [b for t, b in pk if t == 2] != want_sigs:
            ctx.fail(suite, 'signatures in the export are not the exportable signatures of the private key', case)
        # --- the model builds the same octets from the private key's fields
        toks = tkey_tokens(key)
        mpub, mpriv = d.call('export ' + toks).split(' ')
        ctx.expect_eq(suite, 'bytes(key.pubkey) differs from model export(pubkey_of key)', dict(case, tokens=toks[:300]), raw.hex(), mpub)
        ctx.expect_eq(suite, 'bytes(key) differs from model export(key)', dict(case, tokens=toks[:300]), bytes(key).hex(), mpriv)
    for s in [x for x in pk if x[0] == 2]:
        if not exportable_indep(s[1]):
            ctx.fail(suite, 'a non-exportable signature is in the export', case)
    # --- literal search
    search_secrets(ctx, suite + '-secret-search', 'export', [('binary', raw), ('armored', dea), ('armor-text', str(pub).encode())], secrets, case)
    if not pub.is_public or any(not s.is_public for s in pub.subkeys.values()):
        ctx.fail(suite, 'twin (or one of its subkeys) is not public', case)


# ---------------------------------------------------------------- private operations
MSG = {'is_public': 'attr:is_public', 'is_unlocked': 'attr:is_unlocked'}


def classify(o):
    if o[0] == 'ok':
        return 'run'
    exc, msg = o[1]
    if exc != 'PGPError':
        return 'raise:' + exc
    if msg.startswith('Expected: is_public'):
        return 'attr:is_public'
    if msg.startswith('Expected: is_unlocked'):
        return 'attr:is_unlocked'
    if 'Key is not complete' in msg:
        return 'incomplete'
    if 'does not have the required usage flag' in msg:
        return 'usage'
    if msg == 'No key!':
        return 'nokey'
    return 'pgperror:' + msg[:40]


def out2(fn):
    try:
        return ('ok', fn())
    except Exception as ex:
        return ('raise', (type(ex).__name__, str(ex)))


def run_actions(ctx, d, pgpy, suite, obj, label, state, helper, encmsg, expect_refusal, add_uid=False):
    """every private operation on `obj`; outcome vs model decision table (state = model kstate fields)"""
    from pgpy.constants import SignatureType
    target_uid = (obj.userids or helper.userids)[0]
    acts = {
        'sign': lambda: obj.sign('attack at dawn'),
        'certify': lambda: obj.certify(target_uid, SignatureType.Generic_Cert),
        'revoke': lambda: obj.revoke(target_uid),
        'revoker': lambda: obj.revoker(helper),
        'bind': lambda: obj.bind(helper),
        'decrypt': lambda: obj.decrypt(encmsg),
    }
    if add_uid:
        # add_uid self-certifies the new user id: the certify row of the table
        acts['add_uid'] = lambda: obj.add_uid(pgpy.PGPUID.new('Late Uid', email='late@example.com'))
    for a, fn in acts.items():
        with warnings.catch_warnings():
            warnings.simplefilter('ignore')
            got = classify(out2(fn))
        flag_ok = state['flag_ok'].get(a, True)
        model = d.call('action', 'certify' if a == 'add_uid' else a, 1, state['nuids'], int(state['primary']), int(state['public']), int(state['protected']),
                       int(state['cleartext']), int(flag_ok), 1)
        case = {'op': 'action', 'action': a, 'object': label, 'state': {k: v for k, v in state.items() if k != 'flag_ok'}}
        ctx.case(suite, (label, a, tuple(sorted(case['state'].items()))), sample=dict(case, impl=got, model=model))
        if expect_refusal and got == 'run':
            ctx.fail(suite, 'a private operation did not raise on an object without usable secret material', case)
        if model == 'run' and got != 'run':
            # past the decorator the operation itself may still fail for its own reasons (e.g. the helper key is not a
            # subkey candidate); only the refusal side is compared strictly
            if got.startswith(('attr:', 'incomplete', 'usage', 'nokey')):
                ctx.fail(suite, 'decorator refused although the model table lets the operation run', dict(case, impl=got, model=model))
            continue
        ctx.expect_eq(suite, 'outcome of the KeyAction preconditions differs from the model table', case, got, model)


def check_noeffect(ctx, pgpy, suite, pub, label):
    """protect / unlock on a public object: no effect (a warning), never an exception, never a change of the export"""
    from pgpy.constants import SymmetricKeyAlgorithm as S, HashAlgorithm as H
    before = bytes(pub)
    with warnings.catch_warnings(record=True) as w:
        warnings.simplefilter('always')
        o1 = out2(lambda: pub.protect('x', S.AES256, H.SHA256))

        def ul():
            with pub.unlock('x') as k:
                return k is pub
        o2 = out2(ul)
    ctx.case(suite, (label, 'protect/unlock'))
    if o1[0] != 'ok' or o2 != ('ok', True) or bytes(pub) != before or not pub.is_public or pub.is_protected or len(w) < 2:
        ctx.fail(suite, 'protect/unlock on a public object is not a warned no-op', {'op': 'noeffect', 'object': label, 'protect': repr(o1), 'unlock': repr(o2), 'warnings': len(w)})


# ---------------------------------------------------------------- histories
JPEG = bytearray(b'\xff\xd8\xff\xe0\x00\x10JFIF\x00' + bytes(range(64)))


def grow(ctx, pgpy, key, other, stage, t):
    """one step of a key-management history on the PRIVATE key"""
    from pgpy.constants import KeyFlags as F, SignatureType as ST, PubKeyAlgorithm as A, EllipticCurveOID as C
    if stage == 'uid':
        u = pgpy.PGPUID.new('Extra %d' % t.day, comment='c07', email='extra%d@example.com' % t.day)
        key.add_uid(u, usage={F.Sign}, created=t)
    elif stage == 'attr':
        key.add_uid(pgpy.PGPUID.new(JPEG), created=t)
    elif stage == 'local-cert':
        u = key.userids[-1]
        u |= key.certify(u, ST.Generic_Cert, exportable=False, created=t)
    elif stage == 'third-party':
        u = key.userids[0]
        u |= other.certify(u, ST.Casual_Cert, created=t)
    elif stage == 'revoke-uid':
        u = key.userids[-1]
        u |= key.revoke(u, created=t)
    elif stage == 'revoke-sub':
        if key.subkeys:
            sk = list(key.subkeys.values())[0]
            sk |= key.revoke(sk, created=t)
    elif stage == 'revoke-key':
        key |= key.revoke(key, created=t)
    elif stage == 'subkey':
        nsk = pgpy.PGPKey.new(A.EdDSA, C.Ed25519, created=t)
        key.add_subkey(nsk, usage={F.Sign}, created=t)
    elif stage == 'enc-subkey':
        nsk = pgpy.PGPKey.new(A.ECDH, C.Curve25519, created=t)
        key.add_subkey(nsk, usage={F.EncryptCommunications, F.EncryptStorage}, created=t)
    elif stage == 'direct-third-party':
        # a certification made by ANOTHER key directly on this key (signature type 0x1F)
        key |= other.certify(key, created=t)
    elif stage == 'revoker-revokes':
        # this key appoints `other` as designated revoker, and `other` revokes it
        key |= key.revoker(other, created=t)
        key |= other.revoke(key, created=t)
    elif stage == 'attr-multi':
        # a user attribute holding two image subpackets and one of an unknown (private-use) type, as read from the wire
        from pgpy.packet import Packet
        u = pgpy.PGPUID.new(JPEG)
        u2 = pgpy.PGPUID.new(bytearray(JPEG[:11] + bytes(range(64, 112))))
        raw = bytes(u._uid.subpackets.__bytearray__()) + bytes(u2._uid.subpackets.__bytearray__()) + bytes([6, 100]) + b'c07xx'
        n = len(raw)
        u._uid = Packet(bytearray(b'\xd1' + (bytes([n]) if n < 192 else bytes([192 + ((n - 192) >> 8), (n - 192) & 0xff])) + raw))
        key.add_uid(u, created=t)
    elif stage == 'legacy-uid':
        # a user id whose octets are not UTF-8 (legacy charset), as an older implementation wrote them
        u = pgpy.PGPUID.new('Caf\xe9 Owner %d' % t.day, email='legacy%d@example.com' % t.day)
        u._uid._encoding_fallback = True
        u._uid.update_hlen()
        key.add_uid(u, usage={F.Sign}, created=t)
    else:
        raise ValueError(stage)


STAGES = ['uid', 'attr', 'local-cert', 'third-party', 'revoke-uid', 'subkey', 'enc-subkey', 'revoke-sub', 'revoke-key']
STAGES2 = ['direct-third-party', 'revoker-revokes', 'attr-multi', 'legacy-uid']     # shapes other implementations produce


def old_format(data):
    """the same packets with old-format headers where the tag allows it (as GnuPG writes keys)"""
    out = b''
    for t, b in split_packets(data):
        n = len(b)
        if t >= 16:
            out += bytes([0xc0 | t]) + (bytes([n]) if n < 192 else bytes([192 + ((n - 192) >> 8), (n - 192) & 0xff]) if n < 8384 else b'\xff' + n.to_bytes(4, 'big'))
        elif n < 256:
            out += bytes([0x80 | (t << 2), n])
        elif n < 65536:
            out += bytes([0x80 | (t << 2) | 1]) + n.to_bytes(2, 'big')
        else:
            out += bytes([0x80 | (t << 2) | 2]) + n.to_bytes(4, 'big')
        out += b
    return out


def variant_key(pgpy, name):
    """'p256' | 'p256/old-format' | 'p256/kdf' -> a fresh private key of that shape"""
    from .keys import get
    base, _, var = name.partition('/')
    key = get(base)
    if var == 'old-format':
        key = pgpy.PGPKey.from_blob(old_format(bytes(key)))[0]
    elif var == 'foreign-lengths':
        # the same key as another producer may write it: every signature's subpacket lengths in the five-octet form
        # (hashed area of odd-numbered signatures, unhashed area of even-numbered ones; neither is covered differently by the signature:
        #  the hashed area is signed as received, so only packets whose signature was made over THESE octets may be touched there:
        #  the unhashed area only)
        from .c14 import World as _W14
        out, n = b'', 0
        for t, b in split_packets(bytes(key)):
            pkt = bytes([0xc0 | t]) + (bytes([len(b)]) if len(b) < 192 else bytes([192 + ((len(b) - 192) >> 8), (len(b) - 192) & 0xff]) if len(b) < 8384 else b'\xff' + len(b).to_bytes(4, 'big')) + b
            if t == 2:
                n += 1
                pkt = _W14.foreign_lengths(pkt, 2)          # serial % 4 == 2: the unhashed area
            out += pkt
        key = pgpy.PGPKey.from_blob(out)[0]
    elif var == 'kdf':
        blob, changed = nondefault_kdf_blob(key)
        assert changed, 'no ECDH key packet in ' + base
        key = pgpy.PGPKey.from_blob(blob)[0]
    return key


def history(ctx, d, pgpy, name, plan, protect=True, oldfmt=False, kdf=False):
    from .keys import get, T0
    from pgpy.constants import SymmetricKeyAlgorithm as S, HashAlgorithm as H
    with warnings.catch_warnings():
        warnings.simplefilter('ignore')
        key = get(name)
        if kdf:
            # a private key LOADED with ECDH subkeys whose KDF parameters are not the per-curve defaults: the twin must carry THEM
            name = name + '/kdf'
            key = variant_key(pgpy, name)
        if oldfmt:
            # a private key LOADED from old-format packets: its user id / signature packets keep their header format in the twin
            key = pgpy.PGPKey.from_blob(old_format(bytes(key)))[0]
            name = name + '/old-format'
        other = get('ed25519b' if not name.startswith('ed25519b') else 'p256')
        secrets = secrets_of(key)
        twins = [('t0', key.pubkey)]
        check_twin(ctx, d, 'twin', key, twins[0][1], {'op': 'twin', 'key': name, 'stage': 'loaded'}, secrets)
        done = []
        for i, st in enumerate(plan):
            o = out2(lambda: grow(ctx, pgpy, key, other, st, T0 + timedelta(days=1 + i)))
            if o[0] != 'ok':
                ctx.notes.append('history step %s on %s not applicable: %s' % (st, name, o[1][0])); continue
            done.append(st)
            secrets = secrets_of(key)      # new subkeys bring new secrets
            # twins derived BEFORE this addition: still public-only, no secret octets, same fingerprint
            for lbl, tw in twins:
                check_twin(ctx, d, 'early-twin', key, tw, {'op': 'twin', 'key': name, 'stage': '+'.join(done), 'twin': lbl}, secrets, fresh=False)
            otw = out2(lambda: key.pubkey)
            if otw[0] != 'ok':
                # (opaque private material is refused in its own suite; the corpus keys grown here have none)
                ctx.case('twin', (name, '+'.join(done), 'derive'))
                ctx.fail('twin', 'the public twin of a private key cannot be derived: %s' % (otw[1][0],), {'op': 'twin', 'key': name, 'stage': '+'.join(done), 'error': repr(otw[1])[:300]})
                return
            tw = otw[1]
            check_twin(ctx, d, 'twin', key, tw, {'op': 'twin', 'key': name, 'stage': '+'.join(done)}, secrets)
            if i % 3 == 0:
                twins.append(('t%d' % (i + 1), tw))
        stage = '+'.join(done)
        unprot = bytes(key.pubkey)
        if protect:
            # protected / locked / unlocked forms of ONE key export identical public octets
            key.protect('correct horse', S.AES256, H.SHA256)
            locked = key.pubkey
            check_twin(ctx, d, 'twin', key, locked, {'op': 'twin', 'key': name, 'stage': stage + '+protect'}, secrets)
            forms = {'unprotected': unprot, 'locked': bytes(locked)}
            with key.unlock('correct horse'):
                live = secrets_of(key)
                utw = key.pubkey
                check_twin(ctx, d, 'twin', key, utw, {'op': 'twin', 'key': name, 'stage': stage + '+protect+unlocked'}, secrets + live)
                forms['unlocked'] = bytes(utw)
                forms['copy-unlocked'] = bytes(copy.copy(key).pubkey)
            forms['relocked'] = bytes(key.pubkey)
            re = pgpy.PGPKey.from_blob(bytes(key))[0]
            check_twin(ctx, d, 'twin', re, re.pubkey, {'op': 'twin', 'key': name, 'stage': stage + '+protect+reimport'}, secrets)
            # the re-imported key may order its user ids differently (PGPUID ordering depends on the newest self-signature at
            # insertion time: C14/C15 matter); its twin must hold the same packets
            if sorted(split_packets(bytes(re.pubkey))) != sorted(split_packets(unprot)):
                ctx.fail('forms', 're-imported protected key exports other public packets', {'op': 'forms', 'key': name, 'stage': stage,
                         'forms': {'unprotected': unprot.hex(), 'reimported': bytes(re.pubkey).hex()}})
            ctx.case('forms', (name, stage), sample={'key': name, 'forms': sorted(forms) + ['reimported (same packets)']})
            if len(set(forms.values())) != 1:
                ctx.fail('forms', 'protected / locked / unlocked / copied / re-imported forms of one key export different public octets',
                         {'op': 'forms', 'key': name, 'stage': stage, 'forms': {k: v.hex() for k, v in forms.items()}})
            for lbl, tw in twins:
                check_twin(ctx, d, 'early-twin', key, tw, {'op': 'twin', 'key': name, 'stage': stage + '+protect', 'twin': lbl}, secrets, fresh=False)
        return key, other, secrets


def suite_actions(ctx, d, pgpy, name):
    from .keys import get
    from pgpy.constants import SymmetricKeyAlgorithm as S, HashAlgorithm as H, KeyFlags as F, PubKeyAlgorithm as A, EllipticCurveOID as C
    with warnings.catch_warnings():
        warnings.simplefilter('ignore')
        key = get(name)
        helper = pgpy.PGPKey.new(A.EdDSA, C.Ed25519, created=key.created)
        helper.add_uid(pgpy.PGPUID.new('Helper'), usage={F.Sign, F.Certify}, created=key.created)
        pub = key.pubkey
        o = out2(lambda: pub.encrypt(pgpy.PGPMessage.new('secret text')))
        encmsg = o[1] if o[0] == 'ok' else pgpy.PGPMessage.new('plain')
        loaded = pgpy.PGPKey.from_blob(bytes(pub))[0]
        loaded_asc = pgpy.PGPKey.from_blob(str(pub))[0]
        nu = len(key.userids)
        base = dict(nuids=nu, primary=True, protected=False, cleartext=True, flag_ok={})
        for label, obj in (('derived', pub), ('loaded-binary', loaded), ('loaded-armored', loaded_asc)):
            if obj.pubkey is not obj:
                ctx.fail('actions', 'pubkey of a public object is not the object itself', {'op': 'action', 'object': label})
            run_actions(ctx, d, pgpy, 'actions', obj, '%s/%s' % (name, label), dict(base, public=True), helper, encmsg, True)
            check_noeffect(ctx, pgpy, 'actions', obj, '%s/%s' % (name, label))
        # public subkey objects
        for i, sk in enumerate(pub.subkeys.values()):
            st = dict(base, public=True, primary=False, nuids=0)
            st['flag_ok'] = {'sign': F.Sign in sk._get_key_flags(), 'certify': F.Certify in sk._get_key_flags(), 'revoke': F.Certify in sk._get_key_flags()}
            run_actions(ctx, d, pgpy, 'actions', sk, '%s/derived-sub%d' % (name, i), st, helper, encmsg, True)
        # the private key itself: runs; protected + locked: refuses; unlocked: runs
        run_actions(ctx, d, pgpy, 'actions', key, '%s/private' % name, dict(base, public=False), helper, encmsg, False)
        key.protect('pw', S.AES128, H.SHA256)
        run_actions(ctx, d, pgpy, 'actions', key, '%s/private-locked' % name, dict(base, public=False, protected=True, cleartext=False), helper, encmsg, True)
        with key.unlock('pw'):
            run_actions(ctx, d, pgpy, 'actions', key, '%s/private-unlocked' % name, dict(base, public=False, protected=True, cleartext=True), helper, encmsg, False)
            # the twin taken while unlocked still refuses
            run_actions(ctx, d, pgpy, 'actions', key.pubkey, '%s/derived-while-unlocked' % name, dict(base, public=True), helper, encmsg, True)


def suite_usage_table(ctx, d, pgpy):
    """a key whose only usage flag is encryption: sign fails on the usage check before the attributes are looked at"""
    from pgpy.constants import KeyFlags as F, PubKeyAlgorithm as A, EllipticCurveOID as C
    from .keys import T0
    with warnings.catch_warnings():
        warnings.simplefilter('ignore')
        k = pgpy.PGPKey.new(A.ECDSA, C.NIST_P256, created=T0)
        k.add_uid(pgpy.PGPUID.new('Enc Only'), usage={F.EncryptCommunications}, created=T0)
        helper = pgpy.PGPKey.new(A.EdDSA, C.Ed25519, created=T0)
        helper.add_uid(pgpy.PGPUID.new('Helper'), usage={F.Sign, F.Certify}, created=T0)
        msg = pgpy.PGPMessage.new('plain')
        fo = {'sign': False}       # a primary key always counts as certification-capable (_get_key_flags)
        for label, obj, public in (('enc-only/private', k, False), ('enc-only/derived', k.pubkey, True)):
            run_actions(ctx, d, pgpy, 'actions', obj, label, dict(nuids=1, primary=True, public=public, protected=False, cleartext=True, flag_ok=fo), helper, msg, public)


def suite_no_uid(ctx, d, pgpy):
    """public primary keys WITHOUT a user id (twin derived before any add_uid; a bare public-key packet loaded from bytes):
    every private operation, certify() and add_uid() included, must raise PGPError (table: certify -> is_public, others -> incomplete)"""
    from pgpy.constants import KeyFlags as F, PubKeyAlgorithm as A, EllipticCurveOID as C
    from .keys import T0, get
    with warnings.catch_warnings():
        warnings.simplefilter('ignore')
        helper = pgpy.PGPKey.new(A.EdDSA, C.Ed25519, created=T0)
        helper.add_uid(pgpy.PGPUID.new('Helper'), usage={F.Sign, F.Certify}, created=T0)
        msg = pgpy.PGPMessage.new('plain')
        objs = []
        for alg, size, nm in ((A.EdDSA, C.Ed25519, 'ed25519'), (A.ECDSA, C.NIST_P256, 'p256')):
            k = pgpy.PGPKey.new(alg, size, created=T0)
            objs.append(('no-uid/%s/derived' % nm, k.pubkey, True))
            objs.append(('no-uid/%s/loaded-packet' % nm, pgpy.PGPKey.from_blob(bytes(k._key.pubkey().__bytearray__()))[0], True))
            objs.append(('no-uid/%s/private' % nm, k, False))
        for nm in ('rsa1024', 'p384'):
            pkt = get(nm)._key.pubkey()
            objs.append(('no-uid/%s/loaded-packet' % nm, pgpy.PGPKey.from_blob(bytes(pkt.__bytearray__()))[0], True))
            objs.append(('no-uid/%s/loaded-armored-packet' % nm, pgpy.PGPKey.from_blob(str(pgpy.PGPKey.from_blob(bytes(pkt.__bytearray__()))[0]))[0], True))
        for label, obj, public in objs:
            if len(obj.userids) != 0 or obj.is_public != public or not obj.is_primary:
                ctx.fail('actions', 'harness: object is not a primary key without user id', {'op': 'action', 'object': label}); continue
            st = dict(nuids=0, primary=True, public=public, protected=False, cleartext=True, flag_ok={})
            before = bytes(obj)
            run_actions(ctx, d, pgpy, 'actions', obj, label, st, helper, msg, public, add_uid=public)
            if public and (bytes(obj) != before or len(obj.userids) != 0):
                ctx.fail('actions', 'a refused operation changed the public object', {'op': 'action', 'object': label, 'action': 'add_uid'})


def new_packet(tag, body):
    n = len(body)
    return bytes([0xc0 | tag]) + (bytes([n]) if n < 192 else bytes([192 + ((n - 192) >> 8), (n - 192) & 0xff]) if n < 8384 else b'\xff' + n.to_bytes(4, 'big')) + body


def suite_opaque(ctx, d, pgpy, names):
    """private keys holding a key packet of an algorithm id PGPy has no material class for (21, 0: the material is kept as undivided
    octets, where its public part ends is unknown).  The right outcome for "the public export carries no secret" is NO public twin:
    PGPKey.pubkey must raise NotImplementedError (model: pubkey_of = None, theorem C07_pubkey_refuses_iff) - for an opaque primary
    and for a key of a supported algorithm with an opaque private SUBKEY - leave the key unchanged and leave no half-built twin
    behind; every private operation on the opaque key object raises."""
    from .keys import get, T0
    from pgpy.constants import KeyFlags as F, PubKeyAlgorithm as A, EllipticCurveOID as C
    with warnings.catch_warnings():
        warnings.simplefilter('ignore')
        helper = pgpy.PGPKey.new(A.EdDSA, C.Ed25519, created=T0)
        helper.add_uid(pgpy.PGPUID.new('Helper'), usage={F.Sign, F.Certify}, created=T0)
        msg = pgpy.PGPMessage.new('plain')
        shapes = []
        for alg in (21, 0):
            for data in (b'\x00\x09\x01\xff', bytes(range(1, 41)), b''):
                body = b'\x04' + (1000).to_bytes(4, 'big') + bytes([alg]) + data
                shapes.append(('opaque%d/%d-octets/primary' % (alg, len(data)), new_packet(5, body), True))
                for n in names:
                    shapes.append(('%s+opaque%d/%d-octets/subkey' % (n, alg, len(data)), None, (n, new_packet(7, body))))
        for label, blob, extra in shapes:
            if blob is None:
                blob = bytes(get(extra[0])) + extra[1]
            case = {'op': 'opaque-twin', 'object': label, 'blob': blob.hex()}
            o = out2(lambda: pgpy.PGPKey.from_blob(blob)[0])
            if o[0] != 'ok':
                ctx.case('opaque', (label, 'load'), nontrivial=False)
                ctx.notes.append('private key with opaque material no longer loaded (%s): %r' % (label, o[1])); continue
            key = o[1]
            if key.is_public or not any(type(p.keymaterial).__name__ == 'OpaquePrivKey' for p in packets_of_key(key)):
                ctx.fail('opaque', 'harness: loaded object is not a private key with an opaque private key packet', case); continue
            t = out2(lambda: tkey_tokens(key))
            if t[0] != 'ok':
                ctx.fail('opaque', 'harness: fields of a private key with opaque material cannot be read', dict(case, impl=repr(t))); continue
            toks = t[1]
            mpub, mpriv = d.call('export ' + toks).split(' ')
            # the private key itself is written back as received (repair c516614: no usage octet after the opaque octets; 298df7b: headers count)
            ctx.expect_eq('opaque', 'bytes(key) of a private key with opaque key material differs from model export(key) / from the octets it was read from',
                          dict(case, tokens=toks[-300:]), out2(lambda: bytes(key).hex()), ('ok', mpriv) if mpriv == blob.hex() else ('model', mpriv[:200], 'blob', blob.hex()[:200]))
            mtw = d.call('twin ' + toks)
            fp0, before = fps_of(key), out2(lambda: bytes(key).hex())
            got = outcome(lambda: key.pubkey)
            ctx.case('opaque', (label, 'twin'), sample={'object': label, 'model': mpub, 'impl': repr(got)[:60]})
            ctx.expect_eq('opaque', 'PGPKey.pubkey of a private key with opaque key material differs from the model (refusal: NotImplementedError)',
                          dict(case, tokens=toks[-300:]), got if got[0] != 'ok' else ('ok', bytes(got[1]).hex()),
                          ('raise', 'NotImplementedError') if mpub == 'REFUSED' else ('ok', mpub))
            if mpub != 'REFUSED' or mtw != 'REFUSED':
                ctx.fail('opaque', 'model: a private key with an opaque key packet gets a public twin', dict(case, model=mpub[:80]))
            if got[0] == 'ok':
                # a twin WAS produced: it must not hold anything the private key does not show as public, and must keep the fingerprints
                tw = got[1]
                if fps_of(tw) != fp0 or set(t for t, b in split_packets(bytes(tw))) - PUBLIC_TAGS:
                    ctx.fail('opaque', 'a public twin produced for a private key with opaque material has other fingerprints / non-public packets',
                             dict(case, twin=bytes(tw).hex()))
            # asking again gives the same answer; nothing was left behind, the key is unchanged
            again = outcome(lambda: key.pubkey)
            sib = key._sibling() if key._sibling is not None else None
            ctx.expect_eq('opaque', 'a refused PGPKey.pubkey changed the key / left a half-built twin / answers differently the second time', dict(case, step='after'),
                          (again[0], again[1] if again[0] != 'ok' else None, sib is None, fps_of(key), out2(lambda: bytes(key).hex())),
                          (got[0], got[1] if got[0] != 'ok' else None, got[0] != 'ok', fp0, before))
            for i, sk in enumerate(key.subkeys.values()):
                opq = type(sk._key.keymaterial).__name__ == 'OpaquePrivKey'
                so = outcome(lambda: sk.pubkey)
                ctx.case('opaque', (label, 'subkey-twin', i))
                if opq and so != ('raise', 'NotImplementedError'):
                    ctx.fail('opaque', 'pubkey of an opaque private subkey is not refused with NotImplementedError', dict(case, idx=i, impl=repr(so)[:80]))
                if not opq and (so[0] != 'ok' or not so[1].is_public or str(so[1].fingerprint) != str(sk.fingerprint)):
                    ctx.fail('opaque', 'subkey of a supported algorithm beside an opaque one: its own twin is not produced / not public / has another fingerprint',
                             dict(case, idx=i, impl=repr(so)[:80]))
            if extra is True:
                # the opaque private primary itself: no usable secret material, every private operation raises
                st = dict(nuids=0, primary=True, public=False, protected=False, cleartext=True, flag_ok={})
                run_actions(ctx, d, pgpy, 'actions', key, label, st, helper, msg, True)


def fps_of(key):
    return [str(key.fingerprint).lower()] + [str(s.fingerprint).lower() for s in key.subkeys.values()]


def key_action_of(pgpy, name):
    from pgpy.decorators import KeyAction
    for cell in (getattr(pgpy.PGPKey, name).__closure__ or ()):
        if isinstance(cell.cell_contents, KeyAction):
            return cell.cell_contents
    return None


def suite_selected_component(ctx, d, pgpy):
    """KeyAction checks its conditions on the component usage() SELECTS (repair cab6d36), which may be a subkey: a key whose primary may only
    certify, with a signing and an encryption subkey.  sign() on the public twin / the loaded public key is dispatched to the public signing
    subkey and must be refused (is_public); on the private key with ONLY the signing subkey protected and locked it must be refused
    (is_unlocked) while certify() (primary, unprotected) runs.  For every action the model table gets the attributes of the component the
    decorator's own usage() selects; nuids / primary are those of the key the method was called on."""
    from .keys import T0
    from pgpy.constants import KeyFlags as F, PubKeyAlgorithm as A, EllipticCurveOID as C, SymmetricKeyAlgorithm as S, HashAlgorithm as H, SignatureType
    with warnings.catch_warnings():
        warnings.simplefilter('ignore')
        k = pgpy.PGPKey.new(A.EdDSA, C.Ed25519, created=T0)
        k.add_uid(pgpy.PGPUID.new('Cert Only'), usage={F.Certify}, created=T0)
        k.add_subkey(pgpy.PGPKey.new(A.EdDSA, C.Ed25519, created=T0), usage={F.Sign}, created=T0)
        k.add_subkey(pgpy.PGPKey.new(A.ECDH, C.Curve25519, created=T0), usage={F.EncryptCommunications, F.EncryptStorage}, created=T0)
        helper = pgpy.PGPKey.new(A.EdDSA, C.Ed25519, created=T0)
        helper.add_uid(pgpy.PGPUID.new('Helper'), usage={F.Sign, F.Certify}, created=T0)
        pub = k.pubkey
        o = out2(lambda: pub.encrypt(pgpy.PGPMessage.new('secret text')))
        encmsg = o[1] if o[0] == 'ok' else pgpy.PGPMessage.new('plain')
        loaded = pgpy.PGPKey.from_blob(bytes(pub))[0]
        selected_subkey = set()

        def run(obj, label, expect_refusal):
            uid = obj.userids[0]
            acts = {'sign': lambda: obj.sign('attack at dawn'), 'certify': lambda: obj.certify(uid, SignatureType.Generic_Cert), 'revoke': lambda: obj.revoke(uid),
                    'revoker': lambda: obj.revoker(helper), 'bind': lambda: obj.bind(helper), 'decrypt': lambda: obj.decrypt(encmsg)}
            for a, fn in acts.items():
                ka = key_action_of(pgpy, a)

                def select():
                    with ka.usage(obj, None) as sel:
                        return sel
                so = out2(select)
                if ka is None or so[0] != 'ok':
                    ctx.fail('actions', 'harness: cannot ask KeyAction.usage which component it selects', {'op': 'action', 'action': a, 'object': label, 'impl': repr(so)[:120]}); continue
                sel = so[1]
                if sel is not obj:
                    selected_subkey.add((label, a))
                if obj.is_public and not sel.is_public:
                    ctx.fail('actions', 'a public object dispatches a private operation to a component that is not public', {'op': 'action', 'action': a, 'object': label})
                st = dict(nuids=len(obj.userids), primary=obj.is_primary, public=sel.is_public, protected=bool(sel.is_protected),
                          cleartext=bool(sel._key.unlocked) if not sel.is_public else True)
                got = classify(out2(fn))
                model = d.call('action', a, 1, st['nuids'], int(st['primary']), int(st['public']), int(st['protected']), int(st['cleartext']), 1, 1)
                case = {'op': 'action', 'action': a, 'object': label, 'state': st, 'selected': 'subkey' if sel is not obj else 'self'}
                ctx.case('actions', (label, a, tuple(sorted(st.items())), sel is not obj), sample=dict(case, impl=got, model=model))
                if expect_refusal(a, sel) and got == 'run':
                    ctx.fail('actions', 'a private operation did not raise although the component it is dispatched to has no usable secret material', case)
                if model == 'run' and got != 'run':
                    if got.startswith(('attr:', 'incomplete', 'usage', 'nokey')):
                        ctx.fail('actions', 'decorator refused although the model table lets the operation run', dict(case, impl=got, model=model))
                    continue
                ctx.expect_eq('actions', 'outcome of the KeyAction preconditions (on the selected component) differs from the model table', case, got, model)

        run(pub, 'cert-only+subkeys/derived', lambda a, sel: True)
        run(loaded, 'cert-only+subkeys/loaded-binary', lambda a, sel: True)
        run(k, 'cert-only+subkeys/private', lambda a, sel: False)
        sk = list(k.subkeys.values())[0]
        po = out2(lambda: sk.protect('pw', S.AES128, H.SHA256))
        if po[0] != 'ok' or not sk.is_protected or sk.is_unlocked or k.is_protected:
            ctx.notes.append('selected-component: the signing subkey alone could not be protected (%r): locked-subkey rows skipped' % (po,))
        else:
            run(k, 'cert-only+subkeys/private, signing subkey locked', lambda a, sel: sel.is_protected and not sel.is_unlocked)
            run(k.pubkey, 'cert-only+subkeys/derived, signing subkey locked', lambda a, sel: True)
            with k.unlock('pw'):
                run(k, 'cert-only+subkeys/private, signing subkey unlocked', lambda a, sel: False)
        if not any(a == 'sign' for _, a in selected_subkey):
            ctx.fail('actions', 'harness: sign() was never dispatched to a subkey (the selected-component rows were not exercised)', {'op': 'action', 'object': 'cert-only+subkeys'})


def suite_pins(ctx, pgpy):
    from pgpy.packet.packets import PrivKeyV4
    from pgpy.decorators import KeyAction
    cur = {'PrivKeyV4.pubkey': src_hash(PrivKeyV4.pubkey), 'PGPKey.pubkey': src_hash(pgpy.PGPKey.pubkey.fget),
           'PGPKey.__bytearray__': src_hash(pgpy.PGPKey.__bytearray__), 'KeyAction.check_attributes': src_hash(KeyAction.check_attributes),
           'KeyAction.__call__': src_hash(KeyAction.__call__)}
    for k, v in PINS.items():
        ctx.case('pins', k, nontrivial=False)
        if cur[k] != v:
            ctx.broken.append('pinned source text of %s changed (%s, model written against %s)' % (k, cur[k], v))
    # decorator arguments the model table was written against
    want = {'sign': (True, {'is_unlocked': True, 'is_public': False}), 'certify': (True, {'is_unlocked': True, 'is_public': False}),
            'revoke': (True, {'is_unlocked': True, 'is_public': False}), 'revoker': (False, {'is_unlocked': True, 'is_public': False}),
            'bind': (False, {'is_unlocked': True, 'is_public': False}), 'decrypt': (False, {'is_unlocked': True, 'is_public': False}),
            'encrypt': (True, {'is_public': True})}
    for name, (has_flags, conds) in want.items():
        fn = getattr(pgpy.PGPKey, name)
        ka = None
        for cell in (fn.__closure__ or ()):
            if isinstance(cell.cell_contents, KeyAction):
                ka = cell.cell_contents
        ctx.case('pins', 'KeyAction(%s)' % name, nontrivial=False)
        if ka is None or bool(ka.flags) != has_flags or list(ka.conditions.items()) != list(conds.items()):
            ctx.broken.append('KeyAction arguments of PGPKey.%s changed: %r' % (name, (ka and (ka.flags, ka.conditions))))


def run(ctx):
    pgpy = load_repo()
    from .keys import available
    d = Driver('c07', oracles={'sha1': lambda h: hashlib.sha1(unhx(h)).hexdigest()})
    try:
        names = available()
        ctx.skipped.append('Brainpool curves cannot be instantiated with the local OpenSSL')
        suite_pins(ctx, pgpy)
        q = ctx.quick
        rng = ctx.rng
        if q:
            plans = [('ed25519', STAGES, True), ('p256', ['attr', 'third-party', 'subkey', 'revoke-sub'], True),
                     ('rsa1024', ['uid', 'local-cert', 'enc-subkey'], True), ('dsa1024', ['third-party', 'revoke-key'], False),
                     ('secp256k1', ['subkey'], False), ('p521', [], True), ('rsa2048', [], False)]
        else:
            plans = [(n, STAGES, True) for n in names]
            for n in names:
                for _ in range(2):
                    plans.append((n, [rng.choice(STAGES) for _ in range(rng.randrange(1, 7))], rng.random() < .5))
        for n, plan, prot in plans:
            if n in names:
                history(ctx, d, pgpy, n, plan, prot)
        for n, plan, prot in ([('p256', ['third-party', 'subkey'], True), ('rsa2048', ['uid'], False), ('ed25519', [], True)] if q else
                              [(n, [rng.choice(STAGES) for _ in range(3)], True) for n in names]):
            if n in names:
                history(ctx, d, pgpy, n, plan, prot, oldfmt=True)
        for n, plan, prot in ([('ed25519', ['enc-subkey'], True), ('p256', [], False), ('p384', ['uid'], False), ('p521', [], True)] if q else
                              [(n, [rng.choice(STAGES) for _ in range(2)], True) for n in ('ed25519', 'ed25519b', 'p256', 'p384', 'p521', 'secp256k1')]):
            if n in names:
                history(ctx, d, pgpy, n, plan, prot, kdf=True)
        # a private key LOADED with non-minimal subpacket lengths in the unhashed areas of its signatures: twin / copies export them as received
        for n in (['ed25519', 'p256'] if q else names):
            if n in names:
                with warnings.catch_warnings():
                    warnings.simplefilter('ignore')
                    o = out2(lambda: variant_key(pgpy, n + '/foreign-lengths'))
                    if o[0] != 'ok':
                        ctx.fail('twin', 'a key whose signatures use five-octet subpacket lengths cannot be loaded', {'op': 'twin', 'key': n + '/foreign-lengths', 'impl': repr(o)}); continue
                    kf = o[1]
                    check_twin(ctx, d, 'twin', kf, kf.pubkey, {'op': 'twin', 'key': n + '/foreign-lengths', 'stage': 'loaded'}, secrets_of(kf))
                    c2 = copy.copy(kf)
                    check_twin(ctx, d, 'twin', c2, c2.pubkey, {'op': 'twin', 'key': n + '/foreign-lengths', 'stage': 'copied'}, secrets_of(c2))
        # shapes PGPy's own key management never produces but other implementations do (and PGPy must carry over to the twin)
        for n, plan, prot in ([('ed25519', STAGES2 + ['uid'], True), ('rsa2048', ['legacy-uid', 'direct-third-party'], False),
                               ('p256', ['attr-multi', 'revoker-revokes'], False)] if q else
                              [(n, rng.sample(STAGES2, len(STAGES2)) + [rng.choice(STAGES) for _ in range(2)], rng.random() < .5) for n in names]):
            if n in names:
                history(ctx, d, pgpy, n, plan, prot)
        for n in (['ed25519', 'rsa1024', 'p256'] if q else names):
            if n in names:
                suite_actions(ctx, d, pgpy, n)
        suite_usage_table(ctx, d, pgpy)
        suite_no_uid(ctx, d, pgpy)
        suite_selected_component(ctx, d, pgpy)
        suite_opaque(ctx, d, pgpy, [n for n in (('ed25519', 'rsa1024') if q else ('ed25519', 'rsa1024', 'p256', 'dsa1024', 'p521')) if n in names])
        ctx.exhaustive.append('KeyAction decision table: 6 private operations x {derived, loaded (binary), loaded (armored), public subkey, '
                              'private, private locked, private unlocked, twin taken while unlocked, encryption-only key, public / private primary WITHOUT user id (+ add_uid), private primary with opaque material, certify-only primary whose signing subkey is the selected component (public / locked / unlocked)} compared with the model table')
        ctx.notes.append('literal secret search (TESTED, not proved): big- and little-endian octets of every secret integer >= 16 octets and the '
                         'encrypted secret blob, over binary export, de-armored export and armor text; the proved statement is non-interference')
        ctx.notes.append('sha1 oracle calls answered by hashlib: %d' % d.oracle_calls)
    finally:
        d.close()


def direct_failures(key, pub, secrets):
    """the property itself on the implementation, without the model: list of what fails"""
    bad = []
    raw = bytes(pub)
    pk = split_packets(raw)
    if set(t for t, b in pk) - PUBLIC_TAGS:
        bad.append('tags')
    if outcome(dearmor, str(pub)) != ('ok', ('PUBLIC KEY BLOCK', raw)):
        bad.append('armor')
    kb = [b for t, b in pk if t in (6, 14)]
    want = [str(key.fingerprint).lower()] + [str(s.fingerprint).lower() for s in key.subkeys.values()]
    if [rfc_fp(b) for b in kb] != want:
        bad.append('fingerprints')
    if [(t, b) for t, b in pk if t in (13, 17)] != [body_of(u._uid) for u in key._uids]:
        bad.append('identities')
    if any(not exportable_indep(b) for t, b in pk if t == 2):
        bad.append('non-exportable signature')
    if any(sec in blob for _, sec in secrets for blob in (raw, str(pub).encode())):
        bad.append('secret octets')
    return bad


def replay(ctx, case):
    """re-run ONE recorded case on the implementation (no model involved); True = it still fails"""
    pgpy = load_repo()
    from .keys import get, T0, SPECS
    from pgpy.constants import SymmetricKeyAlgorithm as S, HashAlgorithm as H
    try:
        with warnings.catch_warnings():
            warnings.simplefilter('ignore')
            if case.get('op') in ('twin', 'forms') and str(case.get('key')).split('/')[0] in SPECS:
                name = case['key']
                key = variant_key(pgpy, name)
                other = get('ed25519b' if name != 'ed25519b' else 'p256')
                stages = [x for x in case.get('stage', '').split('+') if x]
                for i, st in enumerate(x for x in stages if x in STAGES + STAGES2):
                    out2(lambda: grow(ctx, pgpy, key, other, st, T0 + timedelta(days=1 + i)))
                secrets = secrets_of(key)
                bad = direct_failures(key, key.pubkey, secrets)
                base = bytes(key.pubkey)
                if 'protect' in stages or case.get('op') == 'forms':
                    key.protect('correct horse', S.AES256, H.SHA256)
                    bad += direct_failures(key, key.pubkey, secrets)
                    with key.unlock('correct horse'):
                        bad += direct_failures(key, key.pubkey, secrets + secrets_of(key))
                        if bytes(key.pubkey) != base:
                            bad.append('forms')
                    if bytes(key.pubkey) != base:
                        bad.append('forms')
                return bool(bad)
            if case.get('op') == 'action' and case.get('object', '').startswith('cert-only+subkeys'):
                # certify-only primary, signing subkey = the selected component: sign() on the twin, and on the private key while that subkey is locked, must raise
                from pgpy.constants import KeyFlags as F, PubKeyAlgorithm as A, EllipticCurveOID as C
                k = pgpy.PGPKey.new(A.EdDSA, C.Ed25519, created=T0)
                k.add_uid(pgpy.PGPUID.new('Cert Only'), usage={F.Certify}, created=T0)
                k.add_subkey(pgpy.PGPKey.new(A.EdDSA, C.Ed25519, created=T0), usage={F.Sign}, created=T0)
                if classify(out2(lambda: k.pubkey.sign('x'))) != 'attr:is_public':
                    return True
                list(k.subkeys.values())[0].protect('pw', S.AES128, H.SHA256)
                return classify(out2(lambda: k.sign('x'))) != 'attr:is_unlocked'
            if case.get('op') == 'opaque-twin' and case.get('blob'):
                # a private key with opaque key material has no public twin: anything but the refusal is the failure
                key = pgpy.PGPKey.from_blob(bytes.fromhex(case['blob']))[0]
                before = bytes(key)
                return outcome(lambda: key.pubkey) != ('raise', 'NotImplementedError') or bytes(key) != before or key._sibling is not None
            if case.get('op') == 'action' and case.get('object', '').startswith('no-uid/') and case['state'].get('public'):
                from pgpy.constants import PubKeyAlgorithm as A, EllipticCurveOID as C
                k = pgpy.PGPKey.new(A.EdDSA, C.Ed25519, created=T0)
                obj = k.pubkey if case['object'].endswith('derived') else pgpy.PGPKey.from_blob(bytes(k._key.pubkey().__bytearray__()))[0]
                helper = get('ed25519b')
                acts = {'sign': lambda: obj.sign('x'), 'certify': lambda: obj.certify(helper.userids[0]), 'revoke': lambda: obj.revoke(helper.userids[0]),
                        'revoker': lambda: obj.revoker(helper), 'bind': lambda: obj.bind(helper), 'decrypt': lambda: obj.decrypt(pgpy.PGPMessage.new('x')),
                        'add_uid': lambda: obj.add_uid(pgpy.PGPUID.new('Late Uid'))}
                return classify(out2(acts[case['action']])) not in ('attr:is_public', 'incomplete')
            if case.get('op') == 'action' and case.get('object', '').split('/')[0] in SPECS:
                name, label = case['object'].split('/', 1)
                key = get(name)
                pub = key.pubkey
                obj = {'derived': pub, 'loaded-binary': pgpy.PGPKey.from_blob(bytes(pub))[0], 'loaded-armored': pgpy.PGPKey.from_blob(str(pub))[0]}.get(label)
                if obj is None:
                    return False
                helper = get('ed25519b')
                acts = {'sign': lambda: obj.sign('x'), 'certify': lambda: obj.certify(obj.userids[0]), 'revoke': lambda: obj.revoke(obj.userids[0]),
                        'revoker': lambda: obj.revoker(helper), 'bind': lambda: obj.bind(helper), 'decrypt': lambda: obj.decrypt(pgpy.PGPMessage.new('x'))}
                return classify(out2(acts[case['action']])) != 'attr:is_public'
    except Exception:
        return True
    return False
