"""C08: packet codec.  Own output re-parses byte-exactly with trailing data untouched; foreign encodings normalise once.
Implementation-level oracles over every packet PGPy emits for keys / signatures / messages / fixtures, model correspondence
(extracted format terms of Model/Packets.v) for the modelled packet types, foreign re-framings, mutations after parse."""
import glob, os, warnings
from datetime import datetime, timedelta, timezone

from .common import outcome_timed, Driver, hx, unhx, hn, unhn, outcome, load_repo, REPO
from . import sigcommon as S
from .keys import get, T0, SPECS

TRAIL = b'\xde\xad\xbe\xef\x01'


def fmt_name(tag, body):
    """model format for a packet (None = not modelled)"""
    if tag == 1 and body[:1] == b'\x03': return {1: 'pkesk_rsa', 18: 'pkesk_ecdh'}.get(body[9])
    if tag == 2 and body[:1] == b'\x04': return 'sig_v4'
    if tag == 3 and body[:1] == b'\x04': return {0: 'skesk_simple', 1: 'skesk_salted', 3: 'skesk_iter'}.get(body[2])
    if tag == 4 and body[:1] == b'\x03': return 'ops_v3'
    if tag in (6, 14) and body[:1] == b'\x04':
        a = {1: 'rsa', 17: 'dsa', 16: 'elg', 19: 'ecdsa', 22: 'eddsa', 18: 'ecdh'}.get(body[5])
        return a and ('pub_' if tag == 6 else 'sub_') + a
    if tag in (5, 7) and body[:1] == b'\x04':
        a = {1: 'rsa', 17: 'dsa', 16: 'elg', 19: 'ecdsa', 22: 'eddsa', 18: 'ecdh'}.get(body[5])
        pre = 'sec_' if tag == 5 else 'ssb_'
        # the S2K usage octet sits after the algorithm-specific public part: offer every secret-key format of that algorithm
        return a and [pre + a + sfx for sfx in ('_plain', '_254', '_255', '_254_salted', '_254_simple', '_255_salted', '_card', '_gnu')]
    return {8: 'compressed', 9: 'sed', 10: 'marker', 11: 'literal', 12: 'trust', 13: 'userid', 17: 'uattr', 18: 'seipd', 19: 'mdc'}.get(tag)


class H:
    def __init__(self, ctx):
        self.ctx = ctx
        self.pgpy = load_repo()
        from pgpy.packet import Packet
        self.Packet = Packet
        self.d = Driver('c08')

    def parse(self, data):
        buf = bytearray(data)
        p = self.Packet(buf)
        return p, bytes(buf)

    # ---- the own-output oracle ----
    def own_output(self, suite, pkt, origin):
        """pkt: octets of ONE packet emitted by PGPy"""
        ctx = self.ctx
        case = {'op': 'own', 'origin': origin, 'pkt': pkt.hex() if len(pkt) < 4000 else pkt[:200].hex() + '...'}
        tag, body, _ = S.split_packets(pkt)[0]
        ctx.case(suite, pkt, sample={'origin': origin, 'tag': tag, 'len': len(pkt)})
        o = outcome(self.parse, pkt + TRAIL)
        if o[0] != 'ok':
            ctx.fail(suite, 'PGPy cannot parse a packet it emitted', dict(case, impl=repr(o))); return None
        p, rest = o[1]
        if rest != TRAIL:
            ctx.fail(suite, 'parsing did not consume exactly the packet (following data touched)', dict(case, rest=rest.hex()[:80])); return None
        again = outcome(lambda: bytes(p.__bytearray__()))
        if again != ('ok', pkt):
            ctx.fail(suite, 'parsed packet does not serialise to the identical octets', dict(case, impl=repr(again)[:300])); return None
        return p

    # ---- model correspondence for modelled formats ----
    def model(self, suite, pkt, origin):
        ctx, d = self.ctx, self.d
        tag, body, _ = S.split_packets(pkt)[0]
        name = fmt_name(tag, body)
        if name is None or pkt[0] & 0x40 == 0:
            return
        canonical = S.new_header(tag, len(body)) + body
        if canonical != pkt:
            return   # non-minimal / partial framing: outside the model (covered by the implementation oracles)
        if isinstance(name, list):
            known = set(d.call('formats').split(' ')) if not hasattr(self, '_formats') else self._formats
            self._formats = known
            r, chosen = 'ERR', None
            for cand in name:
                if cand not in known: continue
                r = d.call('dec', cand, hx(pkt + TRAIL))
                if r != 'ERR' and r.endswith(' | ' + hx(TRAIL)):
                    chosen = cand; break
            if chosen is None:
                ctx.case(suite + '-model', ('secret-unmodelled', pkt[:16]), nontrivial=False)
                ctx.dist['secret-key-forms-outside-model'] = ctx.dist.get('secret-key-forms-outside-model', 0) + 1
                return
            name = chosen
        else:
            r = d.call('dec', name, hx(pkt + TRAIL))
        case = {'op': 'model', 'fmt': name, 'pkt': pkt.hex()[:2000], 'origin': origin}
        ctx.case(suite + '-model', (name, pkt), sample={'fmt': name, 'value': r[:160]})
        if r == 'ERR':
            # sig_v4 / uattr with non-minimal subpacket lengths are outside the canonical model
            if name in ('sig_v4', 'uattr'): return
            ctx.fail(suite + '-model', 'model format rejects a packet PGPy emitted', case); return
        val, rest = r.rsplit(' | ', 1)
        if unhx(rest) != TRAIL:
            ctx.fail(suite + '-model', 'model did not leave the trailing data untouched', dict(case, model=r[:200])); return
        back = d.call('enc', name, val)
        if back == 'ERR' or unhx(back) != pkt:
            if name in ('sig_v4', 'uattr', 'pub_rsa', 'pub_dsa', 'pub_elg', 'sub_rsa', 'sub_dsa', 'sub_elg') and back != 'ERR':
                # non-canonical MPI / subpacket length in the input: model re-encodes canonically
                return
            ctx.fail(suite + '-model', 'model enc(dec(p)) differs from the emitted packet', dict(case, model=back[:300]))

    # ---- foreign framings of a packet body: must normalise once ----
    def foreign(self, suite, tag, body, origin, framing, data):
        ctx = self.ctx
        case = {'op': 'foreign', 'origin': origin, 'framing': framing, 'pkt': data.hex() if len(data) < 3000 else None}
        ctx.case(suite, (framing, data[:64], len(data)), sample={'origin': origin, 'framing': framing, 'tag': tag})
        o = outcome(self.parse, data + TRAIL)
        if o[0] != 'ok':
            ctx.fail(suite, 'PGPy rejects a well-formed foreign framing', dict(case, impl=repr(o))); return
        p, rest = o[1]
        if rest != TRAIL:
            ctx.fail(suite, 'foreign framing: following data touched', dict(case, rest=rest.hex()[:80])); return
        b1 = outcome(lambda: bytes(p.__bytearray__()))
        if b1[0] != 'ok':
            ctx.fail(suite, 'cannot re-serialise a parsed foreign packet', dict(case, impl=repr(b1))); return
        b1 = b1[1]
        try:
            t1, body1, whole1 = S.split_packets(b1 + TRAIL)[0]        # with following data: a header declaring MORE than was written swallows it
        except Exception as ex:
            ctx.fail(suite, 're-serialised packet is not well-formed', dict(case, out=b1.hex()[:300])); return
        if whole1 != b1 or t1 != tag:
            ctx.fail(suite, 're-serialised header length does not equal the body length', dict(case, out=b1.hex()[:300])); return
        if body1 != body:
            ctx.fail(suite, 're-serialised body differs (field values changed)', dict(case, out=b1.hex()[:300])); return
        o2 = outcome(self.parse, b1 + TRAIL)
        if o2[0] != 'ok' or o2[1][1] != TRAIL or bytes(o2[1][0].__bytearray__()) != b1:
            ctx.fail(suite, 'normalised packet is not a fixed point of parse/serialise', dict(case, out=b1.hex()[:300]))


def framings(rng, tag, body, quick):
    n = len(body)
    out = []
    if tag < 16:
        for code, w in ((0, 1), (1, 2), (2, 4)):
            if n < 256 ** w:
                out.append(('old-%d' % w, bytes([0x80 | (tag << 2) | code]) + n.to_bytes(w, 'big') + body))
    out.append(('new-5', bytes([0xc0 | tag]) + b'\xff' + n.to_bytes(4, 'big') + body))
    if n < 8384 and n >= 192 or n < 192:
        out.append(('new-min', S.new_header(tag, n) + body))
    if tag in (8, 9, 11, 18) and n >= 2:
        for _ in range(1 if quick else 3):
            pos, enc = 0, bytearray([0xc0 | tag])
            while True:
                remain = n - pos
                ks = [k for k in range(0, 14) if (1 << k) <= remain]
                if not ks or (pos and rng.random() < 0.3):
                    enc += S.new_header(0, remain)[1:] + body[pos:]; break
                k = rng.choice(ks); enc += bytes([224 + k]) + body[pos:pos + (1 << k)]; pos += 1 << k
            out.append(('partial', bytes(enc)))
    return out


def run(ctx):
    h = H(ctx)
    try:
        with warnings.catch_warnings():
            warnings.simplefilter('ignore')
            _run(h)
    finally:
        h.d.close()


def emitted_packets(h):
    """(origin, whole-object octets) of things PGPy emits"""
    pgpy, ctx = h.pgpy, h.ctx
    from pgpy.constants import CompressionAlgorithm as Z, SymmetricKeyAlgorithm as SK, HashAlgorithm as HA, KeyFlags as F
    names = ['ed25519', 'p256', 'rsa2048', 'dsa2048'] if ctx.quick else list(SPECS)
    for n in names:
        try:
            k = get(n)
        except Exception as ex:
            ctx.skipped.append('%s: %r' % (n, ex)); continue
        yield ('key:' + n, bytes(k))
        yield ('pub:' + n, bytes(k.pubkey))
        for alg in ([SK.AES256] if ctx.quick else [SK.AES256, SK.AES128, SK.CAST5, SK.TripleDES, SK.Camellia256]):
            k2 = get(n)
            try:
                k2.protect('pässphrase', alg, HA.SHA256)
            except Exception as ex:
                ctx.skipped.append('protect %s %s: %r' % (n, alg, ex)); continue
            yield ('protected:%s:%s' % (n, alg.name), bytes(k2))
    k = get('ed25519'); rk = get('rsa2048')
    t0 = T0 + timedelta(days=400)
    bodies = [b'', b'x', b'hello world\n' * 3, bytes(range(256)) * 3, 'café ☃'.encode()]
    if not ctx.quick: bodies.append(os.urandom(70000))
    fnames = ['', 'a.txt', '_CONSOLE', 'café.txt', 'n' * 255]
    import tempfile, shutil
    tmpd = tempfile.mkdtemp(prefix='verif_c08_')
    try:
        i = 0
        for body in bodies:
            for comp in (Z.Uncompressed, Z.ZIP, Z.ZLIB, Z.BZ2):
                i += 1
                fname = fnames[i % len(fnames)]
                if fname in ('', '_CONSOLE'):
                    m = pgpy.PGPMessage.new(body, file=False, compression=comp, format='b', sensitive=(fname == '_CONSOLE'))
                else:
                    fp = os.path.join(tmpd, fname)
                    with open(fp, 'wb') as f: f.write(body)
                    os.utime(fp, (1500000000 + i * 1000, 1500000000 + i * 1000))
                    m = pgpy.PGPMessage.new(fp, file=True, compression=comp)
                if i % 2: m |= k.sign(m, created=t0)
                if i % 3 == 0: m |= rk.sign(m, created=t0)
                yield ('msg:%d' % i, bytes(m))
                if i % 4 == 0 or not ctx.quick:
                    em = m.encrypt('pw', cipher=SK.AES128 if i % 8 else SK.CAST5)
                    yield ('enc-pass:%d' % i, bytes(em))
                    try:
                        ek = rk.pubkey.encrypt(m, cipher=SK.AES256)
                        yield ('enc-rsa:%d' % i, bytes(ek))
                        ee = k.pubkey.encrypt(m, cipher=SK.AES256)
                        yield ('enc-ecdh:%d' % i, bytes(ee))
                    except Exception as ex:
                        ctx.skipped.append('encrypt: %r' % ex)
    finally:
        shutil.rmtree(tmpd, ignore_errors=True)
    # user attribute
    try:
        ua = pgpy.PGPUID.new(bytearray(open(os.path.join(REPO, 'tests', 'testdata', 'simple.jpg'), 'rb').read()))
        k3 = get('ed25519'); k3.add_uid(ua, created=t0)
        yield ('key+uattr', bytes(k3))
    except Exception as ex:
        ctx.skipped.append('user attribute: %r' % ex)
    # signatures with the option grid (from the C02 generator)
    from .c02 import Env, pgpy_signatures
    env = Env(ctx)
    try:
        for label, signer, sig, sobj, msubj, vpub, et in pgpy_signatures(env, 'ed25519', [8]):
            yield ('sig:' + label, bytes(sig))
    finally:
        env.d.close()


def _run(h):
    ctx, pgpy = h.ctx, h.pgpy
    from . import sigcommon as _S
    from pgpy.types import Header as _BH, MetaDispatchable as _MD
    from pgpy.packet.types import Header as _H, Packet as _P, VersionedHeader as _VH, Opaque as _O
    _objs = {'types.Header.length_bin': _BH.length_bin, 'packet.Header.parse': _H.parse, 'VersionedHeader.parse': _VH.parse, 'MetaDispatchable.__call__': _MD.__call__, 'Packet.update_hlen': _P.update_hlen, 'Opaque.parse': _O.parse}
    _S.check_pins(ctx, [(k, _objs[k], v) for k, v in {'types.Header.length_bin': '377b05380a964da6', 'packet.Header.parse': '06d846c3c0c27e8f', 'VersionedHeader.parse': '35ab70161e2827e2', 'MetaDispatchable.__call__': '1ad487f8b93733b6', 'Packet.update_hlen': 'd3e11a2c7e5557c4', 'Opaque.parse': 'ca6a82edaf78bc9b'}.items()])
    rng = ctx.rng
    seen = set()
    # ---- 1. everything PGPy emits, packet by packet ----
    for origin, blob in emitted_packets(h):
        try:
            pks = S.split_packets(blob)
        except Exception as ex:
            ctx.fail('own-output', 'emitted object is not a well-formed packet sequence', {'op': 'own', 'origin': origin, 'blob': blob.hex()[:400]}); continue
        for tag, body, whole in pks:
            if whole in seen: continue
            seen.add(whole)
            p = h.own_output('own-output', whole, origin)
            h.model('own-output', whole, origin)
            if tag == 8 and p is not None:
                # compressed packets nest packets: recurse into the payload as emitted
                try:
                    inner = b''.join(bytes(x.__bytearray__()) for x in p.packets)
                    for t2, b2, w2 in S.split_packets(inner):
                        if w2 not in seen:
                            seen.add(w2); h.own_output('own-output', w2, origin + '/inner'); h.model('own-output', w2, origin + '/inner')
                except Exception as ex:
                    ctx.fail('own-output', 'cannot walk the packets inside a compressed packet', {'op': 'own', 'origin': origin, 'err': repr(ex)})
            # ---- 2. the same body under foreign framings ----
            if len(body) < 66000 and (len(seen) % (3 if ctx.quick else 1) == 0):
                for framing, data in framings(rng, tag, body, ctx.quick):
                    if tag == 8 and framing == 'partial' and False: continue
                    h.foreign('foreign-framing', tag, body, origin, framing, data)

    # ---- 3. the repository's packet fixtures (GnuPG-made): foreign input normalises once ----
    for path in sorted(glob.glob(os.path.join(REPO, 'tests', 'testdata', 'packets', '*'))):
        data = open(path, 'rb').read()
        try:
            tag, body, whole = S.split_packets(data)[0]
        except Exception:
            continue
        h.foreign('fixtures', tag, body, os.path.basename(path), 'as-is', whole)
        h.model('fixtures', whole, os.path.basename(path))

    # ---- 4. model-encoded packets with generated values: PGPy must parse and re-emit them identically ----
    d = h.d
    def z(v): return 'z' + hn(v)
    def b(x): return 'b' + hx(x)
    def seq(*xs):
        return xs[0] if len(xs) == 1 else '( %s %s )' % (xs[0], seq(*xs[1:]))
    gen = []
    for _ in range(ctx.n(60, 1500)):
        fn = bytes(rng.randrange(32, 256) for _ in range(rng.choice([0, 1, 8, 255])))
        gen.append(('literal', seq(b(b'\xcb'), z(rng.choice([0x62, 0x74, 0x75, 0x6d])), b(fn), z(rng.randrange(2**32)), b(bytes(rng.randrange(256) for _ in range(rng.choice([0, 1, 191, 192, 300, 8384])))))))
        gen.append(('ops_v3', seq(b(b'\xc4'), b(b'\x03'), z(rng.choice([0, 1, 0x10, 0x13])), z(rng.choice([2, 8, 10])), z(rng.choice([1, 17, 19, 22])), b(bytes(rng.randrange(256) for _ in range(8))), z(rng.randrange(2)))))
        gen.append(('userid', seq(b(b'\xcd'), b(rng.choice(['Alice <a@b>', 'café', '', 'x' * 300]).encode()))))
        gen.append(('pub_rsa', seq(b(b'\xc6'), b(b'\x04'), z(rng.randrange(2**32)), b(b'\x01'), z(rng.getrandbits(rng.choice([1, 8, 1023, 1024, 2048])) | 1), z(65537))))
        gen.append(('mdc', seq(b(b'\xd3'), b(bytes(rng.randrange(256) for _ in range(20))))))
        gen.append(('trust', seq(b(b'\xcc'), b(bytes(rng.randrange(256) for _ in range(rng.choice([0, 1, 2, 2, 3, 5, 40])))))))     # ring-trust packets of any length
        gen.append(('skesk_iter', seq(b(b'\xc3'), b(b'\x04'), z(rng.choice([7, 8, 9, 3])), b(b'\x03'), z(rng.choice([2, 8, 10])), b(bytes(rng.randrange(256) for _ in range(8))), z(rng.randrange(256)), b(bytes(rng.randrange(256) for _ in range(rng.choice([0, 17, 33])))))))
        gen.append(('pkesk_rsa', seq(b(b'\xc1'), b(b'\x03'), b(bytes(rng.randrange(256) for _ in range(8))), b(b'\x01'), z(rng.getrandbits(2047) | 1))))
    for name, val in gen:
        r = d.call('enc', name, val)
        if r == 'ERR':
            continue
        pkt = unhx(r)
        ctx.case('model-encoded', (name, pkt), sample={'fmt': name, 'pkt': pkt.hex()[:120]})
        o = outcome(h.parse, pkt + TRAIL)
        case = {'op': 'modelenc', 'fmt': name, 'pkt': pkt.hex()[:3000]}
        if o[0] != 'ok':
            ctx.fail('model-encoded', 'PGPy rejects a packet the model encoder wrote', dict(case, impl=repr(o))); continue
        p, rest = o[1]
        if rest != TRAIL or bytes(p.__bytearray__()) != pkt:
            ctx.fail('model-encoded', 'PGPy does not round-trip a packet the model encoder wrote', dict(case, out=bytes(p.__bytearray__()).hex()[:300], rest=rest.hex()))

    # ---- 5. mutation after parse: an old-format key whose body grows (protect), edited subpackets ----
    from pgpy.constants import SymmetricKeyAlgorithm as SK, HashAlgorithm as HA
    for name in (['p521', 'ed25519'] if ctx.quick else ['p521', 'p384', 'p256', 'ed25519', 'rsa2048', 'dsa2048']):
        try:
            k = get(name)
        except Exception as ex:
            ctx.skipped.append('%s: %r' % (name, ex)); continue
        pks = S.split_packets(bytes(k))
        old = b''
        for tag, body, whole in pks:
            w = 1 if len(body) < 256 else 2
            old += bytes([0x80 | (tag << 2) | (0 if w == 1 else 1)]) + len(body).to_bytes(w, 'big') + body
        ctx.case('mutate-after-parse', ('protect', name), sample={'key': name, 'op': 'old-format load, protect, export, re-import'})
        def flow():
            k2 = pgpy.PGPKey.from_blob(old)[0]
            k2.protect('pw', SK.AES256, HA.SHA256)
            out = bytes(k2)
            k3 = pgpy.PGPKey.from_blob(out)[0]
            assert k3.fingerprint == k.fingerprint and k3.is_protected
            with k3.unlock('pw'):
                pass
            return S.split_packets(out) is not None
        o = outcome(flow)
        if o != ('ok', True):
            ctx.fail('mutate-after-parse', 'key loaded with old-format headers cannot be re-imported after protect()', {'op': 'mutate', 'key': name, 'impl': repr(o)})
    grow_after_parse(h)
    big_partial(h)
    usage255_after_unlock(h)
    foreign_signatures(h)
    unknown_versions(h)
    foreign_bodies(h)


def _split_subpackets(area):
    """RFC 4880 5.2.3.1, independent of PGPy and of the model: [(type, critical, body)]"""
    out, i = [], 0
    while i < len(area):
        f = area[i]
        if f < 192: n, i = f, i + 1
        elif f < 255: n, i = ((f - 192) << 8) + area[i + 1] + 192, i + 2
        else: n, i = int.from_bytes(area[i + 1:i + 5], 'big'), i + 5
        if n < 1 or i + n > len(area): raise ValueError('subpacket overruns its area')
        out.append((area[i] & 0x7f, bool(area[i] & 0x80), bytes(area[i + 1:i + n]))); i += n
    return out


def _sig_fields(body):
    """v4 signature body -> the field values a re-serialisation must keep"""
    assert body[0] == 4
    hl = int.from_bytes(body[4:6], 'big'); hashed = body[6:6 + hl]
    ul = int.from_bytes(body[6 + hl:8 + hl], 'big'); unhashed = body[8 + hl:8 + hl + ul]
    rest = body[8 + hl + ul:]
    return {'head': body[1:4].hex(), 'hashed_octets': hashed.hex(), 'unhashed': [(t, c, b.hex()) for t, c, b in _split_subpackets(unhashed)],
            'hash2': rest[:2].hex(), 'mpis': S.read_mpis(rest[2:])}


def foreign_signatures(h):
    """well-formed v4 signature packets from another producer: hashed AND unhashed areas with every legal length encoding, flag
    fields of several octets, unknown types, text in any charset.  Re-serialising must give header length == body length, the same
    field values, acceptance and a fixed point (the hashed area even octet for octet, C05)."""
    from .c05 import gen_area
    ctx, rng = h.ctx, h.ctx.rng
    fpr = bytes(range(20))
    for i in range(ctx.n(400, 6000)):
        hashed, hdesc, _ = gen_area(rng, fpr, rng.choice([0, 1, 2, 3]), wild=False)
        unh, udesc, _ = gen_area(rng, fpr, rng.choice([0, 1, 1, 2, 4]), wild=False)
        if rng.random() < 0.5:
            unh = S.area([unh[2 + 6:]]) if len(unh) > 8 else S.area([])          # drop the leading creation time from the unhashed area
        mp = [rng.getrandbits(rng.choice([1, 200, 255, 256])) | 1 for _ in range(2)]
        body = S.sig_body(rng.choice([0x00, 0x01, 0x10, 0x13, 0x18, 0x1f]), 22, rng.choice([8, 10]), hashed, unh, bytes([rng.randrange(256), rng.randrange(256)]), mp)
        for framing, data in ([('new-min', S.sig_packet(body))] + ([('old', framings(rng, 2, body, True)[0][1])] if i % 4 == 0 else [])):
            case = {'op': 'foreign-sig', 'pkt': data.hex(), 'hashed': hdesc, 'unhashed': udesc}
            ctx.case('foreign-signature', data, sample={'hashed': hdesc, 'unhashed': udesc, 'framing': framing})
            o = outcome_timed(2.0, lambda: h.parse(data + TRAIL))
            if o[0] != 'ok':
                # C08 speaks about the foreign packets PGPy ACCEPTS; what it refuses (algorithm ids outside its enums: the C05 finding) is counted only
                ctx.dist['foreign-signature-refused'] = ctx.dist.get('foreign-signature-refused', 0) + 1
                continue
            p, rest = o[1]
            if rest != TRAIL:
                ctx.fail('foreign-signature', 'foreign signature: following data touched', dict(case, rest=rest.hex()[:80])); continue
            b1 = outcome(lambda: bytes(p.__bytearray__()))
            if b1[0] != 'ok':
                ctx.fail('foreign-signature', 'cannot re-serialise a parsed foreign signature', dict(case, impl=repr(b1)[:200])); continue
            b1 = b1[1]
            sp = outcome(lambda: S.split_packets(b1 + TRAIL))
            if sp[0] != 'ok' or len(sp[1]) < 1 or sp[1][0][2] != b1 or sp[1][0][0] != 2:
                ctx.fail('foreign-signature', 're-serialised signature: header length does not equal the body length', dict(case, out=b1.hex()[:600])); continue
            f0 = _sig_fields(body)
            f1 = outcome(lambda: _sig_fields(sp[1][0][1]))
            if f1 != ('ok', f0):
                ctx.fail('foreign-signature', 're-serialised signature carries other field values (or its areas are not well-formed)',
                         dict(case, out=b1.hex()[:600], want={k: str(v)[:200] for k, v in f0.items()}, got=repr(f1)[:400])); continue
            o2 = outcome(lambda: h.parse(b1 + TRAIL))
            if o2[0] != 'ok' or o2[1][1] != TRAIL or bytes(o2[1][0].__bytearray__()) != b1:
                ctx.fail('foreign-signature', 'normalised signature is not a fixed point of parse/serialise', dict(case, out=b1.hex()[:600]))


def unknown_versions(h):
    """packets of a versioned tag whose version octet PGPy has no class for (0 included): kept opaque, exactly their own length
    consumed, re-emitted identically, following packets untouched"""
    ctx, rng = h.ctx, h.ctx.rng
    known = {1: {3}, 2: {4}, 3: {4}, 4: {3}, 5: {4}, 6: {4}, 7: {4}, 14: {4}, 18: {1}}
    for tag, kv in sorted(known.items()):
        for ver in ([0, 1, 2, 3, 5, 6, 255] if ctx.quick else range(256)):
            if ver in kv:
                continue
            body = bytes([ver]) + bytes(rng.randrange(256) for _ in range(rng.choice([0, 1, 12, 25, 200])))
            for framing, data in framings(rng, tag, body, True)[:2 if ctx.quick else 4]:
                h.foreign('unknown-version', tag, body, 'tag %d version %d' % (tag, ver), framing, data)


def _mpis(data, count):
    """RFC 4880 3.2, tolerant of non-minimal bit counts: [int] * count and the octets left"""
    out = []
    for _ in range(count):
        bits = int.from_bytes(data[:2], 'big'); n = (bits + 7) // 8
        if len(data) < 2 + n: raise ValueError('short MPI')
        out.append(int.from_bytes(data[2:2 + n], 'big')); data = data[2 + n:]
    return out, data


def foreign_bodies(h):
    """packets another producer may write that are well-formed but not in the form PGPy would write: multiprecision integers whose
    declared bit count covers leading zero bits / octets, key / session-key packets of public-key algorithms PGPy has no class for,
    secret keys with a legacy S2K usage octet (a cipher id).  What PGPy accepts must come back with header length == body length,
    the same field values, be accepted again and be a fixed point; what it refuses is only counted."""
    ctx, rng = h.ctx, h.ctx.rng

    def loose_mpi(v):
        nb = max(1, (v.bit_length() + 7) // 8)
        style = rng.choice(['min', 'bits-up', 'zero-octet', 'zero-octets'])
        if style == 'min': return S.mpi(v) if hasattr(S, 'mpi') else v.bit_length().to_bytes(2, 'big') + v.to_bytes((v.bit_length() + 7) // 8, 'big')
        if style == 'bits-up': return (nb * 8).to_bytes(2, 'big') + v.to_bytes(nb, 'big')
        k = 1 if style == 'zero-octet' else rng.choice([2, 3])
        return ((nb + k) * 8 - rng.choice([0, 1, 7])).to_bytes(2, 'big') + bytes(k) + v.to_bytes(nb, 'big')

    cases = []
    for i in range(ctx.n(120, 2000)):
        ints = lambda k, bits: [rng.getrandbits(rng.choice(bits)) | 1 for _ in range(k)]
        t = rng.random()
        created = rng.randrange(1, 2 ** 32).to_bytes(4, 'big')
        if t < 0.3:
            alg, k = rng.choice([(1, 2), (17, 4), (16, 3)])
            vals = ints(k, [9, 64, 255, 256])
            head = b'\x04' + created + bytes([alg])
            cases.append((rng.choice([6, 14]), head, vals, b'', 'public key alg %d, loose MPIs' % alg))
        elif t < 0.5:
            alg, k = rng.choice([(1, 1), (16, 2)])
            vals = ints(k, [64, 255, 256])
            cases.append((1, b'\x03' + bytes(rng.randrange(256) for _ in range(8)) + bytes([alg]), vals, b'', 'PKESK alg %d, loose MPIs' % alg))
        elif t < 0.65:
            alg = rng.choice([0, 2 if False else 21, 22, 19, 17, 23, 100, 110])
            tail = bytes(rng.randrange(256) for _ in range(rng.choice([0, 1, 12, 40])))
            cases.append((1, b'\x03' + bytes(rng.randrange(256) for _ in range(8)) + bytes([alg]), [], tail, 'PKESK of algorithm %d (no ciphertext class)' % alg))
        elif t < 0.8:
            alg = rng.choice([21, 23, 100, 110, 4, 0])
            tail = bytes(rng.randrange(256) for _ in range(rng.choice([1, 5, 20, 60])))
            cases.append((rng.choice([5, 7, 6, 14]), b'\x04' + created + bytes([alg]), [], tail, 'key packet of algorithm %d (no key class)' % alg))
        else:
            usage = rng.choice([1, 2, 3, 4, 7, 8, 9, 10, 11, 12, 13])
            vals = ints(2, [64, 255])
            tail = bytes([usage]) + bytes(rng.randrange(256) for _ in range(rng.choice([8, 16]))) + bytes(rng.randrange(256) for _ in range(rng.choice([20, 40, 130])))
            cases.append((rng.choice([5, 7]), b'\x04' + created + b'\x01', vals, tail, 'secret key with legacy S2K usage octet %d' % usage))
    for tag, head, vals, tail, what in cases:
        body = head + b''.join(loose_mpi(v) for v in vals) + tail
        data = S.new_header(tag, len(body)) + body
        case = {'op': 'foreign-body', 'what': what, 'pkt': data.hex()}
        ctx.case('foreign-bodies', data, sample={'what': what, 'tag': tag, 'len': len(body)})
        o = outcome_timed(2.0, lambda: h.parse(data + TRAIL))
        if o[0] != 'ok':
            ctx.dist['foreign-bodies-refused'] = ctx.dist.get('foreign-bodies-refused', 0) + 1
            continue
        p, rest = o[1]
        if rest != TRAIL:
            ctx.fail('foreign-bodies', 'foreign packet: parsing did not consume exactly the packet', dict(case, rest=rest.hex()[:80])); continue
        b1 = outcome(lambda: bytes(p.__bytearray__()))
        if b1[0] != 'ok':
            ctx.fail('foreign-bodies', 'cannot re-serialise an accepted foreign packet', dict(case, impl=repr(b1)[:200])); continue
        b1 = b1[1]
        sp = outcome(lambda: S.split_packets(b1 + TRAIL))
        if sp[0] != 'ok' or len(sp[1]) < 1 or sp[1][0][2] != b1 or sp[1][0][0] != tag:
            ctx.fail('foreign-bodies', 're-serialised foreign packet: header length does not equal the body length', dict(case, out=b1.hex()[:600])); continue
        body1 = sp[1][0][1]
        same = outcome(lambda: body1[:len(head)] == head and (lambda r: r[0] == vals and r[1] == tail)(_mpis(body1[len(head):], len(vals))))
        if same != ('ok', True):
            ctx.fail('foreign-bodies', 're-serialised foreign packet carries other field values', dict(case, out=b1.hex()[:600])); continue
        o2 = outcome(lambda: h.parse(b1 + TRAIL))
        if o2[0] != 'ok' or o2[1][1] != TRAIL or bytes(o2[1][0].__bytearray__()) != b1:
            ctx.fail('foreign-bodies', 'normalised foreign packet is not a fixed point of parse/serialise', dict(case, out=b1.hex()[:600]))
    # one-pass signature packets with every flag octet: zero = another follows, non-zero = the last one (RFC 4880 5.4); the meaning survives
    for flag in (range(256) if not ctx.quick else [0, 1, 2, 3, 0x7f, 0x80, 0xfe, 0xff]):
        body = bytes([3, rng.choice([0, 1]), rng.choice([2, 8, 10]), rng.choice([1, 17, 19, 22])]) + bytes(rng.randrange(256) for _ in range(8)) + bytes([flag])
        raw = S.new_header(4, len(body)) + body
        ctx.case('foreign-bodies', ('ops-flag', flag, raw), sample={'what': 'one-pass signature flag octet', 'flag': flag})
        def flow():
            p, rest = h.parse(raw + TRAIL)
            out = bytes(p.__bytearray__())
            p2, rest2 = h.parse(out + TRAIL)
            return rest == TRAIL, out[:-1] == raw[:-1], (out[-1] != 0) == (flag != 0), rest2 == TRAIL and bytes(p2.__bytearray__()) == out
        o = outcome(flow)
        if o != ('ok', (True, True, True, True)):
            ctx.fail('foreign-bodies', 'one-pass signature packet: the flag octet changes its meaning (or the packet is not a fixed point) when re-serialised '
                     '(consumed exactly, other octets kept, last-ness kept, fixed point) = %r' % (o,), {'op': 'foreign-body', 'what': 'ops flag', 'pkt': raw.hex()})
    # a getter must not change what is exported: user attributes without an image subpacket
    for sub in (bytes([5, 100, 1, 2, 3, 4]), bytes([2, 101]), bytes([3, 1, 9, 9]) + bytes([2, 100])):
        raw = S.new_header(17, len(sub)) + sub
        ctx.case('foreign-bodies', ('image-getter', raw), sample={'what': 'user attribute without an image, .image read'})
        def flow():
            p, _ = h.parse(raw + TRAIL)
            before = bytes(p.__bytearray__())
            u = h.pgpy.PGPUID(); u._uid = p
            try:
                u.image
            except Exception:
                pass
            return before == raw, bytes(p.__bytearray__()) == raw
        o = outcome(flow)
        if o[0] != 'ok':
            ctx.dist['foreign-bodies-refused'] = ctx.dist.get('foreign-bodies-refused', 0) + 1      # not accepted at all (malformed image subpacket)
            continue
        if o != ('ok', (True, True)):
            ctx.fail('foreign-bodies', 'reading PGPUID.image changes what a user attribute without image exports', {'op': 'foreign-body', 'what': 'image getter', 'pkt': raw.hex(), 'impl': repr(o)})


def grow_after_parse(h):
    """a packet parsed with a narrow old-format (or any) length field whose body is then enlarged in place"""
    ctx = h.ctx
    for tag, mk in ((13, 'uid'), (11, 'lit')):
        for start, w in ((10, 1), (200, 1), (300, 2)):
            for target in (255, 256, 65535, 65536, 65537, 70000, 191, 192, 8383, 8384):
                for fmt in ('old', 'new'):
                    if tag == 11:
                        body0 = b'b' + b'\x00' + (1).to_bytes(4, 'big') + b'x' * (start - 6)
                    else:
                        body0 = b'u' * start
                    hdr = (bytes([0x80 | (tag << 2) | (0 if w == 1 else 1)]) + len(body0).to_bytes(w, 'big')) if fmt == 'old' else S.new_header(tag, len(body0))
                    case = {'op': 'grow', 'tag': tag, 'start': start, 'width': w, 'target': target, 'fmt': fmt}
                    ctx.case('mutate-after-parse', (tag, start, w, target, fmt), sample=case)
                    def flow():
                        p, rest = h.parse(hdr + body0 + TRAIL)
                        if tag == 13:
                            p.uid = 'v' * target
                        else:
                            p._contents = bytearray(b'y' * (target - 6))
                        p.update_hlen()
                        out = bytes(p.__bytearray__())
                        t2, b2, whole = S.split_packets(out + TRAIL)[0]
                        p2, rest2 = h.parse(out + TRAIL)
                        return (t2, len(b2), whole == out, rest2 == TRAIL, bytes(p2.__bytearray__()) == out)
                    o = outcome(flow)
                    if o != ('ok', (tag, target, True, True, True)):
                        ctx.fail('mutate-after-parse', 'packet enlarged after parsing does not re-serialise to a well-formed packet', dict(case, impl=repr(o)))


def big_partial(h):
    """partial body lengths with large chunk exponents (2^15 .. 2^17) on a literal packet"""
    ctx = h.ctx
    n = (1 << 17) + (1 << 16) + 4099
    body = b'b' + b'\x00' + (7).to_bytes(4, 'big') + bytes((i * 13 + 5) & 0xff for i in range(n - 6))
    for exps in ([17, 16], [16, 16, 16], [15, 17], [16], [17]):
        pos, enc = 0, bytearray([0xc0 | 11])
        for k in exps:
            enc += bytes([224 + k]) + body[pos:pos + (1 << k)]; pos += 1 << k
        enc += S.new_header(0, n - pos)[1:] + body[pos:]
        h.foreign('foreign-framing', 11, body, 'big-literal', 'partial-%s' % exps, bytes(enc))


def usage255_after_unlock(h):
    """a foreign secret key with S2K usage 255 (16-bit checksum inside the ciphertext) must export identically before,
    during and after an unlock scope; written with the C06 model encoder when that driver is built"""
    ctx, pgpy = h.ctx, h.pgpy
    try:
        d6 = Driver('c06')
    except Exception as ex:
        ctx.skipped.append('usage-255 after unlock: C06 driver unavailable (%r)' % ex); return
    try:
        from .c06 import make_oracles
        d6.oracles.update(make_oracles())
        for name in ('rsa2048', 'ed25519'):
            key = get(name)
            plain = bytes(key)
            npk = len([1 for t, b, w in S.split_packets(plain) if t in (5, 7)])
            forms = ';'.join('S,%s,%s,%s,%s,%s,%s,%s,%s' % (hn(255), hn(9), hn(3), hn(8), hx(bytes(range(8))), hn(96), hx(bytes(range(16))), hx(b'pw255')) for _ in range(npk))
            try:
                out = d6.call('rewrite', hx(plain), forms)
            except Exception as ex:
                ctx.skipped.append('usage-255 after unlock: C06 driver protocol differs (%r)' % ex); return
            if out == 'ERR':
                ctx.skipped.append('usage-255 after unlock: model could not rewrite ' + name); continue
            blob = unhx(out)
            case = {'op': 'usage255', 'key': name, 'blob': blob.hex()}
            ctx.case('mutate-after-parse', ('usage255', name), sample={'key': name, 'op': 'usage-255 key: load, unlock, export'})
            def flow():
                k2 = pgpy.PGPKey.from_blob(blob)[0]
                a = bytes(k2) == blob
                with k2.unlock('pw255'):
                    b = bytes(k2) == blob
                c = bytes(k2) == blob
                return (a, b, c)
            o = outcome(flow)
            if o != ('ok', (True, True, True)):
                ctx.fail('mutate-after-parse', 'usage-255 secret key does not export identically before / during / after unlock', dict(case, impl=repr(o)))
            else:
                for t, b, w in S.split_packets(blob):
                    h.own_output('own-output', w, 'usage255:' + name)
    finally:
        d6.close()


def replay(ctx, case):
    h = H(ctx)
    try:
        with warnings.catch_warnings():
            warnings.simplefilter('ignore')
            if case.get('op') in ('own', 'modelenc') and case.get('pkt') and not case['pkt'].endswith('...'):
                pkt = bytes.fromhex(case['pkt'])
                o = outcome(h.parse, pkt + TRAIL)
                return not (o[0] == 'ok' and o[1][1] == TRAIL and bytes(o[1][0].__bytearray__()) == pkt)
            if case.get('op') == 'foreign-sig':
                data = bytes.fromhex(case['pkt'])
                def flow():
                    (tag, body, _), = S.split_packets(data)
                    p, rest = h.parse(data + TRAIL)
                    b1 = bytes(p.__bytearray__())
                    sp = S.split_packets(b1 + TRAIL)
                    p2, rest2 = h.parse(b1 + TRAIL)
                    return rest == TRAIL and sp[0][2] == b1 and _sig_fields(sp[0][1]) == _sig_fields(body) and rest2 == TRAIL and bytes(p2.__bytearray__()) == b1
                return outcome(flow) != ('ok', True)
            if case.get('op') == 'foreign-body' and case.get('pkt') and case.get('what') != 'image getter':
                data = bytes.fromhex(case['pkt'])
                def flow():
                    p, rest = h.parse(data + TRAIL)
                    b1 = bytes(p.__bytearray__())
                    sp = S.split_packets(b1 + TRAIL)
                    p2, rest2 = h.parse(b1 + TRAIL)
                    return rest == TRAIL and sp[0][2] == b1 and rest2 == TRAIL and bytes(p2.__bytearray__()) == b1
                o = outcome(flow)
                if case.get('out') and o == ('ok', True):
                    return True          # framing is fine: the recorded failure was about field values; see the case
                return o[0] == 'ok' and o[1] is not True
            if case.get('op') == 'foreign' and case.get('pkt'):
                before = len(ctx.violations)
                data = bytes.fromhex(case['pkt'])
                tag, body, _ = S.split_packets(data)[0]
                h.foreign('replay', tag, body, 'replay', case['framing'], data)
                return len(ctx.violations) > before
            return True
    finally:
        h.d.close()
