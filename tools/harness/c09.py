"""C09 correspondence + direct oracles: every wire codec of PGPy against the extracted model
(Model/Wire.v) and against the RFC transcription (Spec/Rfc4880_wire.v)."""
from .common import Driver, Batch, hx, unhx, hn, unhn, outcome, load_repo


def lengths(ctx):
    top = ctx.n(9000, 70000)
    vals = list(range(0, top + 1))
    for b in (8383, 8384, 65535, 65536, 70000, 2**16 + 191, 2**24 - 1, 2**24, 2**31 - 1, 2**31, 2**32 - 2, 2**32 - 1):
        vals += [b - 1, b, b + 1] if b + 1 < 2**32 else [b - 1, b]
    vals += [ctx.rng.randrange(2**32) for _ in range(ctx.n(300, 3000))]
    return sorted(set(v for v in vals if 0 <= v < 2**32))


def run(ctx):
    load_repo()
    from pgpy.types import Header as BaseHeader
    from pgpy.packet.types import Header, MPI
    from pgpy.packet.subpackets.types import Header as SubHeader
    from pgpy.packet.fields import String2Key
    from pgpy.packet.packets import PubKeyV4
    from pgpy.packet.subpackets.signature import CreationTime
    from . import sigcommon as _S
    from pgpy.types import Header as _BH, MetaDispatchable as _MD
    from pgpy.packet.types import Header as _H, Packet as _P, VersionedHeader as _VH, Opaque as _O
    _objs = {'types.Header.length_bin': _BH.length_bin, 'packet.Header.parse': _H.parse, 'VersionedHeader.parse': _VH.parse, 'MetaDispatchable.__call__': _MD.__call__, 'Packet.update_hlen': _P.update_hlen, 'Opaque.parse': _O.parse}
    _S.check_pins(ctx, [(k, _objs[k], v) for k, v in {'types.Header.length_bin': '377b05380a964da6', 'packet.Header.parse': '06d846c3c0c27e8f'}.items()])
    d = Driver('c09')
    try:
        _run(ctx, d, BaseHeader, Header, MPI, SubHeader, String2Key, PubKeyV4, CreationTime)
    finally:
        d.close()


def hdr_parse_impl(Header, data):
    buf = bytearray(data)
    h = Header()
    h.parse(buf)
    return (h._lenfmt, int(h.tag), h._llen if h._lenfmt == 0 else 1, h.length, bytes(buf))


def _run(ctx, d, BaseHeader, Header, MPI, SubHeader, String2Key, PubKeyV4, CreationTime):
    trailing = b'\xaa\xbb'
    # ---- 1. new-format lengths: encode vs model, decode(encode) = id, shortest width ----
    ls = lengths(ctx)
    bt = Batch(ctx, d, 'newlen-encode', 'encode_length differs from model')
    for n in ls:
        enc = bytes(BaseHeader.encode_length(n, True))
        bt.add('newlen ' + hn(n), hx(enc), {'op': 'newlen', 'n': n})
        ctx.case('newlen-encode', n, sample={'n': n, 'impl': enc.hex()})
        want = 1 if n < 192 else 2 if n < 8384 else 5
        if len(enc) != want:
            ctx.fail('newlen-encode', 'not the shortest new-format width', {'op': 'newlen', 'n': n, 'impl': enc.hex()})
        # decode through a packet header, trailing data must be untouched
        buf = bytearray(b'\xc2' + enc + trailing)
        o = outcome(hdr_parse_impl, Header, buf)
        if o != ('ok', (1, 2, 1, n, trailing)):
            ctx.fail('newlen-roundtrip', 'decode(encode n) <> n', {'op': 'newlen', 'n': n, 'impl': repr(o)})
    bt.flush()
    ctx.exhaustive.append('new-format lengths 0..%d' % ctx.n(9000, 70000))

    # ---- 2. decode every first octet x second octet (+ 5-octet forms) vs model and RFC ----
    step = 1 if not ctx.quick else 3
    bt2 = Batch(ctx, d, 'newlen-decode', 'header parse differs from model'); rfcq = []
    for a in range(0, 256):
        for b in range(0, 256, step):
            data = bytes([0xc2, a, b, 1, 2, 3, 4, 5])
            if 224 <= a < 255:
                continue  # partial lengths are exercised with real chunkings below
            o = outcome(hdr_parse_impl, Header, data)
            ctx.case('newlen-decode', (a, b), sample={'octets': data.hex(), 'impl': repr(o)})
            if o[0] == 'ok':
                lf, tag, ll, ln, rest = o[1]
                got = '%s %s %s %s %s' % (hn(lf), hn(tag), hn(ll), hn(ln), hx(rest))
            else:
                got = 'ERR'
            bt2.add('hdr_parse ' + hx(data), got, {'op': 'hdr_parse', 'data': data.hex()})
            def chk(r, o=o, data=data):
                if r != 'ERR' and o[0] == 'ok':
                    rl, rp, rr = r.split(' ')
                    if rp == '0' and (unhn(rl) != o[1][3] or unhx(rr) != o[1][4]):
                        ctx.fail('newlen-decode', 'decoded value is not the RFC 4880 4.2.2 value', {'op': 'hdr_parse', 'data': data.hex(), 'rfc': r, 'impl': repr(o)})
            rfcq.append(('rfc_newlen ' + hx(data[1:]), chk))
    bt2.flush()
    for (c, f), a in zip(rfcq, d.batch([c for c, f in rfcq])):
        f(a)

    # ---- 3. old-format headers: every tag x stored width x lengths across the width boundaries ----
    olds = [0, 1, 2, 127, 128, 254, 255, 256, 257, 300, 65534, 65535, 65536, 65537, 2**24, 2**32 - 1]
    olds += [ctx.rng.randrange(2**32) for _ in range(ctx.n(20, 200))] + [ctx.rng.randrange(70000) for _ in range(ctx.n(40, 600))]
    bt3 = Batch(ctx, d, 'oldhdr-emit', 'old-format header emit differs from model')
    for tag in range(1, 16):
        for code, ll in ((0, 1), (1, 2), (2, 4)):
            for n in olds:
                if n >= 256 ** ll and ctx.quick and tag not in (2, 5, 6, 13):
                    continue
                # parse a header whose stored width is ll, then let the body length become n (as protect / edits do)
                first = bytes([0x80 | (tag << 2) | code]) + (1).to_bytes(ll, 'big')
                h = Header()
                h.parse(bytearray(first + b'\x00'))
                h.length = n
                o = outcome(lambda: bytes(h.__bytearray__()))
                ctx.case('oldhdr-emit', (tag, ll, n), sample={'tag': tag, 'stored_llen': ll, 'n': n, 'impl': repr(o)})
                got = o[1].hex() if o[0] == 'ok' else 'ERR'
                bt3.add('hdr_emit 0 %s %s %s' % (hn(tag), hn(ll), hn(n)), got, {'op': 'oldhdr', 'tag': tag, 'llen': ll, 'n': n})
                if o[0] == 'ok':
                    # property oracle: never narrower than the value needs -> re-parse gives n back
                    o2 = outcome(hdr_parse_impl, Header, o[1] + trailing)
                    if o2[0] != 'ok' or o2[1][3] != n or o2[1][1] != tag or o2[1][4] != trailing:
                        ctx.fail('oldhdr-roundtrip', 'old-format length field narrower than the value needs',
                                 {'op': 'oldhdr', 'tag': tag, 'llen': ll, 'n': n, 'emitted': o[1].hex(), 'reparsed': repr(o2)},
                                 None)
    bt3.flush()
    # old-format decode of arbitrary octets incl. indeterminate length
    for first in range(0x80, 0xc0):
        fixed = [b'\xff' * 6, b'\x00\x01\x00\x00\x07', b'\x01\x00\xff', b'']
        for k in range(len(fixed) + ctx.n(2, 12)):
            data = bytes([first]) + (fixed[k] if k < len(fixed) else bytes(ctx.rng.randrange(256) for _ in range(ctx.rng.randrange(0, 9))))
            o = outcome(hdr_parse_impl, Header, data)
            mo = d.call('hdr_parse', hx(data))
            got = ('%s %s %s %s %s' % tuple([hn(x) for x in o[1][:4]] + [hx(o[1][4])])) if o[0] == 'ok' else 'ERR'
            ctx.case('oldhdr-decode', data, sample={'octets': data.hex(), 'impl': got})
            ctx.expect_eq('oldhdr-decode', 'old-format header parse differs from model', {'op': 'hdr_parse', 'data': data.hex()}, got, mo)
            # direct RFC 4880 4.2 / 4.2.1 oracle (Props/C09.v C09_old_header_dec_eq_rfc / _indeterminate_dec): tag = bits 5..2, length type
            # 0, 1, 2 -> the big-endian value of 1, 2, 4 octets, length type 3 -> what is left of the input
            lt = first & 3
            w = (1, 2, 4, 0)[lt]
            if len(data) - 1 >= w:
                want = (0, (first >> 2) & 15, w if lt != 3 else 1,
                        int.from_bytes(data[1:1 + w], 'big') if lt != 3 else len(data) - 1, data[1 + w:])
                ctx.case('oldhdr-decode-rfc', data)
                if o != ('ok', want):
                    ctx.fail('oldhdr-decode-rfc', 'old-format header does not decode to the RFC 4880 4.2.1 value',
                             {'op': 'hdr_parse', 'data': data.hex(), 'rfc': repr(want), 'impl': repr(o)})

    # ---- 4. new-format header emit for every tag ----
    for tag in range(0, 64):
        for n in (0, 1, 191, 192, 8383, 8384, 70000, 2**32 - 1, ctx.rng.randrange(2**32)):
            h = Header()
            h._lenfmt = 1
            h.tag = tag
            h.length = n
            o = outcome(lambda: bytes(h.__bytearray__()))
            mo = d.call('hdr_emit', 1, hn(tag), 1, hn(n))
            got = o[1].hex() if o[0] == 'ok' else 'ERR'
            ctx.case('newhdr-emit', (tag, n))
            ctx.expect_eq('newhdr-emit', 'new-format header emit differs from model', {'op': 'newhdr', 'tag': tag, 'n': n}, got, mo)
            if o[0] == 'ok':
                o2 = outcome(hdr_parse_impl, Header, o[1] + trailing)
                if o2[0] != 'ok' or o2[1][3] != n or o2[1][1] != tag or o2[1][4] != trailing:
                    ctx.fail('newhdr-roundtrip', 'new-format header does not re-parse', {'op': 'newhdr', 'tag': tag, 'n': n, 'reparsed': repr(o2)})

    # ---- 5. partial body lengths: chunkings of bodies ----
    maxbody = ctx.n(2**12, 2**17)
    nchunk = ctx.n(150, 1500)
    for i in range(nchunk):
        total = ctx.rng.randrange(1, maxbody) if i > 20 else [1, 2, 3, 255, 256, 511, 512, 513, 1023, 1024, 4095, 4096, maxbody - 1, maxbody, 8384, 8383, 192, 191, 700, 70, 7][i]
        body = bytes((j * 7 + i) & 0xff for j in range(total))
        pos, enc, chunks = 0, bytearray(), []
        while True:
            remain = total - pos
            ks = [k for k in range(0, 18) if (1 << k) <= remain]
            if not ks or ctx.rng.random() < 0.25:
                enc += BaseHeader.encode_length(remain, True) if ctx.rng.random() < 0.7 else (b'\xff' + remain.to_bytes(4, 'big'))
                enc += body[pos:]
                break
            k = ctx.rng.choice(ks) if pos else ctx.rng.choice([x for x in ks if x >= 0])
            enc += bytes([224 + k]) + body[pos:pos + (1 << k)]
            chunks.append(k)
            pos += 1 << k
        data = b'\xcb' + bytes(enc) + trailing
        o = outcome(hdr_parse_impl, Header, data)
        ctx.case('partial', (total, tuple(chunks)), nontrivial=bool(chunks), sample={'total': total, 'chunk_exponents': chunks[:12]})
        if o != ('ok', (1, 11, 1, total, body + trailing)):
            ctx.fail('partial', 'partial-length reassembly wrong', {'op': 'partial', 'data': data.hex() if len(data) < 600 else None,
                     'total': total, 'chunks': chunks, 'impl': repr(o)[:200]})
        if len(data) <= 3000:
            mo = d.call('hdr_parse', hx(data))
            got = '%s %s %s %s %s' % (hn(1), hn(11), hn(1), hn(total), hx(body + trailing))
            ctx.expect_eq('partial', 'model disagrees on partial reassembly', {'op': 'hdr_parse', 'data': data.hex()}, got, mo)

    # ---- 6. MPIs ----
    maxbits = ctx.n(700, 4200)
    vals = [0]
    for bits in range(1, maxbits + 1):
        vals += [1 << (bits - 1), (1 << bits) - 1]
        if bits > 2:
            vals.append((1 << (bits - 1)) | ctx.rng.getrandbits(bits - 1))
    bt6 = Batch(ctx, d, 'mpi-emit', 'to_mpibytes differs from model')
    for v in vals:
        o = outcome(lambda: bytes(MPI(v).to_mpibytes()))
        ctx.case('mpi-emit', v, sample={'v_bits': v.bit_length(), 'impl': repr(o)[:60]})
        got = o[1].hex() if o[0] == 'ok' else 'ERR'
        bt6.add('mpi_emit ' + hn(v), got, {'op': 'mpi', 'v': hn(v)})
        if o[0] == 'ok':
            enc = o[1]
            if int.from_bytes(enc[:2], 'big') != v.bit_length() or len(enc) != 2 + (v.bit_length() + 7) // 8:
                ctx.fail('mpi-emit', 'MPI bit count / octet count not exact', {'op': 'mpi', 'v': hn(v), 'impl': enc.hex()[:80]})
            buf = bytearray(enc + trailing)
            back = MPI(buf)
            if int(back) != v or bytes(buf) != trailing:
                ctx.fail('mpi-roundtrip', 'MPI does not decode back / leaves misaligned data', {'op': 'mpi', 'v': hn(v), 'left': bytes(buf).hex()[:40]})
    bt6.flush()
    # decode with surplus leading zero bits and arbitrary bit counts vs model + RFC
    for _ in range(ctx.n(400, 6000)):
        nb = ctx.rng.randrange(0, 40)
        body = bytes(ctx.rng.randrange(256) for _ in range(nb))
        if body and ctx.rng.random() < 0.5:
            body = bytes([body[0] >> ctx.rng.randrange(1, 8)]) + body[1:]
        bits = nb * 8 - ctx.rng.randrange(0, 8) if nb else 0
        bits = max(bits, 0)
        data = bits.to_bytes(2, 'big') + body + trailing
        buf = bytearray(data)
        v = int(MPI(buf))
        got = '%s %s' % (hn(v), hx(bytes(buf)))
        mo = d.call('mpi_parse', hx(data))
        ctx.case('mpi-decode', data)
        ctx.expect_eq('mpi-decode', 'MPI parse differs from model', {'op': 'mpi_parse', 'data': data.hex()}, got, mo)
        r = d.call('rfc_mpi', hx(data))
        if r != 'ERR' and r != got:
            ctx.fail('mpi-decode', 'MPI value differs from RFC 4880 3.2', {'op': 'mpi_parse', 'data': data.hex(), 'rfc': r, 'impl': got})

    # ---- 7. S2K coded count: all 256 ----
    for c in range(256):
        s = String2Key()
        s.count = c
        r = d.call('count', hn(c)).split(' ')
        ctx.case('s2k-count', c)
        ctx.expect_eq('s2k-count', 'coded count differs from model', {'op': 'count', 'c': c}, s.count, unhn(r[0]))
        if s.count != (16 + (c & 15)) << ((c >> 4) + 6) or unhn(r[1]) != s.count:
            ctx.fail('s2k-count', 'coded count differs from RFC 4880 3.7.1.3', {'op': 'count', 'c': c, 'impl': s.count})
    # the same object given one coded count after another (a re-protected key keeps its specifier object): each read follows the last write
    s = String2Key()
    seq = [0x60, 0xff, 0x00, 0xff, 0x10, 0x60] + [ctx.rng.randrange(256) for _ in range(ctx.n(60, 600))]
    for i, c in enumerate(seq):
        s.count = c
        got = outcome(lambda: (s.count, s.count))
        ctx.case('s2k-count', ('same-object', i, c))
        want = (16 + (c & 15)) << ((c >> 4) + 6)
        if got != ('ok', (want, want)):
            ctx.fail('s2k-count', 'coded count read back from an object that held another count before is not the RFC 4880 3.7.1.3 value of the last one set',
                     {'op': 'count-seq', 'seq': seq[:i + 1], 'impl': repr(got)}); break
    ctx.exhaustive.append('all 256 coded S2K counts')

    # ---- 8. four-octet times ----
    ts = [0, 1, 2, 59, 60, 86399, 86400, 2**31 - 2, 2**31 - 1, 2**31, 2**31 + 1, 2**32 - 2, 2**32 - 1, 951782400, 1709164800, 4107542399]
    ts += [ctx.rng.randrange(2**32) for _ in range(ctx.n(300, 5000))]
    for t in ts:
        def _enc(t=t):
            ct = CreationTime()
            ct.created = bytearray(t.to_bytes(4, 'big'))
            ct.update_hlen()
            return bytes(ct.__bytearray__()), calendar.timegm(ct.created.utctimetuple())
        import calendar
        ctx.case('time4', t)
        eo = outcome(_enc)
        if eo[0] != 'ok' or eo[1][1] != t:
            ctx.fail('time4', 'four-octet creation time does not decode to the RFC 4880 3.5 value (unsigned seconds since 1970)', {'op': 'time', 't': t, 'impl': repr(eo)[:200]})
            continue
        enc = eo[1][0]
        mo = unhx(d.call('time4', hn(t)))
        ctx.expect_eq('time4', 'time field differs from model', {'op': 'time', 't': t}, enc[-4:], mo)
        if enc[-4:] != t.to_bytes(4, 'big'):
            ctx.fail('time4', 'creation-time subpacket does not round-trip', {'op': 'time', 't': t, 'impl': enc.hex()})
        pk = PubKeyV4()
        pk.created = bytearray(t.to_bytes(4, 'big'))
        import calendar
        if calendar.timegm(pk.created.utctimetuple()) != t:
            ctx.fail('time4', 'key creation time does not round-trip', {'op': 'time', 't': t})
    # datetimes whose local rendering differs from UTC: the four octets are the instant, whatever the offset
    from datetime import datetime, timedelta, timezone
    from pgpy.packet.packets import LiteralData
    from pgpy.constants import PubKeyAlgorithm
    for t in ts[:ctx.n(60, 600)]:
        for off in (330, -480, 840, -720, 0):
            if not (86400 <= t < 2**32 - 86400): continue
            dt = datetime.fromtimestamp(t, timezone(timedelta(minutes=off)))
            ct = CreationTime(); ct.created = dt; ct.update_hlen()
            lit = LiteralData(); lit.mtime = dt; lit.update_hlen()
            pk = PubKeyV4(); pk.pkalg = PubKeyAlgorithm.RSAEncryptOrSign; pk.created = dt; pk.update_hlen()
            got = (bytes(ct.__bytearray__())[-4:], bytes(lit.__bytearray__())[-4:], bytes(pk.__bytearray__())[3:7])
            ctx.case('time4-offset', (t, off), sample={'t': t, 'utc_offset_minutes': off})
            if got != (t.to_bytes(4, 'big'),) * 3:
                ctx.fail('time4-offset', 'offset-aware datetime is not encoded as its instant', {'op': 'timeoff', 't': t, 'off': off, 'impl': [g.hex() for g in got]})

    # ---- 9. subpacket headers: lengths x type x critical; decode of every first/second octet ----
    bt9 = Batch(ctx, d, 'sub-emit', 'subpacket header emit differs from model')
    for n in [x for x in lengths(ctx) if x >= 1][::ctx.n(7, 1)][:ctx.n(3000, 80000)] + [1, 191, 192, 8383, 8384, 16319, 16320, 2**32 - 1]:
        t = ctx.rng.randrange(128); c = ctx.rng.random() < 0.5
        h = SubHeader()
        h.typeid = t; h.critical = c; h.length = n
        enc = bytes(h.__bytearray__())
        ctx.case('sub-emit', (n, t, c))
        bt9.add('sub_emit %s %s %s' % (hn(n), hn(t), '1' if c else '0'), hx(enc), {'op': 'sub_emit', 'n': n, 't': t, 'c': c})
        h2 = SubHeader()
        buf = bytearray(enc + trailing)
        o = outcome(h2.parse, buf)
        if o[0] != 'ok' or (h2.length, h2.typeid, h2.critical, bytes(buf)) != (n, t, c, trailing):
            ctx.fail('sub-roundtrip', 'subpacket header does not decode back', {'op': 'sub_emit', 'n': n, 't': t, 'c': c, 'impl': enc.hex()})
    bt9.flush()
    for a in range(256):
        for b in range(0, 256, ctx.n(5, 1)):
            data = bytes([a, b, 0x85, 1, 2, 3, 4, 5])
            h2 = SubHeader()
            buf = bytearray(data)
            o = outcome(h2.parse, buf)
            got = ('%s %s %s %s' % (hn(h2.length), hn(h2.typeid), '1' if h2.critical else '0', hx(bytes(buf)))) if o[0] == 'ok' else 'ERR'
            mo = d.call('sub_parse', hx(data))
            ctx.case('sub-decode', (a, b), sample={'octets': data.hex(), 'impl': got})
            ctx.expect_eq('sub-decode', 'subpacket header parse differs from model', {'op': 'sub_parse', 'data': data.hex()}, got, mo)
            r = d.call('rfc_sublen', hx(data))
            if r != 'ERR' and o[0] == 'ok' and unhn(r.split(' ')[0]) != h2.length:
                ctx.fail('sub-decode', 'subpacket length is not the RFC 4880 5.2.3.1 value', {'op': 'sub_parse', 'data': data.hex(), 'rfc': r, 'impl': got})


def replay(ctx, case):
    """re-run one recorded case on the implementation; True = still fails"""
    load_repo()
    from pgpy.types import Header as BaseHeader
    from pgpy.packet.types import Header, MPI
    from pgpy.packet.subpackets.types import Header as SubHeader
    op = case.get('op')
    tr = b'\xaa\xbb'
    if op == 'newlen':
        n = case['n']
        enc = bytes(BaseHeader.encode_length(n, True))
        o = outcome(hdr_parse_impl, Header, b'\xc2' + enc + tr)
        return o != ('ok', (1, 2, 1, n, tr)) or len(enc) != (1 if n < 192 else 2 if n < 8384 else 5)
    if op == 'oldhdr':
        h = Header(); ll = case['llen']
        code = {1: 0, 2: 1, 4: 2}[ll]
        h.parse(bytearray(bytes([0x80 | (case['tag'] << 2) | code]) + (1).to_bytes(ll, 'big') + b'\x00'))
        h.length = case['n']
        o = outcome(lambda: hdr_parse_impl(Header, bytes(h.__bytearray__()) + tr))
        return o[0] != 'ok' or o[1][3] != case['n'] or o[1][4] != tr
    if op == 'mpi':
        v = int(case['v'], 16)
        buf = bytearray(MPI(v).to_mpibytes() + tr)
        return int(MPI(buf)) != v or bytes(buf) != tr
    if op == 'count-seq':
        from pgpy.packet.fields import String2Key
        s2 = String2Key(); last = None
        for c in case['seq']:
            s2.count = c; last = (c, s2.count)
        return last[1] != (16 + (last[0] & 15)) << ((last[0] >> 4) + 6)
    if op == 'time':
        import calendar
        from pgpy.packet.subpackets.signature import CreationTime
        t = case['t']
        def _enc():
            ct = CreationTime(); ct.created = bytearray(t.to_bytes(4, 'big')); ct.update_hlen()
            return bytes(ct.__bytearray__())[-4:], calendar.timegm(ct.created.utctimetuple())
        return outcome(_enc) != ('ok', (t.to_bytes(4, 'big'), t))
    if op in ('hdr_parse', 'sub_parse', 'mpi_parse', 'sub_emit', 'newhdr', 'partial', 'count'):
        # model/implementation disagreement: re-run the suite that produced it
        d = Driver('c09')
        try:
            if op == 'hdr_parse':
                data = bytes.fromhex(case['data'])
                o = outcome(hdr_parse_impl, Header, data)
                got = ('%s %s %s %s %s' % tuple([hn(x) for x in o[1][:4]] + [hx(o[1][4])])) if o[0] == 'ok' else 'ERR'
                return got != d.call('hdr_parse', hx(data))
            if op == 'sub_parse':
                data = bytes.fromhex(case['data'])
                h2 = SubHeader(); buf = bytearray(data)
                o = outcome(h2.parse, buf)
                got = ('%s %s %s %s' % (hn(h2.length), hn(h2.typeid), '1' if h2.critical else '0', hx(bytes(buf)))) if o[0] == 'ok' else 'ERR'
                return got != d.call('sub_parse', hx(data))
        finally:
            d.close()
    return True
