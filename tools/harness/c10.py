"""C10 correspondence + direct oracles: ASCII armor of PGPy (Armorable.__str__ / ascii_unarmor / crc24, magic and the
kind checks of the three parse methods) against the extracted model (Model/Armor.v), the RFC transcription
(Spec/Rfc4880_armor.v) and an independent Python de-armorer (base64 module + own CRC-24)."""
import ast, base64, inspect, textwrap, warnings
from .common import Driver, Batch, hx, unhx, hn, unhn, outcome, load_repo

# ------------------------------------------------------------------------------------------------------------------
# pinned constants: the exact texts Model/Armor.v was written for (regular expressions cannot be translated)
PIN_ARMOR_REGEX = (
    "# This capture group is optional because it will only be present in signed cleartext messages\n"
    "                         (^-{5}BEGIN\\ PGP\\ SIGNED\\ MESSAGE-{5}(?:\\r?\\n)\n"
    "                          (Hash:\\ (?P<hashes>[A-Za-z0-9\\-,]+)(?:\\r?\\n){2})?\n"
    "                          (?P<cleartext>(.*\\r?\\n)*(.*?(?=\\r?\\n-{5})))(?:\\r?\\n)\n"
    "                         )?\n"
    "                         # armor header line; capture the variable part of the magic text\n"
    "                         ^-{5}BEGIN\\ PGP\\ (?P<magic>[A-Z0-9 ,]+)-{5}(?:\\r?\\n)\n"
    "                         # try to capture all the headers into one capture group\n"
    "                         # if this doesn't match, m['headers'] will be None\n"
    "                         (?P<headers>(^.+:\\ .+(?:\\r?\\n))+)?(?:\\r?\\n)?\n"
    "                         # capture all lines of the body, up to 76 characters long,\n"
    "                         # including the newline, and the pad character(s)\n"
    "                         (?P<body>([A-Za-z0-9+/]{1,76}={,2}(?:\\r?\\n))+)\n"
    "                         # capture the armored CRC24 value\n"
    "                         ^=(?P<crc>[A-Za-z0-9+/]{4})(?:\\r?\\n)\n"
    "                         # finally, capture the armor tail line, which must match the armor header line\n"
    "                         ^-{5}END\\ PGP\\ (?P=magic)-{5}(?:\\r?\\n)?\n"
    "                         ")
PIN_ARMOR_FLAGS = 104   # re.MULTILINE | re.VERBOSE | re.UNICODE
PIN_ARMOR_FMT = '-----BEGIN PGP {block_type}-----\n{headers}\n{packet}\n={crc}\n-----END PGP {block_type}-----\n'

PIN_SRC = {
    'Armorable.ascii_unarmor': '''
@staticmethod
def ascii_unarmor(text):
    m = {'magic': None, 'headers': None, 'body': bytearray(), 'crc': None}
    if not Armorable.is_ascii(text):
        m['body'] = bytearray(text)
        return m
    if isinstance(text, (bytes, bytearray)):
        text = text.decode('latin-1')
    m = Armorable.__armor_regex.search(text)
    if m is None:
        raise ValueError("Expected: ASCII-armored PGP data")
    m = m.groupdict()
    if m['hashes'] is not None:
        m['hashes'] = m['hashes'].split(',')
    if m['headers'] is not None:
        m['headers'] = collections.OrderedDict(re.findall('^(?P<key>.+?): (?P<value>.+?)\\r?$\\n?', m['headers'], flags=re.MULTILINE))
    if m['body'] is not None:
        try:
            m['body'] = bytearray(base64.b64decode(m['body'].encode()))
        except (binascii.Error, TypeError) as ex:
            raise PGPError(str(ex)) from ex
    if m['crc'] is not None:
        m['crc'] = Header.bytes_to_int(base64.b64decode(m['crc'].encode()))
        if Armorable.crc24(m['body']) != m['crc']:
            warnings.warn('Incorrect crc24', stacklevel=3)
    return m
''',
    'Armorable.is_ascii': '''
@staticmethod
def is_ascii(text):
    if isinstance(text, str):
        return bool(re.match(r'^[ -~\\r\\n\\t]*$', text, flags=re.ASCII))
    if isinstance(text, (bytes, bytearray)):
        return bool(re.match(br'^[ -~\\r\\n\\t]*$', text, flags=re.ASCII))
    raise TypeError("Expected: ASCII input of type str, bytes, or bytearray")
''',
    'Armorable.__str__': '''
def __str__(self):
    payload = base64.b64encode(self.__bytes__()).decode('latin-1')
    payload = '\\n'.join(payload[i:(i + 64)] for i in range(0, len(payload), 64))
    return self.__armor_fmt.format(
        block_type=self.magic,
        headers=''.join('{key}: {val}\\n'.format(key=key, val=val) for key, val in self.ascii_headers.items()),
        packet=payload,
        crc=base64.b64encode(PGPObject.int_to_bytes(self.crc24(self.__bytes__()), 3)).decode('latin-1')
    )
''',
    'Armorable.from_blob': '''
@classmethod
def from_blob(cls, blob):
    obj = cls()
    if (not isinstance(blob, bytes)) and (not isinstance(blob, bytearray)):
        po = obj.parse(bytearray(blob, 'latin-1'))
    else:
        po = obj.parse(bytearray(blob))
    if po is not None:
        return (obj, po)
    return obj
''',
    'PGPKey.magic': '''
@property
def magic(self):
    return '{:s} KEY BLOCK'.format('PUBLIC' if (isinstance(self._key, Public) and not isinstance(self._key, Private)) else
                                   'PRIVATE' if isinstance(self._key, Private) else '')
''',
    'PGPMessage.magic': '''
@property
def magic(self):
    if self.type == 'cleartext':
        return "SIGNATURE"
    return "MESSAGE"
''',
    'PGPSignature.magic': '''
@property
def magic(self):
    return "SIGNATURE"
''',
}
# the statements of the three parse methods up to (and including) the header assignment
PIN_PARSE_HEAD = {
    'PGPKey.parse': '''
def parse(self, data):
    unarmored = self.ascii_unarmor(data)
    data = unarmored['body']
    if unarmored['magic'] is not None and 'KEY' not in unarmored['magic']:
        raise ValueError('Expected: KEY. Got: {}'.format(str(unarmored['magic'])))
    if unarmored['headers'] is not None:
        self.ascii_headers = unarmored['headers']
''',
    'PGPSignature.parse': '''
def parse(self, packet):
    unarmored = self.ascii_unarmor(packet)
    data = unarmored['body']
    if unarmored['magic'] is not None and unarmored['magic'] != 'SIGNATURE':
        raise ValueError('Expected: SIGNATURE. Got: {}'.format(str(unarmored['magic'])))
    if unarmored['headers'] is not None:
        self.ascii_headers = unarmored['headers']
''',
    'PGPMessage.parse': '''
def parse(self, packet):
    unarmored = self.ascii_unarmor(packet)
    data = unarmored['body']
    if unarmored['magic'] is not None and unarmored['magic'] not in ['MESSAGE', 'SIGNATURE']:
        raise ValueError('Expected: MESSAGE. Got: {}'.format(str(unarmored['magic'])))
    if unarmored['headers'] is not None:
        self.ascii_headers = unarmored['headers']
    if unarmored['magic'] == 'SIGNATURE':
        self |= self.dash_unescape(unarmored['cleartext'])
        while len(data) > 0:
            pkt = Packet(data)
            if not isinstance(pkt, Signature):
                warnings.warn("Discarded unexpected packet: {:s}".format(pkt.__class__.__name__), stacklevel=2)
                continue
            self |= PGPSignature() | pkt
    else:
        while len(data) > 0:
            self |= Packet(data)
''',
}


def norm_src(src, head=None):
    """normalised form of a function source: AST dump without docstrings (comments and layout do not matter)"""
    fn = ast.parse(textwrap.dedent(src).strip()).body[0]
    body = list(fn.body)
    if body and isinstance(body[0], ast.Expr) and isinstance(getattr(body[0], 'value', None), ast.Constant) and isinstance(body[0].value.value, str):
        body = body[1:]
    if head is not None:
        body = body[:head]
    fn.body = body
    return ast.dump(fn)


def pin_source(ctx, name, live_fn, expected, head=None):
    try:
        live = norm_src(inspect.getsource(live_fn), head)
        want = norm_src(expected, None)
    except Exception as ex:   # source unavailable / unparsable: the tie no longer checks
        ctx.broken.append('pinned constant %s changed: cannot read source (%r)' % (name, ex))
        return False
    if live != want:
        ctx.broken.append('pinned constant %s changed: the model (coq/Model/Armor.v, Cleartext.v) was written for a different text' % name)
        return False
    return True


def check_pins(ctx, pgpy):
    from pgpy.types import Armorable
    rx = Armorable._Armorable__armor_regex
    if rx.pattern != PIN_ARMOR_REGEX:
        ctx.broken.append('pinned constant Armorable.__armor_regex changed: pattern text differs from the one Model/Armor.v reads line by line')
    if rx.flags != PIN_ARMOR_FLAGS:
        ctx.broken.append('pinned constant Armorable.__armor_regex changed: flags %r' % rx.flags)
    if Armorable._Armorable__armor_fmt != PIN_ARMOR_FMT:
        ctx.broken.append('pinned constant Armorable.__armor_fmt changed')
    pin_source(ctx, 'Armorable.ascii_unarmor', Armorable.ascii_unarmor, PIN_SRC['Armorable.ascii_unarmor'])
    pin_source(ctx, 'Armorable.is_ascii', Armorable.is_ascii, PIN_SRC['Armorable.is_ascii'])
    pin_source(ctx, 'Armorable.__str__', Armorable.__str__, PIN_SRC['Armorable.__str__'])
    pin_source(ctx, 'Armorable.from_blob', Armorable.from_blob.__func__, PIN_SRC['Armorable.from_blob'])
    pin_source(ctx, 'PGPKey.magic', pgpy.PGPKey.magic.fget, PIN_SRC['PGPKey.magic'])
    pin_source(ctx, 'PGPMessage.magic', pgpy.PGPMessage.magic.fget, PIN_SRC['PGPMessage.magic'])
    pin_source(ctx, 'PGPSignature.magic', pgpy.PGPSignature.magic.fget, PIN_SRC['PGPSignature.magic'])
    pin_source(ctx, 'PGPKey.parse (kind check)', pgpy.PGPKey.parse, PIN_PARSE_HEAD['PGPKey.parse'], head=4)
    pin_source(ctx, 'PGPSignature.parse (kind check)', pgpy.PGPSignature.parse, PIN_PARSE_HEAD['PGPSignature.parse'], head=4)
    pin_source(ctx, 'PGPMessage.parse', pgpy.PGPMessage.parse, PIN_PARSE_HEAD['PGPMessage.parse'])


# ------------------------------------------------------------------------------------------------------------------
# independent reference: CRC-24 (table free, bit serial on a 24-bit register) and an RFC 4880 section 6 de-armorer
def ref_crc24(data):
    crc = 0xB704CE
    for o in data:
        for bit in range(7, -1, -1):
            top = ((crc >> 23) & 1) ^ ((o >> bit) & 1)
            crc = (crc << 1) & 0xFFFFFF
            if top:
                crc ^= 0x864CFB
    return crc


def ref_dearmor(text):
    """(label, [(key, value)], payload, stated crc) of the first armor block; raises ValueError when there is none"""
    lines = text.replace('\r\n', '\n').split('\n')
    for i, ln in enumerate(lines):
        if ln.startswith('-----BEGIN PGP ') and ln.endswith('-----') and ln != '-----BEGIN PGP SIGNED MESSAGE-----':
            label = ln[15:-5]
            j = i + 1
            hdrs = []
            while j < len(lines) and lines[j] != '' and ': ' in lines[j]:
                k, v = lines[j].split(': ', 1)
                hdrs.append((k, v))
                j += 1
            if j < len(lines) and lines[j] == '':
                j += 1
            body = []
            while j < len(lines) and not lines[j].startswith('=') and not lines[j].startswith('-----'):
                body.append(lines[j]); j += 1
            if j >= len(lines) or not lines[j].startswith('='):
                raise ValueError('no crc line')
            crc = int.from_bytes(base64.b64decode(lines[j][1:], validate=True), 'big')
            if j + 1 >= len(lines) or lines[j + 1] != '-----END PGP ' + label + '-----':
                raise ValueError('no end line')
            return label, hdrs, base64.b64decode(''.join(body), validate=True), crc
    raise ValueError('no armor')


# ------------------------------------------------------------------------------------------------------------------
def latin(s):
    return s.encode('latin-1') if isinstance(s, str) else bytes(s)


def hdr_arg(pairs):
    return ','.join('%s:%s' % (hx(latin(k)), hx(latin(v))) for k, v in pairs) if pairs else '-'


def impl_unarmor(Armorable, PGPError, data):
    """canonical string of Armorable.ascii_unarmor(data), same grammar as the driver's `unarmor` answer"""
    with warnings.catch_warnings(record=True) as w:
        warnings.simplefilter('always')
        try:
            m = Armorable.ascii_unarmor(data)
        except ValueError:
            return 'NOMATCH'
        except PGPError:
            return 'B64ERR'
        except Exception as ex:
            return 'RAISE ' + type(ex).__name__
    if 'cleartext' not in m:
        return 'BIN ' + hx(m['body'])
    warn = any('crc24' in str(x.message) for x in w)
    hd = 'N' if m['headers'] is None else hdr_arg(list(m['headers'].items()))
    if m['cleartext'] is None:
        cl = 'N'
    else:
        cl = ('N' if m['hashes'] is None else ','.join(hx(latin(h)) for h in m['hashes'])) + '|' + hx(latin(m['cleartext']))
    return 'OK %s %s %s %s %s %s' % (hx(latin(m['magic'])), hd, hx(m['body']), hn(m['crc']) if m['crc'] is not None else 'NOCRC', '1' if warn else '0', cl)


def make_blob_class(Armorable):
    class Blob(Armorable):
        def __init__(self, b=b'', magic='MESSAGE', headers=()):
            super().__init__()
            self.b = bytes(b); self._m = magic
            for k, v in headers:
                self.ascii_headers[k] = v
        magic = property(lambda self: self._m)
        def __bytes__(self): return self.b
        def __bytearray__(self): return bytearray(self.b)
        def parse(self, p): return None
    return Blob


def payload_lengths(ctx):
    if ctx.quick:
        ls = list(range(1, 150)) + list(range(150, 3001, 47)) + list(range(2952, 3001, 5))
    else:
        ls = list(range(1, 3001))
    return sorted(set(ls))


HEADER_SETS = [
    [],
    [('Version', 'PGPy v0.6.0')],
    [('Version', '1'), ('Comment', 'two  spaces and a tab\there')],
    [('Comment', 'https://example.org/x?y=1:2'), ('Charset', 'utf-8'), ('Hash', 'SHA256')],
    [('X', 'y'), ('A-very-long-key-name-with-dashes-0123456789', 'v' * 200)],
    [('Key with spaces', 'value:colon'), ('K:', ':v')],
    [('Comment', 'Note: colon-space inside the value: twice'), ('Version', '1')],
]
# header sets outside the property's domain (key with ": ", value ending in CR): only model = implementation is checked
ODD_HEADER_SETS = [
    [('Comment', 'Note: colon-space inside the value')],
    [('Comment', 'ends with CR\r')],
    [('A', 'x'), ('A: B', 'y')],
]


def variants(ctx, s):
    """(name, text) transport variants of an armored text"""
    yield 'lf', s
    yield 'crlf', s.replace('\n', '\r\n')
    yield 'surrounded', 'junk before\nFrom: someone\n\n' + s + 'trailing text\n-----END PGP NOTHING-----\n'
    yield 'surrounded-crlf', ('Received: x\n\n' + s + '--\nsig\n').replace('\n', '\r\n')
    yield 'no-final-newline', s[:-1]


def run(ctx):
    pgpy = load_repo()
    d = Driver('c10')
    try:
        _run(ctx, pgpy, d)
    finally:
        d.close()


def object_level(ctx, pgpy):
    """(a) related objects (a key, its public twin, copies) carry the armor headers THEY were given, not each other's;
    (b) a binary export whose last octet is a whitespace value loads through from_blob (bytes and bytearray) to the same object"""
    import copy
    from .keys import get
    with warnings.catch_warnings():
        warnings.simplefilter('ignore')
        k = get('ed25519')
        k.ascii_headers['Comment'] = 'private half'
        pub = k.pubkey
        pub.ascii_headers['Version'] = 'twin only'
        cp = copy.copy(k)
        cp.ascii_headers['Extra'] = 'copy only'
        k.ascii_headers['Late'] = 'set after the twin and the copy were made'
        objs = {'key': (k, {'Comment': 'private half', 'Late': 'set after the twin and the copy were made'}),
                'twin': (pub, {'Comment': 'private half', 'Version': 'twin only'}),
                'copy': (cp, {'Comment': 'private half', 'Extra': 'copy only'})}
        for nm, (o, want) in objs.items():
            got = outcome(lambda: ref_dearmor(str(o))[1])
            ctx.case('related-headers', nm, sample={'object': nm, 'headers': repr(got)[:120]})
            if got[0] != 'ok' or dict(got[1]) != want:
                ctx.fail('related-headers', 'armor of the %s does not carry exactly the headers supplied to it' % nm,
                         {'op': 'related', 'object': nm, 'want': want, 'impl': repr(got)[:300]})
        for v in (0x09, 0x0a, 0x0b, 0x0c, 0x0d, 0x20, 0x00, 0x85, 0xa0):
            m = pgpy.PGPMessage.new(b'ends in a special octet:' + bytes([v]), compression=pgpy.constants.CompressionAlgorithm.Uncompressed, format='b')
            blob = bytes(m)
            for kind, data in (('bytes', blob), ('bytearray', bytearray(blob))):
                o = outcome(lambda: bytes(pgpy.PGPMessage.from_blob(data)))
                ctx.case('binary-tail', (v, kind))
                if o != ('ok', blob):
                    ctx.fail('binary-tail', 'binary export ending in octet %#04x does not load to the same object through from_blob(%s)' % (v, kind),
                             {'op': 'tail', 'octet': v, 'kind': kind, 'impl': repr(o)[:200]})


def _run(ctx, pgpy, d):
    from pgpy.types import Armorable
    from pgpy.errors import PGPError
    check_pins(ctx, pgpy)
    object_level(ctx, pgpy)
    Blob = make_blob_class(Armorable)
    rng = ctx.rng

    # ---- 0. regression corpus: witnesses of repaired defects (known_findings.json, kind=fixed) run first ----
    for e in getattr(ctx, 'fixed', []):
        w = e.get('witness', {})
        if 'header' not in w:
            continue
        k_, v_ = w['header'].split(': ', 1)
        s = str(Blob(b'regression payload', 'MESSAGE', [(k_, v_)]))
        v = s.replace('\n', '\r\n') if w.get('transport') == 'CRLF' else s
        got = impl_unarmor(Armorable, PGPError, v)
        case = {'op': 'unarmor', 'text': v.encode('latin-1').hex(), 'as': 'str', 'hdrs': [[k_, v_]]}
        ctx.case('regression', e['key'], sample={'key': e['key'], 'witness': w, 'result': got[:70]})
        if not got.startswith('OK') or got.split(' ')[2] != hdr_arg([(k_, v_)]):
            ctx.fail('regression', 'repaired defect is back: ' + e.get('what', e['key']), case)
        ctx.expect_eq('regression', 'ascii_unarmor differs from model unarmor', case, got, d.call('unarmor', hx(v.encode('latin-1'))))

    # ---- 1. base64 / CRC-24 / str() on payload sweeps ----
    lens = payload_lengths(ctx)
    b_b64 = Batch(ctx, d, 'b64-encode', 'base64 text differs from model / RFC 6.3 transcription')
    b_crc = Batch(ctx, d, 'crc24', 'Armorable.crc24 differs from model / RFC 6.1 transcription')
    b_arm = Batch(ctx, d, 'armor-str', 'str() differs from model armor')
    b_un = Batch(ctx, d, 'unarmor', 'ascii_unarmor differs from model unarmor')
    for n in lens:
        for pat in ('zero', 'ff', 'random'):
            p = bytes(n) if pat == 'zero' else b'\xff' * n if pat == 'ff' else bytes(rng.randrange(256) for _ in range(n))
            key = (n, pat) if pat != 'random' else (n, p[:8].hex())
            enc = base64.b64encode(p)
            b_b64.add('b64enc ' + hx(p), hx(enc) + ' ' + hx(enc), {'op': 'b64', 'p': p.hex()})
            crc = Armorable.crc24(bytearray(p))
            b_crc.add('crc ' + hx(p), hn(crc) + ' ' + hn(crc), {'op': 'crc', 'p': p.hex()})
            ctx.case('crc24', key, sample={'len': n, 'pattern': pat, 'crc': '%06x' % crc})
            if crc != ref_crc24(p) or Armorable.crc24(p) != crc:
                ctx.fail('crc24', 'CRC-24 differs from the independent bit-serial reference', {'op': 'crc', 'p': p.hex()})
            hs = HEADER_SETS[(n + len(pat)) % len(HEADER_SETS)]
            magic = ('MESSAGE', 'PUBLIC KEY BLOCK', 'PRIVATE KEY BLOCK', 'SIGNATURE')[n % 4]
            s = str(Blob(p, magic, hs))
            b_arm.add('armor %s %s %s' % (hx(magic.encode()), hdr_arg(hs), hx(p)), hx(s.encode('latin-1')),
                      {'op': 'armor', 'magic': magic, 'hdrs': hs, 'p': p.hex()})
            ctx.case('armor-str', key + (magic, len(hs)), sample={'len': n, 'pattern': pat, 'magic': magic, 'headers': hs, 'first_line': s.split('\n')[0]})
            check_armor_text(ctx, s, magic, hs, p, {'op': 'armor', 'magic': magic, 'hdrs': hs, 'p': p.hex()})
            # reading back: every transport variant for small payloads and a rotating one for large ones
            vs = list(variants(ctx, s))
            if n > 120:
                vs = [vs[n % len(vs)]]
            for vn, v in vs:
                for kind in (('str', 'bytes', 'bytearray') if n <= 40 else (('str', 'bytes', 'bytearray')[n % 3],)):
                    data = v if kind == 'str' else v.encode('latin-1') if kind == 'bytes' else bytearray(v, 'latin-1')
                    got = impl_unarmor(Armorable, PGPError, data)
                    case = {'op': 'unarmor', 'text': v.encode('latin-1').hex(), 'as': kind, 'p': p.hex(), 'magic': magic, 'hdrs': hs}
                    b_un.add('unarmor ' + hx(v.encode('latin-1')), got, case)
                    ctx.case('unarmor', key + (vn, kind), sample={'len': n, 'variant': vn, 'input_type': kind, 'result': got[:60]})
                    want = 'OK %s %s %s %s 0 N' % (hx(magic.encode()), hdr_arg(hs) if hs else 'N', hx(p), hn(ref_crc24(p)))
                    if got != want:
                        ctx.fail('unarmor-roundtrip', 'ascii_unarmor(str(x)) does not give magic / headers / payload / crc back without a warning',
                                 dict(case, got=got[:300], want=want[:300]))
    b_b64.flush(); b_crc.flush(); b_arm.flush(); b_un.flush()
    ctx.exhaustive.append('payload lengths %s x {all-zero, all-FF, random}' % ('1..3000' if not ctx.quick else '1..149 and 150..3000 step 47 (all residues mod 3 and mod 48)'))

    # ---- 2. header sets: reading back what was written (property oracle) + model correspondence on the odd ones ----
    for hs in ODD_HEADER_SETS + HEADER_SETS:
        p = bytes(rng.randrange(256) for _ in range(rng.randrange(1, 100)))
        s = str(Blob(p, 'MESSAGE', hs))
        for vn, v in variants(ctx, s):
            got = impl_unarmor(Armorable, PGPError, v)
            ctx.case('unarmor-headers', (tuple(hs), vn), sample={'headers': hs, 'variant': vn, 'result': got[:80]})
            case = {'op': 'unarmor', 'text': v.encode('latin-1').hex(), 'as': 'str'}
            b_un.add('unarmor ' + hx(v.encode('latin-1')), got, case)
            in_domain = all('\r' not in v_ and ': ' not in k_ for k_, v_ in hs)      # RFC 4880 6.2 keys, values without CR
            if in_domain and (not got.startswith('OK') or got.split(' ')[2] != (hdr_arg(hs) if hs else 'N')):
                ctx.fail('unarmor-headers', 'supplied armor headers do not read back', dict(case, hdrs=hs, got=got[:200]))
    b_un.flush()

    # ---- 3. every single-character corruption of the body and CRC lines of short payloads ----
    repl = '\n\r\t =-:!Az0+/' if ctx.quick else ''.join(chr(c) for c in [9, 10, 13] + list(range(32, 127)))
    sizes = [1, 2, 3, 4, 47, 48, 49, 50] if ctx.quick else list(range(1, 13)) + [47, 48, 49, 50, 96, 97, 100]
    b_co = Batch(ctx, d, 'corrupt', 'ascii_unarmor differs from model on a corrupted block')
    ncor = 0
    for n in sizes:
        p = bytes(rng.randrange(256) for _ in range(n))
        hs = [] if n % 2 else [('Version', '1')]
        s = str(Blob(p, 'MESSAGE', hs))
        lines = s.split('\n')
        first_body = 1 + len(hs) + 1
        start = sum(len(l) + 1 for l in lines[:first_body])
        stop = sum(len(l) + 1 for l in lines[:-2])      # up to and including the newline of the CRC line
        good_crc = ref_crc24(p)
        for pos in range(start, stop):
            for r in list(repl) + ['']:                   # '' = deletion
                if r == s[pos]:
                    continue
                v = s[:pos] + r + s[pos + 1:]
                got = impl_unarmor(Armorable, PGPError, v)
                case = {'op': 'corrupt', 'text': v.encode('latin-1').hex(), 'p': p.hex(), 'pos': pos, 'repl': r}
                b_co.add('unarmor ' + hx(v.encode('latin-1')), got, case)
                ncor += 1
                ctx.case('corrupt', (n, pos, r), nontrivial=got.startswith('OK'), sample={'len': n, 'pos': pos, 'repl': r, 'result': got[:50]})
                # property: a payload that does not match its CRC is reported (or the block is refused)
                if got.startswith('OK'):
                    f = got.split(' ')
                    body, crc, warn = unhx(f[3]), (unhn(f[4]) if f[4] != 'NOCRC' else None), f[5] == '1'
                    if crc is None:
                        # (the corrupted text once had a checksum line: reading it as a block WITHOUT one skips the check)
                        if body != p:
                            ctx.fail('corrupt', 'corrupted armor accepted as a block without checksum, payload differs', dict(case, got=got[:200]))
                        else:
                            ctx.fail('corrupt', 'damaged checksum line swallowed: block accepted as one without checksum, no warning', dict(case, got=got[:200]))
                        continue
                    if not warn and not (body == p and crc == good_crc):
                        ctx.fail('corrupt', 'corrupted armor accepted without a CRC warning', dict(case, got=got[:200]))
                    if warn != (ref_crc24(body) != crc):
                        ctx.fail('corrupt', 'CRC warning does not agree with crc24(body) != stated crc', dict(case, got=got[:200]))
    b_co.flush()
    ctx.exhaustive.append('every position of the body + CRC lines x %d replacement characters + deletion, payload sizes %s (%d corruptions)' % (len(repl), sizes, ncor))

    # ---- 4. adversarial line structure: random line soups built from armor-like pieces ----
    pieces = ['-----BEGIN PGP MESSAGE-----', '-----BEGIN PGP SIGNATURE-----', '-----BEGIN PGP SIGNED MESSAGE-----', 'Hash: SHA256', 'Hash: SHA1,SHA512',
              '', 'Version: 1', 'a: b', 'QUJD', 'QUJDRA==', 'QUI=', 'Q', '=E/wO', '=AAAA', '-----END PGP MESSAGE-----', '-----END PGP SIGNATURE-----',
              '- dash', 'text', '-----BEGIN PGP MESSAGE, PART 1/2-----', '-----BEGIN PGP X-----', '-----END PGP X-----', 'A' * 76, 'A' * 77, 'QQ=', '====',
              ': ', 'k: ', '\r', 'QUJD=', '=QUJD']
    b_so = Batch(ctx, d, 'line-soup', 'ascii_unarmor differs from model on an armor-like line sequence')
    for i in range(ctx.n(3000, 60000)):
        k = rng.randrange(1, 14)
        ls = [rng.choice(pieces) for _ in range(k)]
        if rng.random() < 0.5:   # make a well-formed tail likely
            ls += rng.choice([['-----BEGIN PGP MESSAGE-----', '', 'QUJD', '=E/wO', '-----END PGP MESSAGE-----'],
                              ['-----BEGIN PGP SIGNATURE-----', 'Version: 1', '', 'QUJDRA==', '=AAAA', '-----END PGP SIGNATURE-----'],
                              ['-----BEGIN PGP X-----', 'QUI=', 'QUJD', '=AAAA', '-----END PGP X-----trailing']])
        nl = '\r\n' if rng.random() < 0.3 else '\n'
        v = nl.join(ls) + (nl if rng.random() < 0.7 else '')
        got = impl_unarmor(Armorable, PGPError, v)
        ctx.case('line-soup', v, nontrivial=got.startswith('OK'), sample={'lines': ls[:8], 'result': got[:60]})
        b_so.add('unarmor ' + hx(v.encode('latin-1')), got, {'op': 'unarmor', 'text': v.encode('latin-1').hex(), 'as': 'str'})
    b_so.flush()
    # non-ASCII octet input takes the binary path
    for i in range(ctx.n(50, 500)):
        v = bytes(rng.randrange(256) for _ in range(rng.randrange(0, 40)))
        got = impl_unarmor(Armorable, PGPError, v)
        ctx.case('binary-input', v, nontrivial=got.startswith('BIN'))
        b_so.add('unarmor ' + hx(v), got, {'op': 'unarmor', 'text': v.hex(), 'as': 'bytes'})
    b_so.flush()

    # ---- 5. base64 decoder state machine on arbitrary alphabet / pad / junk strings ----
    b_dec = Batch(ctx, d, 'b64-decode', 'base64.b64decode differs from model a2b')
    alpha = 'ABab09+/=\n\r -'
    for i in range(ctx.n(4000, 60000)):
        t = ''.join(rng.choice(alpha) for _ in range(rng.randrange(0, 14)))
        o = outcome(base64.b64decode, t.encode())
        got = hx(o[1]) if o[0] == 'ok' else 'ERR'
        ctx.case('b64-decode', t, nontrivial=o[0] == 'ok')
        b_dec.add('b64dec ' + hx(t.encode()), got, {'op': 'b64dec', 't': t})
    b_dec.flush()

    # ---- 6. real objects of every kind ----
    real_objects(ctx, pgpy, d, Armorable, PGPError)


def check_armor_text(ctx, s, magic, hs, p, case):
    """direct oracles on one armored text: label, line length, headers, CRC, independent decoder"""
    lines = s.split('\n')
    bad = None
    if lines[0] != '-----BEGIN PGP %s-----' % magic or lines[-2] != '-----END PGP %s-----' % magic or lines[-1] != '':
        bad = 'armor label lines do not carry the magic of the object'
    elif max(len(l) for l in lines) > 76 and not any(len('%s: %s' % kv) > 76 for kv in hs):
        bad = 'armor line longer than 76 characters'
    elif any(len(l) > 76 for l in lines[1 + len(hs) + 1:]):
        bad = 'radix-64 line longer than 76 characters'
    elif lines[1:1 + len(hs)] != ['%s: %s' % kv for kv in hs]:
        bad = 'supplied armor headers are not carried'
    else:
        try:
            label, hdrs, payload, crc = ref_dearmor(s)
            if label != magic or payload != p or crc != ref_crc24(p) or (hdrs != [tuple(kv) for kv in hs] and all(': ' not in kv[0] for kv in hs)):
                bad = 'independent RFC 4880 decoder does not recover label / payload / reference CRC'
        except Exception as ex:
            bad = 'independent RFC 4880 decoder refuses the armor (%s)' % type(ex).__name__
    if bad:
        ctx.fail('armor-oracle', bad, case)


def real_objects(ctx, pgpy, d, Armorable, PGPError):
    from .keys import get, available, T0
    from pgpy.constants import CompressionAlgorithm, SymmetricKeyAlgorithm, HashAlgorithm
    PGPKey, PGPMessage, PGPSignature = pgpy.PGPKey, pgpy.PGPMessage, pgpy.PGPSignature
    names = available(['rsa2048', 'ed25519', 'p256', 'dsa1024'] if ctx.quick else None)
    for n in (['rsa2048', 'ed25519', 'p256', 'dsa1024'] if ctx.quick else []):
        if n not in names:
            ctx.skipped.append('key ' + n + ' unavailable with the local OpenSSL')
    objs = []   # (kind, class name, object)
    keys = {n: get(n) for n in names}
    for n, k in keys.items():
        objs.append(('priv', 'key', k, n))
        objs.append(('pub', 'key', k.pubkey, n))
    signer = keys[names[0]]
    texts = ['hello world', 'line one\nline two\n', 'x' * 3000, '']
    for i, n in enumerate(names):
        k = keys[n]
        objs.append(('sig', 'sig', k.sign(texts[i % 3], created=T0), n))
        m = PGPMessage.new(texts[(i + 1) % 3], compression=[CompressionAlgorithm.Uncompressed, CompressionAlgorithm.ZIP, CompressionAlgorithm.ZLIB][i % 3])
        m |= k.sign(m, created=T0)
        objs.append(('msg', 'msg', m, n + '-signed'))
        c = PGPMessage.new(texts[i % 4] + '\n- dashed\n-----BEGIN PGP MESSAGE-----\nFrom x', cleartext=True)
        c |= k.sign(c, created=T0)
        if i % 2:
            c |= signer.sign(c, created=T0, hash=HashAlgorithm.SHA512)
        objs.append(('clear', 'msg', c, n + '-cleartext'))
    objs.append(('msg', 'msg', PGPMessage.new(b'\x00\x01binary\xff' * 50, file=False), 'literal-binary'))
    objs.append(('msg', 'msg', PGPMessage.new('secret').encrypt('passphrase', cipher=SymmetricKeyAlgorithm.AES256), 'skesk-encrypted'))
    enc_names = [n for n in names if n in ('rsa2048', 'ed25519', 'p256', 'p384', 'p521', 'secp256k1')]
    for n in enc_names[:ctx.n(2, 6)]:
        objs.append(('msg', 'msg', keys[n].pubkey.encrypt(PGPMessage.new('to ' + n)), 'pkesk-' + n))
    classes = {'key': PGPKey, 'msg': PGPMessage, 'sig': PGPSignature}
    magic_of = {'priv': 'PRIVATE KEY BLOCK', 'pub': 'PUBLIC KEY BLOCK', 'msg': 'MESSAGE', 'sig': 'SIGNATURE', 'clear': 'SIGNATURE'}

    def load(cname, data):
        with warnings.catch_warnings(record=True) as w:
            warnings.simplefilter('always')
            r = classes[cname].from_blob(data)
        o = r[0] if isinstance(r, tuple) else r
        return o, any('crc24' in str(x.message) for x in w)

    for kind, cname, obj, label in objs:
        for hs in ([], [('Version', 'PGPy test'), ('Comment', label)]):
            obj.ascii_headers.clear()
            for k_, v_ in hs:
                obj.ascii_headers[k_] = v_
            s = str(obj)
            b = bytes(obj)
            case = {'op': 'object', 'kind': kind, 'label': label, 'hdrs': hs, 'armor': s.encode('latin-1', 'replace').hex() if len(s) < 6000 else None}
            ctx.case('object-str', (kind, label, len(hs)), sample={'kind': kind, 'object': label, 'headers': hs, 'payload_octets': len(b), 'first_line': s.split('\n')[0]})
            # model magic for the kind, RFC label, model armor text
            mm = unhx(d.call('magic', kind)).decode()
            ctx.expect_eq('object-magic', 'magic differs from model magic_of', case, obj.magic, mm)
            if obj.magic != magic_of[kind] or unhx(d.call('label', kind)).decode() != obj.magic:
                ctx.fail('object-magic', 'block label does not match the kind of the object (RFC 4880 6.2)', case)
            if kind == 'clear':
                arm = s[s.index('-----BEGIN PGP SIGNATURE-----'):]
            else:
                arm = s
            ma = unhx(d.call('armor', hx(obj.magic.encode()), hdr_arg(hs), hx(b))).decode('latin-1')
            ctx.expect_eq('object-str', 'str(object) differs from model armor of its binary export', case, arm, ma)
            check_armor_text(ctx, arm, magic_of[kind], hs, b, case)
            # loading: armored (variants, input types) vs binary
            try:
                ref, _ = load(cname, b) if kind != 'clear' else (None, None)
            except Exception as ex:
                ctx.fail('object-load', 'binary export does not load (%s)' % type(ex).__name__, case); continue
            vs = list(variants(ctx, s)) if kind != 'clear' else [('lf', s), ('surrounded', 'junk\n\n' + s + 'more\n')]
            for vn, v in vs:
                for ty in ('str', 'bytes', 'bytearray'):
                    data = v if ty == 'str' else v.encode('latin-1') if ty == 'bytes' else bytearray(v, 'latin-1')
                    ctx.case('object-load', (kind, label, len(hs), vn, ty), sample={'kind': kind, 'object': label, 'variant': vn, 'input_type': ty})
                    c2 = dict(case, variant=vn, input_type=ty)
                    try:
                        o2, warned = load(cname, data)
                    except Exception as ex:
                        ctx.fail('object-load', 'armored text does not load (%s: %s)' % (type(ex).__name__, str(ex)[:80]), c2); continue
                    if warned:
                        ctx.fail('object-load', 'CRC warning on untouched armor', c2)
                    if dict(o2.ascii_headers) != dict(hs):
                        ctx.fail('object-load', 'armor headers not restored: %r' % dict(o2.ascii_headers), c2)
                    if kind == 'clear':
                        if o2.message != obj.message or [bytes(x) for x in o2.signatures] != [bytes(x) for x in obj.signatures]:
                            ctx.fail('object-load', 'cleartext message read back with different text / signatures', c2)
                    elif bytes(o2) != bytes(ref) or bytes(o2) != b:
                        ctx.fail('object-load', 'loading the armored text differs from loading the binary', c2)
                    # model view of the same text
                    got = impl_unarmor(Armorable, PGPError, data)
                    ctx.expect_eq('object-unarmor', 'ascii_unarmor differs from model unarmor on a real object', c2, got,
                                  d.call('unarmor', hx(v.encode('latin-1'))))
        obj.ascii_headers.clear()
        # ---- kind decision table: this block offered to each of the three classes ----
        s = str(obj)
        for cname2, cls2 in classes.items():
            try:
                with warnings.catch_warnings():
                    warnings.simplefilter('ignore')
                    cls2.from_blob(s)
                got = 'A'
            except ValueError as ex:
                got = 'V' if str(ex).startswith('Expected: %s. Got: %s' % ({'key': 'KEY', 'msg': 'MESSAGE', 'sig': 'SIGNATURE'}[cname2], obj.magic)) else 'other:' + str(ex)[:60]
            except TypeError:
                got = 'T'
            except Exception as ex:
                got = 'other:%s' % type(ex).__name__
            md = d.call('decide', cname2, hx(obj.magic.encode()), '1' if kind == 'clear' else '0')
            md = 'A' if md == 'C' else md
            case = {'op': 'kind', 'kind': kind, 'label': label, 'class': cname2}
            ctx.case('kind-table', (kind, label, cname2), sample={'block': obj.magic, 'kind': kind, 'offered_to': cname2, 'outcome': got})
            ctx.expect_eq('kind-table', 'kind check differs from model parse_decision', case, got, md)
            right = cname2 == cname or (kind == 'clear' and cname2 == 'sig')   # a cleartext message ends in a SIGNATURE block
            if (got == 'A') != right:
                ctx.fail('kind-table', 'block of the wrong kind accepted / right kind rejected', dict(case, outcome=got))
    # synthetic labels on a real signature payload: decision only depends on the label
    sigb = bytes(objs[2][2])
    Blob = make_blob_class(Armorable)
    for magic in ['PUBLIC KEY BLOCK', 'PRIVATE KEY BLOCK', 'MESSAGE', 'SIGNATURE', 'KEY', 'MONKEY', 'SIGNED MESSAGE', 'MESSAGE, PART 1', 'ARMORED FILE', 'SIGNATURE ', 'KE Y', 'X']:
        s = str(Blob(sigb, magic))
        for cname2, cls2 in classes.items():
            try:
                with warnings.catch_warnings():
                    warnings.simplefilter('ignore')
                    cls2.from_blob(s)
                got = 'A'
            except ValueError as ex:
                got = 'V' if str(ex).startswith('Expected: %s. Got: %s' % ({'key': 'KEY', 'msg': 'MESSAGE', 'sig': 'SIGNATURE'}[cname2], magic)) else 'A*'
            except TypeError:
                got = 'T'
            except Exception as ex:
                got = 'A*'       # passed the kind check, failed later on the packets
            md = d.call('decide', cname2, hx(magic.encode()), '0')
            ctx.case('kind-labels', (magic, cname2), sample={'label': magic, 'offered_to': cname2, 'outcome': got})
            ctx.expect_eq('kind-labels', 'kind check differs from model parse_decision', {'op': 'label', 'magic': magic, 'class': cname2},
                          got.rstrip('*'), 'A' if md == 'C' else md)


def replay(ctx, case):
    """re-run one recorded case on the implementation (and the model where the case is a correspondence case); True = still fails"""
    pgpy = load_repo()
    from pgpy.types import Armorable
    from pgpy.errors import PGPError
    op = case.get('op')
    Blob = make_blob_class(Armorable)
    d = Driver('c10')
    try:
        if op == 'crc':
            p = bytes.fromhex(case['p'])
            c = Armorable.crc24(bytearray(p))
            return c != ref_crc24(p) or d.call('crc', hx(p)) != hn(c) + ' ' + hn(c)
        if op == 'b64':
            p = bytes.fromhex(case['p']); e = base64.b64encode(p)
            return d.call('b64enc', hx(p)) != hx(e) + ' ' + hx(e)
        if op == 'b64dec':
            o = outcome(base64.b64decode, case['t'].encode())
            return d.call('b64dec', hx(case['t'].encode())) != (hx(o[1]) if o[0] == 'ok' else 'ERR')
        if op == 'armor':
            p = bytes.fromhex(case['p']); hs = [tuple(x) for x in case['hdrs']]
            s = str(Blob(p, case['magic'], hs))
            sub = Ctx0()
            check_armor_text(sub, s, case['magic'], hs, p, case)
            return bool(sub.failed) or d.call('armor', hx(case['magic'].encode()), hdr_arg(hs), hx(p)) != hx(s.encode('latin-1'))
        if op in ('unarmor', 'corrupt'):
            t = bytes.fromhex(case['text'])
            data = t.decode('latin-1') if case.get('as', 'str') == 'str' else t if case.get('as') == 'bytes' else bytearray(t)
            got = impl_unarmor(Armorable, PGPError, data)
            if got != d.call('unarmor', hx(t)):
                return True
            if op == 'corrupt' and got.startswith('OK'):
                f = got.split(' '); p = bytes.fromhex(case['p'])
                return f[4] == 'NOCRC' or (f[5] != '1' and not (unhx(f[3]) == p and unhn(f[4]) == ref_crc24(p)))
            if op == 'unarmor' and 'hdrs' in case and 'p' not in case:
                hs = [tuple(x) for x in case['hdrs']]
                return not got.startswith('OK') or got.split(' ')[2] != (hdr_arg(hs) if hs else 'N')
            if op == 'unarmor' and 'p' in case:
                hs = [tuple(x) for x in case['hdrs']]
                return got != 'OK %s %s %s %s 0 N' % (hx(case['magic'].encode()), hdr_arg(hs) if hs else 'N', hx(bytes.fromhex(case['p'])), hn(ref_crc24(bytes.fromhex(case['p']))))
            return False
    finally:
        d.close()
    return True   # object / kind cases are regenerated by the run itself


class Ctx0:
    def __init__(self): self.failed = []
    def fail(self, *a, **k): self.failed.append(a)
