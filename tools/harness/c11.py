"""C11 correspondence + direct oracles: cleartext signature framework of PGPy (dash_escape / dash_unescape, the cleartext
template and Hash: header, the cleartext branch of PGPMessage.parse, the CanonicalDocument branch of hashdata, PGPKey.sign /
verify on cleartext messages) against the extracted model (Model/Cleartext.v + Model/Armor.v), the RFC 4880 section 7
transcription (Spec/Rfc4880_cleartext.v) and an independent signer / verifier built on `cryptography` + hashlib."""
from datetime import timedelta
import ast, base64, hashlib, inspect, itertools, re, textwrap, warnings
from .common import Driver, Batch, hx, unhx, hn, unhn, outcome, load_repo
from .c10 import pin_source, check_pins as c10_pins, ref_crc24, PIN_PARSE_HEAD

K_BLANKS = 'C11/trailing-blanks-signed'
K_NONASCII = 'C11/non-ascii-cleartext-unreadable'
K_FINALCR = 'C11/final-lone-cr-ambiguous'

PIN_SRC = {
    'PGPMessage.dash_escape': '''
@staticmethod
def dash_escape(text):
    return re.subn(r'^-', '- -', text, flags=re.MULTILINE)[0]
''',
    'PGPMessage.dash_unescape': '''
@staticmethod
def dash_unescape(text):
    return re.subn(r'^- ', '', text, flags=re.MULTILINE)[0]
''',
    'PGPMessage.__str__': '''
def __str__(self):
    if self.type == 'cleartext':
        tmpl = u"-----BEGIN PGP SIGNED MESSAGE-----\\n" \\
               u"{hhdr:s}\\n" \\
               u"{cleartext:s}\\n" \\
               u"{signature:s}"
        hashes = set(s.hash_algorithm.name for s in self.signatures)
        hhdr = 'Hash: {hashes:s}\\n'.format(hashes=','.join(sorted(hashes))) if hashes else ''
        return tmpl.format(hhdr=hhdr,
                           cleartext=self.dash_escape(self.bytes_to_text(self._message)),
                           signature=super(PGPMessage, self).__str__())
    return super(PGPMessage, self).__str__()
''',
}
# single statements that must occur verbatim (after ast normalisation) in larger functions
PIN_STMTS = {
    'PGPSignature.hashdata': [
        "if isinstance(subject, str):\n    try:\n        subject = subject.encode('utf-8')\n    except UnicodeEncodeError:\n        subject = subject.encode('charmap')",
        "if self.type == SignatureType.CanonicalDocument:\n    _data += re.subn(br'\\r?\\n', b'\\r\\n', subject)[0]",
    ],
    'PGPKey.sign': [
        "if isinstance(subject, PGPMessage):\n    if subject.type == 'cleartext':\n        sig_type = SignatureType.CanonicalDocument\n    subject = subject._signed_data",
    ],
    'PGPKey.verify': [
        "if isinstance(subject, PGPMessage):\n    for sig in _filter_sigs(subject.signatures):\n        sspairs.append((sig, subject._signed_data))",
    ],
    # what a signature on a message covers: the text itself for a cleartext message (fix 9dba8e2 made literals hash their octets)
    'PGPMessage._signed_data': [
        "if self.type == 'literal':\n    return bytes(self._message._contents)",
        "return self.message",
    ],
}


def strip_docstrings(node):
    for n in ast.walk(node):
        body = getattr(n, 'body', None)
        if isinstance(body, list):
            n.body = [s for s in body if not (isinstance(s, ast.Expr) and isinstance(getattr(s, 'value', None), ast.Constant) and isinstance(s.value.value, str))] or body[:0]
    return node


def pin_statements(ctx, name, fn, stmts):
    try:
        tree = strip_docstrings(ast.parse(textwrap.dedent(inspect.getsource(fn))))
        have = set(ast.dump(n) for n in ast.walk(tree) if isinstance(n, ast.stmt))
        for s in stmts:
            want = ast.dump(strip_docstrings(ast.parse(s)).body[0])
            if want not in have:
                ctx.broken.append('pinned constant %s changed: statement %r no longer present' % (name, s.split('\n')[0][:70]))
    except Exception as ex:
        ctx.broken.append('pinned constant %s changed: cannot read source (%r)' % (name, ex))


def check_pins(ctx, pgpy):
    c10_pins(ctx, pgpy)        # armor expression / template / ascii_unarmor / PGPMessage.parse: the reader is Model/Armor.v unarmor
    M = pgpy.PGPMessage
    pin_source(ctx, 'PGPMessage.dash_escape', M.dash_escape, PIN_SRC['PGPMessage.dash_escape'])
    pin_source(ctx, 'PGPMessage.dash_unescape', M.dash_unescape, PIN_SRC['PGPMessage.dash_unescape'])
    pin_source(ctx, 'PGPMessage.__str__', M.__str__, PIN_SRC['PGPMessage.__str__'])
    pin_statements(ctx, 'PGPSignature.hashdata', pgpy.PGPSignature.hashdata, PIN_STMTS['PGPSignature.hashdata'])
    sign = pgpy.PGPKey.sign
    pin_statements(ctx, 'PGPKey.sign', getattr(sign, '__wrapped__', sign), PIN_STMTS['PGPKey.sign'])
    pin_statements(ctx, 'PGPKey.verify', pgpy.PGPKey.verify, PIN_STMTS['PGPKey.verify'])
    pin_statements(ctx, 'PGPMessage._signed_data', getattr(getattr(M, '_signed_data', None), 'fget', None), PIN_STMTS['PGPMessage._signed_data'])


# ------------------------------------------------------------------------------------------------------------------
def cp6(s):
    return ''.join('%06x' % ord(c) for c in s) if s else '-'


def uncp6(a):
    return '' if a == '-' else ''.join(chr(int(a[i:i + 6], 16)) for i in range(0, len(a), 6))


def hdr_arg(pairs):
    return ','.join('%s:%s' % (cp6(k), cp6(v)) for k, v in pairs) if pairs else 'N'


PIECES = ['-', '- ', '-- ', '-----', 'From ', '-----BEGIN PGP SIGNATURE-----', '-----BEGIN PGP SIGNED MESSAGE-----', '-----END PGP SIGNATURE-----',
          '-----BEGIN PGP MESSAGE-----', 'Hash: SHA256', '=AAAA', 'QUJD', '', '', ' ', '  ', '\t', ' \t', 'a', 'word', 'two words', ':', 'k: v', '~', '=']
NONASCII = ['é', '☃', '\U0001F600', '\x7f', '\x0b', '\x0c', '\x85', ' ', '\x00', '\xff', 'Ā']
ENDS = ['\n', '\n', '\n', '\n', '\r\n', '\r', '\n\n', '']


def gen_text(rng, nonascii=False, long=False):
    t = ''
    for i in range(rng.randrange(0, 6)):
        pool = PIECES + (NONASCII if nonascii else [])
        line = ''.join(rng.choice(pool) for _ in range(rng.randrange(0, 4)))
        if long and i == 1:
            line += 'x' * 10000 + rng.choice(['', ' ', '-'])
        t += line + rng.choice(ENDS)
    if rng.random() < 0.3 and t.endswith('\n'):
        t = t[:-1]
    return t


FIXED_TEXTS = ['', '\n', '-', '- ', '-\n-', 'a \n', 'a\t\nb', 'a \r\nb', 'a\r', 'a\r\n', '\r', ' ', '\t', 'hello\n- dash\n-----BEGIN PGP SIGNATURE-----\nFrom me',
               'café', 'snow ☃', '\U0001F600', 'a\rb', 'x\n', '\n\n', 'a\n\n', 'Hash: SHA256\n\n-----BEGIN PGP SIGNATURE-----\n\nQUJD\n=E/wO\n-----END PGP SIGNATURE-----',
               '-----BEGIN PGP SIGNATURE-----\n\nQUJD\n=E/wO\n-----END PGP SIGNATURE-----\n', 'trailing  \nx\t\n', 'line ' * 2000, 'a\x0cb',
               # many lines: every line ending is canonicalised, not the first few (8, 9, 10, 40 and 300 of them; with and without a final one)
               '\n'.join('l%d' % i for i in range(9)), '\n'.join('l%d' % i for i in range(10)) + '\n', '\n'.join('line %d' % i for i in range(41)),
               '\n'.join('- dash %d' % i for i in range(12)) + '\n', '\n' * 20, '\n'.join('x' for i in range(300)) + '\n']

HASHLIB = {'MD5': 'md5', 'SHA1': 'sha1', 'SHA224': 'sha224', 'SHA256': 'sha256', 'SHA384': 'sha384', 'SHA512': 'sha512'}
HASHID = {'MD5': 1, 'SHA1': 2, 'SHA256': 8, 'SHA384': 9, 'SHA512': 10, 'SHA224': 11}


def transport_crlf(s):
    """what a CRLF transport (e-mail) does to an LF text: every LF that is not already part of CR LF becomes CR LF"""
    return re.sub('(?<!\r)\n', '\r\n', s)


# ---- independent OpenPGP pieces (no pgpy code): packet framing, v4 signature trailer, signing / verification via `cryptography` ----
def parse_sig_packet(b):
    """one signature packet -> (version.., hashed area end offset in body, body, hash algorithm id, pub alg, left16, mpi octets)"""
    if b[0] & 0x40:
        if b[1] < 192: ln, off = b[1], 2
        elif b[1] < 224: ln, off = ((b[1] - 192) << 8) + b[2] + 192, 3
        else: ln, off = int.from_bytes(b[2:6], 'big'), 6
    else:
        ll = {0: 1, 1: 2, 2: 4}[b[0] & 3]
        ln, off = int.from_bytes(b[1:1 + ll], 'big'), 1 + ll
    body = b[off:off + ln]
    assert body[0] == 4
    hl = int.from_bytes(body[4:6], 'big')
    ul = int.from_bytes(body[6 + hl:8 + hl], 'big')
    left16 = body[8 + hl + ul:10 + hl + ul]
    return {'type': body[1], 'pubalg': body[2], 'halg': body[3], 'hashed_part': body[:6 + hl], 'left16': left16, 'mpis': body[10 + hl + ul:],
            'rest': b[off + ln:]}


def read_mpis(b):
    out = []
    while b:
        bits = int.from_bytes(b[:2], 'big'); n = (bits + 7) // 8
        out.append(int.from_bytes(b[2:2 + n], 'big')); b = b[2 + n:]
    return out


def sig_digest(hname, canon_octets, hashed_part):
    h = hashlib.new(HASHLIB[hname])
    h.update(canon_octets + hashed_part + b'\x04\xff' + len(hashed_part).to_bytes(4, 'big'))
    return h.digest()


def crypto_hash(hname):
    from cryptography.hazmat.primitives import hashes
    return getattr(hashes, hname)()


def indep_verify(key, digest, hname, mpis):
    """verify with `cryptography` from the raw key numbers; True / False / None (algorithm not covered)"""
    from cryptography.hazmat.primitives.asymmetric import rsa, padding, utils, ed25519, ec, dsa
    from cryptography.exceptions import InvalidSignature
    km = key._key.keymaterial
    alg = type(km).__name__
    try:
        if alg.startswith('RSA'):
            pub = rsa.RSAPublicNumbers(int(km.e), int(km.n)).public_key()
            pub.verify(mpis[0].to_bytes((int(km.n).bit_length() + 7) // 8, 'big'), digest, padding.PKCS1v15(), utils.Prehashed(crypto_hash(hname)))
            return True
        if alg.startswith('EdDSA'):
            pub = ed25519.Ed25519PublicKey.from_public_bytes(bytes(km.p.x))
            pub.verify(mpis[0].to_bytes(32, 'big') + mpis[1].to_bytes(32, 'big'), digest)
            return True
        if alg.startswith('ECDSA'):
            curve = {256: ec.SECP256R1(), 384: ec.SECP384R1(), 521: ec.SECP521R1()}.get(km.oid.key_size)
            if curve is None or 'K1' in km.oid.name.upper():
                return None
            pub = ec.EllipticCurvePublicNumbers(int(km.p.x), int(km.p.y), curve).public_key()
            pub.verify(utils.encode_dss_signature(mpis[0], mpis[1]), digest, ec.ECDSA(utils.Prehashed(crypto_hash(hname))))
            return True
        if alg.startswith('DSA'):
            pub = dsa.DSAPublicNumbers(int(km.y), dsa.DSAParameterNumbers(int(km.p), int(km.q), int(km.g))).public_key()
            pub.verify(utils.encode_dss_signature(mpis[0], mpis[1]), digest, dsa.DSA(utils.Prehashed(crypto_hash(hname))))   # OpenSSL truncates to |q|
            return True
    except InvalidSignature:
        return False
    except Exception:
        return None
    return None


_PRIV = {}


def mpi(v):
    return v.bit_length().to_bytes(2, 'big') + v.to_bytes((v.bit_length() + 7) // 8, 'big')


def indep_sign(key, hname, canon_octets, created):
    """build a v4 text signature packet over canon_octets with `cryptography`; None if the algorithm is not covered"""
    from cryptography.hazmat.primitives.asymmetric import rsa, padding, utils, ed25519
    km = key._key.keymaterial
    alg = type(km).__name__
    fp = bytes.fromhex(str(key.fingerprint).replace(' ', ''))
    pubalg = 1 if alg.startswith('RSA') else 22 if alg.startswith('EdDSA') else None
    if pubalg is None:
        return None
    hashed = b'\x05\x02' + int(created.timestamp()).to_bytes(4, 'big') + b'\x16\x21\x04' + fp
    hashed_part = bytes([4, 1, pubalg, HASHID[hname]]) + len(hashed).to_bytes(2, 'big') + hashed
    digest = sig_digest(hname, canon_octets, hashed_part)
    if pubalg == 1:
        p, q, dd, n, e = int(km.p), int(km.q), int(km.d), int(km.n), int(km.e)
        priv = _PRIV.get(n)
        if priv is None:
            priv = _PRIV[n] = rsa.RSAPrivateNumbers(p, q, dd, dd % (p - 1), dd % (q - 1), pow(q, -1, p), rsa.RSAPublicNumbers(e, n)).private_key()
        s = priv.sign(digest, padding.PKCS1v15(), utils.Prehashed(crypto_hash(hname)))
        mp = mpi(int.from_bytes(s, 'big'))
    else:
        priv = ed25519.Ed25519PrivateKey.from_private_bytes(int(km.s).to_bytes(32, 'big'))
        s = priv.sign(digest)
        mp = mpi(int.from_bytes(s[:32], 'big')) + mpi(int.from_bytes(s[32:], 'big'))
    unhashed = b'\x09\x10' + fp[-8:]
    body = hashed_part + len(unhashed).to_bytes(2, 'big') + unhashed + digest[:2] + mp
    ln = len(body)
    hdr = bytes([0xC2]) + (bytes([ln]) if ln < 192 else bytes([((ln - 192) >> 8) + 192, (ln - 192) & 0xff]))
    return hdr + body


def indep_armor(payload):
    b = base64.b64encode(payload).decode()
    lines = [b[i:i + 64] for i in range(0, len(b), 64)]
    return '-----BEGIN PGP SIGNATURE-----\n\n' + '\n'.join(lines) + '\n=' + base64.b64encode(ref_crc24(payload).to_bytes(3, 'big')).decode() + '\n-----END PGP SIGNATURE-----\n'


def indep_escape(t):
    return '\n'.join(('- ' + l if l.startswith('-') else l) for l in t.split('\n'))


# ------------------------------------------------------------------------------------------------------------------
def run(ctx):
    pgpy = load_repo()
    d = Driver('c11')
    try:
        _run(ctx, pgpy, d)
    finally:
        d.close()


def classes(d, t):
    r = d.call('classes', cp6(t))
    return {'blanks': r[0] == '1', 'nonascii': r[1] == '1', 'finalcr': r[2] == '1'}


def _run(ctx, pgpy, d):
    from .keys import get, available, T0
    from pgpy.constants import HashAlgorithm
    PGPMessage = pgpy.PGPMessage
    check_pins(ctx, pgpy)
    rng = ctx.rng

    # ---- 0. regression corpus: witnesses of repaired defects (known_findings.json, kind=fixed) run first ----
    for e in getattr(ctx, 'fixed', []):
        w = e.get('witness', {})
        if 'text' in w:
            kk = {'ed25519': get('ed25519')}
            ctx.case('regression', e['key'], sample={'key': e['key'], 'witness': w})
            before = len(ctx.violations)
            one_flow(ctx, pgpy, d, kk, w['text'], ['ed25519'], ['SHA256'], [], T0)
            if len(ctx.violations) > before:
                ctx.violations[before]['what'] = 'repaired defect is back: %s (%s)' % (e.get('what', e['key']), ctx.violations[before]['what'])

    alpha = ['-', ' ', '\n', '\r', 'a', '\t']
    maxlen = ctx.n(5, 6)
    small = [''.join(c) for k in range(0, maxlen + 1) for c in itertools.product(alpha, repeat=k)]
    texts = list(FIXED_TEXTS) + small
    for i in range(ctx.n(1500, 20000)):
        texts.append(gen_text(rng, nonascii=(i % 3 == 0), long=(i % 97 == 5)))
    b_esc = Batch(ctx, d, 'dash-escape', 'dash_escape differs from model / RFC 7.1 transcription')
    b_une = Batch(ctx, d, 'dash-unescape', 'dash_unescape differs from model')
    # a text signature object to reach PGPSignature.hashdata's CanonicalDocument branch
    k0 = get('ed25519')
    m0 = PGPMessage.new('x', cleartext=True)
    sig0 = k0.sign(m0, created=T0)
    tail = len(sig0.hashdata(''))
    for t in texts:
        e = PGPMessage.dash_escape(t)
        b_esc.add('esc ' + cp6(t), cp6(e) + ' ' + cp6(e), {'op': 'esc', 't': t})
        ctx.case('dash-escape', t, nontrivial=('-' in t), sample={'text': t[:60], 'escaped': e[:60]} if len(t) < 80 else None)
        if PGPMessage.dash_unescape(e) != t:
            ctx.fail('dash-roundtrip', 'dash_unescape(dash_escape(t)) <> t', {'op': 'esc', 't': t})
        if any(l.startswith('-') and not l.startswith('- ') for l in e.split('\n')):
            ctx.fail('dash-escape', 'escaped text has a line starting with "-" that is not "- "', {'op': 'esc', 't': t})
        if e != indep_escape(t):
            ctx.fail('dash-escape', 'not the RFC 4880 7.1 dash-escaped text', {'op': 'esc', 't': t})
        u = PGPMessage.dash_unescape(t)
        b_une.add('unesc ' + cp6(t), cp6(u), {'op': 'unesc', 't': t})
        try:
            octets = t.encode('utf-8')
        except UnicodeEncodeError:
            continue
        hd = bytes(sig0.hashdata(t))
        signed = hd[:len(hd) - tail]
        ctx.case('canon', t, nontrivial=('\n' in t))
        CANON_POST.append((t, hx(signed)))
    b_esc.flush(); b_une.flush()
    # canon: compare first field with the implementation, second (RFC) through the class predicate
    ans = d.batch(['canon ' + hx(t.encode('utf-8')) for t, _ in CANON_POST])
    cls = d.batch(['classes ' + cp6(t) for t, _ in CANON_POST])
    for (t, signed), a, c in zip(CANON_POST, ans, cls):
        cp, cr = a.split(' ')
        ctx.expect_eq('canon', 'signed octets differ from model canon_pgpy', {'op': 'canon', 't': t}, signed, cp)
        if cp != cr:
            ctx.fail('canon', 'signed octets are not the RFC 4880 7.1 canonical text (trailing blanks signed)', {'op': 'canon', 't': t},
                     K_BLANKS if c[0] == '1' else None)
        elif c[0] == '1':
            ctx.fail('canon', 'trailing-blank class but signed octets agree with RFC 7.1: characterisation wrong', {'op': 'canon', 't': t})
    del CANON_POST[:]
    ctx.exhaustive.append('every text over {-, SP, LF, CR, a, TAB} up to length %d: escape / unescape / signed octets' % maxlen)

    # ---- 2. full write - read - verify ----
    knames = available(['ed25519', 'rsa2048', 'p256', 'dsa1024'] if ctx.quick else ['ed25519', 'ed25519b', 'rsa2048', 'rsa3072', 'p256', 'p384', 'p521', 'secp256k1', 'dsa2048', 'dsa1024'])
    keys = {n: get(n) for n in knames}
    hashes = ['SHA256', 'SHA512', 'SHA384', 'SHA224', 'SHA1', 'MD5']
    flow = list(FIXED_TEXTS) + [''.join(c) for k in range(0, ctx.n(3, 4) + 1) for c in itertools.product(alpha, repeat=k)]
    for i in range(ctx.n(250, 2500)):
        flow.append(gen_text(rng, nonascii=(i % 4 == 0), long=(i % ctx.n(120, 53) == 7)))
    for i, t in enumerate(flow):
        ns = 1 if i % 3 else rng.choice([2, 3])
        signers = [pick_key(ctx, knames, i + j) for j in range(ns)]
        hs = [hashes[(i // 2 + 3 * j) % len(hashes)] for j in range(ns)]
        if i % 17 == 4:
            # ONE key signs twice in the same second with two digests (e.g. SHA256 for old readers, SHA512 for new ones): two signatures
            signers = [signers[0], signers[0]] + signers[1:]
            hs = ['SHA256', 'SHA512'] + hs[1:]
        hdrs = [] if i % 5 else [('Version', 'PGPy t'), ('Comment', 'c%d' % i)]
        one_flow(ctx, pgpy, d, keys, t, signers, hs, hdrs, T0)
    ctx.exhaustive.append('every text over {-, SP, LF, CR, a, TAB} up to length %d: sign, write, read, verify (PGPy and independent)' % ctx.n(3, 4))
    ctx.notes.append('hash algorithms: %s (RIPEMD160 cannot be instantiated with the local cryptography)' % ','.join(hashes))
    ctx.skipped.append('RIPEMD160 (not available in cryptography here)')
    gpg_sample(ctx, pgpy, keys, T0)


CANON_POST = []


def pick_key(ctx, knames, i):
    fast = [n for n in knames if not n.startswith('rsa')] or knames
    if i % 12:            # RSA private-key loading inside PGPy costs ~50 ms per signature: every 12th signer only
        return fast[i % len(fast)]
    return knames[i % len(knames)]


def one_flow(ctx, pgpy, d, keys, t, signers, hs, hdrs, T0, replaying=False):
    """sign t as a cleartext message, write, read back (LF and CRLF transport), verify with PGPy and independently.
    Returns True if something failed (used by replay)."""
    from pgpy.constants import HashAlgorithm
    PGPMessage = pgpy.PGPMessage
    failed = []
    case = {'op': 'flow', 't': t, 'signers': signers, 'hashes': hs, 'hdrs': hdrs}

    def fail(suite, what, dk=None):
        failed.append(what)
        ctx.fail(suite, what, case, dk)
    cl = classes(d, t)
    key = (t, tuple(signers), tuple(hs), len(hdrs))
    ctx.case('flow', key, nontrivial=not cl['nonascii'],
             sample={'text': t[:50], 'signers': signers, 'hashes': hs, 'classes': [k for k, v in cl.items() if v]} if len(t) < 200 else None)
    with warnings.catch_warnings():
        warnings.simplefilter('ignore')
        m = PGPMessage.new(t, cleartext=True)
        for kn, h in zip(signers, hs):
            m |= keys[kn].sign(m, created=T0, hash=getattr(HashAlgorithm, h))
        for k_, v_ in hdrs:
            m.ascii_headers[k_] = v_
        s = str(m)
    payload = bytes(m)
    sigs = [bytes(x) for x in m.signatures]
    # -- writer: model render, Hash header, RFC shape
    mr = uncp6(d.call('render', ','.join(cp6(h) for h in hs), cp6(t), hdr_arg(hdrs), hx(payload)))
    if mr != s:
        fail('render', 'str(message) differs from model render')
    lines = s.split('\n')
    if lines[0] != '-----BEGIN PGP SIGNED MESSAGE-----' or lines[1] != 'Hash: ' + ','.join(sorted(set(hs))) or lines[2] != '':
        fail('render', 'Hash: header does not list the hash algorithms of all signatures')
    # -- the signed octets follow RFC 4880 7.1: independent verification of every signature
    try:
        octets = t.encode('utf-8')
    except UnicodeEncodeError:
        octets = None
    if octets is not None:
        rfc_octets = unhx(d.call('canon', hx(octets)).split(' ')[1])
        for sig in m.signatures:
            sp = parse_sig_packet(bytes(sig))
            hname = sig.hash_algorithm.name
            kn = [n for n in signers if keys[n].fingerprint.keyid == sig.signer or sig.signer in keys[n].subkeys][0]
            dg = sig_digest(hname, rfc_octets, sp['hashed_part'])
            ok16 = dg[:2] == sp['left16']
            v = indep_verify(keys[kn], dg, hname, read_mpis(sp['mpis']))
            if sp['type'] != 1:
                fail('rfc-sign', 'cleartext signature is not a text signature (type 0x01)')
            if not ok16 or v is False:
                fail('rfc-sign', 'signature does not verify over the RFC 4880 7.1 octets under an independent implementation',
                     K_BLANKS if cl['blanks'] else None)
            elif cl['blanks']:
                fail('rfc-sign', 'trailing-blank class but the RFC octets verify: characterisation wrong')
    # -- reader: LF text as written
    res = read_back(ctx, pgpy, d, keys, s, signers, want_hashes=True)
    mread = d.call('read', cp6(s))
    if res[0] == 'ok':
        m2, verdicts, hashes_hdr = res[1], res[2], res[3]
        impl_read = '|'.join([','.join(cp6(h) for h in hashes_hdr) if hashes_hdr is not None else 'N', cp6(m2.message),
                              hdr_arg(list(m2.ascii_headers.items())), hx(bytes(m2)), '0'])
        if impl_read != mread and not cl['nonascii']:
            fail('read', 'reading differs from model read: impl %s model %s' % (impl_read[:120], mread[:120]))
        good = m2.message == t and [bytes(x) for x in m2.signatures] == sigs and all(verdicts) and dict(m2.ascii_headers) == dict(hdrs)
    else:
        good = False
        if not cl['nonascii'] and mread != 'NONE':
            fail('read', 'implementation cannot read what the model reads (%s)' % res[1])
    if not good:
        dk = K_NONASCII if cl['nonascii'] else K_FINALCR if cl['finalcr'] else None
        fail('roundtrip', 'cleartext message written out and read back: text / signatures / verification not preserved (%s)' %
             (res[1] if res[0] != 'ok' else 'text %r verdicts %r' % (m2.message[:30], verdicts)), dk)
    elif cl['nonascii'] or cl['finalcr']:
        if cl['finalcr'] or len(t) < 30:
            fail('roundtrip', 'defect class predicted a failure but the round trip works: characterisation wrong')
    # -- a message READ BACK and then countersigned by a further signer with another digest: written again, the Hash: header names
    #    the digests of ALL signatures now on it (GnuPG refuses a signature whose digest the header does not announce)
    if res[0] == 'ok' and good and len(signers) >= 1 and not cl['nonascii']:
        others = [h for h in ('SHA512', 'SHA384', 'SHA224', 'SHA256') if h not in hs]
        if others:
            kn2 = signers[-1]
            with warnings.catch_warnings():
                warnings.simplefilter('ignore')
                def _counter():
                    mm = m2
                    mm |= keys[kn2].sign(mm, created=T0 + timedelta(seconds=1), hash=getattr(HashAlgorithm, others[0]))
                    return str(mm), mm
                o4 = outcome(_counter)
            ctx.case('countersign', (t, tuple(signers), tuple(hs), others[0]))
            if o4[0] != 'ok':
                fail('countersign', 'countersigning a read-back cleartext message raised %s' % o4[1])
            else:
                l4 = o4[1][0].split('\n')
                want4 = set(hs) | {others[0]}
                got4 = set(l4[1][len('Hash: '):].split(',')) if l4[1].startswith('Hash: ') else None
                if got4 != want4:
                    fail('countersign', 'after countersigning a read-back message the Hash: header is %r, the signatures use %s' % (l4[1], sorted(want4)))
                res4 = read_back(ctx, pgpy, d, keys, o4[1][0], signers)
                if res4[0] != 'ok' or not all(res4[2]) or res4[1].message != t or len(res4[1].signatures) != len(sigs) + 1:
                    fail('countersign', 'countersigned message does not read back / verify with all %d signatures' % (len(sigs) + 1))
    # -- reader: CRLF transport
    if not cl['nonascii']:
        s3 = transport_crlf(s)
        res3 = read_back(ctx, pgpy, d, keys, s3, signers)
        okc = res3[0] == 'ok' and all(res3[2]) and [bytes(x) for x in res3[1].signatures] == sigs and \
            re.sub('\r?\n', '\r\n', res3[1].message) == re.sub('\r?\n', '\r\n', t if not cl['finalcr'] else t)
        mread3 = d.call('read', cp6(s3))
        if res3[0] == 'ok':
            impl3 = cp6(res3[1].message)
            if mread3 == 'NONE' or mread3.split('|')[1] != impl3:
                fail('read', 'CRLF transport: reading differs from model read')
        if not okc:
            fail('roundtrip-crlf', 'message carried over a CRLF transport does not verify / changes its canonical text (%s)' %
                 (res3[1] if res3[0] != 'ok' else 'text %r verdicts %r' % (res3[1].message[:30], res3[2])), K_FINALCR if cl['finalcr'] else None)
    # -- messages cleartext-signed by an independent implementation verify under PGPy
    if octets is not None and not cl['finalcr']:
        kn, h = signers[0], hs[0]
        pkt = indep_sign(keys[kn], h, rfc_octets, T0)
        if pkt is not None:
            foreign = '-----BEGIN PGP SIGNED MESSAGE-----\nHash: %s\n\n%s\n%s' % (h, indep_escape(t), indep_armor(pkt))
            ctx.case('foreign', (t, kn, h), nontrivial=not cl['nonascii'])
            resf = read_back(ctx, pgpy, d, keys, foreign, [kn])
            okf = resf[0] == 'ok' and all(resf[2]) and resf[1].message == t
            if not okf:
                dk = K_NONASCII if cl['nonascii'] else K_BLANKS if cl['blanks'] else None
                fail('foreign', 'RFC 4880 7.1 cleartext message signed by an independent implementation does not verify under PGPy (%s)' %
                     (resf[1] if resf[0] != 'ok' else 'text equal %r verdicts %r' % (resf[1].message == t, resf[2])), dk)
            elif cl['blanks'] or (cl['nonascii'] and len(t) < 30):
                fail('foreign', 'defect class predicted a failure but the foreign message verifies: characterisation wrong')
    return bool(failed)


def read_back(ctx, pgpy, d, keys, s, signers, want_hashes=False):
    """('ok', message, [verdict per signer], hashes header) or ('raise'/'warn', description)"""
    from pgpy.types import Armorable
    try:
        with warnings.catch_warnings(record=True) as w:
            warnings.simplefilter('always')
            m2 = pgpy.PGPMessage.from_blob(s)
            if any('crc24' in str(x.message) for x in w):
                return ('warn', 'CRC warning')
            if m2.type != 'cleartext':
                return ('raise', 'not read as a cleartext message')
            verdicts = []
            for kn in signers:
                try:
                    verdicts.append(bool(keys[kn].pubkey.verify(m2)))
                except Exception as ex:
                    verdicts.append(False)
            hh = None
            if want_hashes:
                try:
                    hh = Armorable.ascii_unarmor(bytearray(s, 'latin-1')).get('hashes')
                except Exception:
                    hh = None
        return ('ok', m2, verdicts, hh)
    except Exception as ex:
        return ('raise', '%s: %s' % (type(ex).__name__, str(ex)[:60]))


def gpg_sample(ctx, pgpy, keys, T0):
    """optional cross-check with GnuPG (never a condition for passing): gpg verifies a PGPy cleartext message and PGPy verifies a gpg one"""
    import os, shutil, subprocess, tempfile
    if not os.path.exists('/usr/bin/gpg') or 'ed25519' not in keys:
        ctx.notes.append('gpg cross-check: not available'); return
    home = tempfile.mkdtemp(prefix='c11gpg')
    try:
        k = keys['ed25519']
        base = ['/usr/bin/gpg', '--homedir', home, '--batch', '--no-tty', '--quiet', '--pinentry-mode', 'loopback', '--passphrase', '']
        p = subprocess.run(base + ['--import'], input=str(k).encode(), capture_output=True, timeout=30)
        n_ok = n_bad = 0
        for t in ['hello\n- dash\nFrom me', 'plain', 'a\n\n-x\n', 'trailing \nblank']:
            m = pgpy.PGPMessage.new(t, cleartext=True); m |= k.sign(m, created=T0)
            r = subprocess.run(base + ['--verify'], input=str(m).encode(), capture_output=True, timeout=30)
            n_ok += r.returncode == 0; n_bad += r.returncode != 0
            r2 = subprocess.run(base + ['--clearsign', '--local-user', str(k.fingerprint).replace(' ', '')], input=t.encode(), capture_output=True, timeout=30)
            if r2.returncode == 0:
                try:
                    with warnings.catch_warnings():
                        warnings.simplefilter('ignore')
                        v = bool(k.pubkey.verify(pgpy.PGPMessage.from_blob(r2.stdout.decode())))
                except Exception:
                    v = False
                ctx.notes.append('gpg --clearsign %r -> PGPy verify %s' % (t[:20], v))
        ctx.notes.append('gpg --verify of 4 PGPy cleartext messages (one with a trailing blank): %d good, %d bad' % (n_ok, n_bad))
    except Exception as ex:
        ctx.notes.append('gpg cross-check failed to run: %r' % ex)
    finally:
        shutil.rmtree(home, ignore_errors=True)


def replay(ctx, case):
    pgpy = load_repo()
    from .keys import get, T0
    PGPMessage = pgpy.PGPMessage
    op = case.get('op')
    d = Driver('c11')
    try:
        t = case.get('t', '')
        if op == 'esc':
            e = PGPMessage.dash_escape(t)
            return PGPMessage.dash_unescape(e) != t or e != indep_escape(t) or d.call('esc', cp6(t)) != cp6(e) + ' ' + cp6(e)
        if op == 'unesc':
            return d.call('unesc', cp6(t)) != cp6(PGPMessage.dash_unescape(t))
        if op == 'canon':
            k0 = get('ed25519'); m0 = PGPMessage.new('x', cleartext=True); sig0 = k0.sign(m0, created=T0)
            hd = bytes(sig0.hashdata(t)); signed = hd[:len(hd) - len(sig0.hashdata(''))]
            cp, cr = d.call('canon', hx(t.encode('utf-8'))).split(' ')
            return hx(signed) != cp or cp != cr
        if op == 'flow':
            keys = {n: get(n) for n in case['signers']}
            sub = ReplayCtx(ctx)
            return one_flow(sub, pgpy, d, keys, t, case['signers'], case['hashes'], [tuple(x) for x in case['hdrs']], T0)
    finally:
        d.close()
    return True


class ReplayCtx:
    """a context that records failures without known-finding suppression"""
    def __init__(self, ctx): self.ctx = ctx
    def case(self, *a, **k): pass
    def fail(self, *a, **k): pass
