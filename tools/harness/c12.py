"""C12 correspondence + direct oracle: String2Key.derive_key / count / specifier wire form against the extracted model
(Model/S2K.v; H = hashlib through the primitive oracle) and against an independent pure-Python RFC 4880 3.7.1
implementation written here.  Counts up to 65 MB are run through the compressed-stream form of the model
(derive_sym, equal to derive by theorem C12_derive_sym_eq); small counts also through the concrete model and the
extracted RFC transcription."""
import hashlib, inspect

from .common import Driver, hx, unhx, hn, unhn, outcome, load_repo

# RFC 4880 9.4 hash ids -> hashlib names, 9.2 cipher ids -> key size in bits (independent of pgpy/constants.py)
HNAME = {1: 'md5', 2: 'sha1', 3: 'ripemd160', 8: 'sha256', 9: 'sha384', 10: 'sha512', 11: 'sha224'}
KEYBITS = {1: 128, 2: 192, 3: 128, 4: 128, 7: 128, 8: 192, 9: 256, 10: 256, 11: 128, 12: 192, 13: 256}
CONCRETE_MAX = 70000     # octets of stream the list-based extracted model is asked to build

DERIVE_KEY_SRC = """def derive_key(self, passphrase):
keylen = self.encalg.key_size
hashlen = self.halg.digest_size * 8
ctx = int(math.ceil((keylen / hashlen)))
hsalt = b''
if isinstance(passphrase, bytes):
hpass = passphrase
else:
hpass = passphrase.encode('utf-8')
if self.specifier >= String2KeyType.Salted:
hsalt = bytes(self.salt)
count = len(hsalt + hpass)
if self.specifier == String2KeyType.Iterated and self.count > len(hsalt + hpass):
count = self.count
hcount = (count // len(hsalt + hpass)) if len(hsalt + hpass) else 0
hleft = count - (hcount * len(hsalt + hpass))
hashdata = ((hsalt + hpass) * hcount) + (hsalt + hpass)[:hleft]
h = []
for i in range(0, ctx):
_h = self.halg.hasher
_h.update(b'\\x00' * i)
_h.update(hashdata)
h.append(_h)
del hsalt
del hpass
del hashdata
return b''.join(hc.digest() for hc in h)[:(keylen // 8)]"""


def norm_src(src):
    return '\n'.join(l.strip() for l in src.splitlines() if l.strip() and not l.strip().startswith('#'))


def utf8(s):
    """UTF-8 by hand (RFC 3629), so that the model's input does not come from str.encode"""
    out = bytearray()
    for ch in s:
        cp = ord(ch)
        if cp < 0x80:
            out.append(cp)
        elif cp < 0x800:
            out += bytes([0xC0 | cp >> 6, 0x80 | cp & 63])
        elif cp < 0x10000:
            out += bytes([0xE0 | cp >> 12, 0x80 | (cp >> 6) & 63, 0x80 | cp & 63])
        else:
            out += bytes([0xF0 | cp >> 18, 0x80 | (cp >> 12) & 63, 0x80 | (cp >> 6) & 63, 0x80 | cp & 63])
    return bytes(out)


def rfc_count(c):
    return (16 + c % 16) * 2 ** (c // 16 + 6)


def rfc_s2k_py(spec, hname, kb, salt, c, pw):
    """RFC 4880 3.7.1.1-3, streaming: contexts preloaded with 0,1,2.. zero octets, each fed the same octets"""
    hl = hashlib.new(hname).digest_size
    n = 0
    while n * hl < kb:
        n += 1
    if spec == 0:
        unit, total = pw, len(pw)
    elif spec == 1:
        unit, total = salt + pw, len(salt) + len(pw)
    else:
        unit = salt + pw
        total = max(rfc_count(c), len(unit))
    out = b''
    for i in range(n):
        h = hashlib.new(hname)
        h.update(b'\x00' * i)
        if unit:
            block = unit * max(1, 65536 // len(unit))      # a whole number of copies: the cyclic position stays aligned
            left = total
            while left > 0:
                take = min(left, len(block))
                h.update(block[:take])
                left -= take
        out += h.digest()
    return out[:kb]


class FakeAlg:
    """stands in for SymmetricKeyAlgorithm so that derive_key can be asked for key sizes no cipher has"""
    def __init__(self, bits):
        self.key_size = bits


def impl_derive(S2K, spec, halg, enc, salt, c, passphrase):
    s = S2K()
    s.usage = 254
    if isinstance(enc, tuple):
        s._encalg = FakeAlg(enc[1])
    else:
        s.encalg = enc
    s.specifier = spec
    s.halg = halg
    s.salt = bytearray(salt)
    s.count = c
    return bytes(s.derive_key(passphrase))


def keybits(enc):
    return enc[1] if isinstance(enc, tuple) else KEYBITS[enc]


def mk_oracles():
    def o_hash(a, h):
        return hashlib.new(HNAME[unhn(a)], unhx(h)).hexdigest()
    def o_hlen(a):
        return hn(hashlib.new(HNAME[unhn(a)]).digest_size)
    def o_hrep(a, i, sp, q, r):
        s = unhx(sp)
        h = hashlib.new(HNAME[unhn(a)])
        h.update(b'\x00' * int(i))
        h.update(s * unhn(q))
        h.update(s[:unhn(r)])
        return h.hexdigest()
    return {'hash': o_hash, 'hlen': o_hlen, 'hrep': o_hrep}


def check_case(ctx, d, S2K, case, suite, concrete=None):
    """one derivation: implementation vs model (compressed form; concrete + RFC transcription when small) vs the
    pure-Python RFC oracle.  returns True when something failed"""
    spec, halg, c = case['spec'], case['halg'], case['c']
    enc = ('bits', case['keybits']) if 'keybits' in case else case['encalg']
    salt = unhx(case['salt'])
    if case['pwkind'] == 'str':
        passphrase = case['pw']
        pwb = utf8(passphrase)
    else:
        pwb = unhx(case['pw'])
        passphrase = pwb
    kbits = keybits(enc)
    o = outcome(impl_derive, S2K, spec, halg, enc, salt, c, passphrase)
    impl = o[1].hex() if o[0] == 'ok' else 'raise ' + o[1]
    failed = False
    args = (hn(spec), hn(halg), hn(kbits), hx(salt), hn(c), hx(pwb))
    if d is not None:
        m = d.call('derive_sym', *args)
        failed |= not ctx.expect_eq(suite, 'derive_key differs from model', case, impl, m if m != '-' else '')
        streamlen = max(rfc_count(c), len(salt) + len(pwb)) if spec == 3 else len(salt) + len(pwb)
        if concrete is None:
            concrete = streamlen <= CONCRETE_MAX
        if concrete and streamlen <= CONCRETE_MAX:
            m2 = d.call('derive', *args)
            failed |= not ctx.expect_eq(suite, 'derive_key differs from the concrete (list) model', case, impl, m2 if m2 != '-' else '')
            if spec in (0, 1, 3) and kbits % 8 == 0:
                m3 = d.call('rfc', hn(spec), hn(halg), hn(kbits // 8), hx(salt), hn(c), hx(pwb))
                failed |= not ctx.expect_eq(suite, 'derive_key differs from the extracted RFC 4880 3.7.1 transcription', case, impl, m3 if m3 != '-' else '')
    if spec in (0, 1, 3):
        want = rfc_s2k_py(spec, HNAME[halg], kbits // 8, salt, c, pwb).hex()
        if impl != want:
            ctx.fail(suite, 'derived key is not the RFC 4880 3.7.1 key', dict(case, impl=impl[:80], rfc=want[:80]))
            failed = True
    return failed


def salts(rng, n):
    return [bytes(rng.randrange(256) for _ in range(8)) for _ in range(n)]


def gen_pw(rng, length, kind):
    """(pwkind, pw) of about `length` octets"""
    if kind == 'ascii':
        return 'str', ''.join(chr(rng.randrange(0x20, 0x7f)) for _ in range(length))
    if kind == 'utf8':
        out, n = [], 0
        while n < length:
            cp = rng.choice([rng.randrange(0x20, 0x7f), rng.randrange(0xa0, 0x800), rng.randrange(0x800, 0xd800),
                             rng.randrange(0xe000, 0x10000), rng.randrange(0x10000, 0x110000)])
            w = len(utf8(chr(cp)))
            if n + w > length:
                cp, w = 0x61, 1
            out.append(chr(cp)); n += w
        return 'str', ''.join(out)
    return 'bytes', hx(bytes(rng.randrange(256) for _ in range(length)))


def run(ctx):
    load_repo()
    from pgpy.packet.fields import String2Key
    d = Driver('c12', oracles=mk_oracles())
    try:
        _run(ctx, d, String2Key)
    finally:
        d.close()


def _run(ctx, d, S2K):
    from pgpy.constants import HashAlgorithm, SymmetricKeyAlgorithm, String2KeyType
    rng = ctx.rng
    # ---- ties without an input: the source text the model was written against, ids, key sizes ----
    if norm_src(inspect.getsource(S2K.derive_key)) != DERIVE_KEY_SRC:
        ctx.broken.append('pinned source text of String2Key.derive_key changed (Model/S2K.v derive_plan/derive were written against it)')
    for i, n in HNAME.items():
        if HashAlgorithm(i).name.lower() != n:
            ctx.broken.append('pinned constant HashAlgorithm(%d) is %s, expected %s' % (i, HashAlgorithm(i).name, n))
    for i, bits in KEYBITS.items():
        if SymmetricKeyAlgorithm(i).key_size != bits:
            ctx.broken.append('pinned constant SymmetricKeyAlgorithm(%d).key_size is %r, RFC 4880 9.2 says %d' % (i, SymmetricKeyAlgorithm(i).key_size, bits))
    if (int(String2KeyType.Simple), int(String2KeyType.Salted), int(String2KeyType.Iterated)) != (0, 1, 3):
        ctx.broken.append('pinned constant String2KeyType changed')
    hashes = []
    for i, n in sorted(HNAME.items()):
        try:
            hashlib.new(n); hashes.append(i)
        except Exception:
            ctx.skipped.append('hash %s not provided by the local OpenSSL' % n)

    # ---- 1. coded count: all 256 codes, getter vs model vs RFC formula ----
    for c in range(256):
        s = S2K(); s.count = c
        m = d.call('count', hn(c)).split(' ')
        ctx.case('count', c, sample={'c': c, 'impl': s.count})
        ctx.expect_eq('count', 'count getter differs from model', {'op': 'count', 'c': c}, hn(s.count), m[0])
        if s.count != rfc_count(c) or m[1] != hn(rfc_count(c)):
            ctx.fail('count', 'decoded count is not the RFC 4880 3.7.1.3 value', {'op': 'count', 'c': c, 'impl': s.count})
    # one specifier object, several counts in turn, a derivation after each: the key follows the count that is stored (and emitted) NOW
    s = S2K()
    seqc = [0x60, 0xff, 0x00, 0x60] + [ctx.rng.randrange(256) for _ in range(ctx.n(20, 200))]
    for i, c in enumerate(seqc):
        s.count = c
        ctx.case('count', ('same-object', i, c))
        if s.count != rfc_count(c):
            ctx.fail('count', 'count read from an object that held another coded count before is not the RFC value of the last one set',
                     {'op': 'count-seq', 'seq': seqc[:i + 1], 'impl': s.count}); break
    ctx.exhaustive.append('all 256 coded counts (decode)')

    # ---- 2. small streams: 3 specifiers x every hash x every cipher key size x passphrase shapes; concrete model + RFC transcription ----
    lens = [0, 1, 2, 7, 8, 9, 55, 56, 63, 64, 65, 119, 120, 121, 1015, 1016, 1017, 1024, 1025, 2000, 3999, 4000]
    encs = sorted(KEYBITS)
    n_rand = ctx.n(2, 12)
    for spec in (0, 1, 3):
        for halg in hashes:
            for enc in (encs if not ctx.quick else [2, 7, 9, rng.choice(encs)]):
                todo = [rng.choice(lens) for _ in range(n_rand)] + [rng.randrange(0, 4001) for _ in range(n_rand)] + ([0] if enc == 9 else [])
                for ln in todo:
                    kind, pw = gen_pw(rng, ln, rng.choice(['ascii', 'utf8', 'bytes']))
                    c = rng.choice([0, 1, 15, 16, 31, 32, 50, 64, 80, 95, 96])
                    case = {'op': 'derive', 'spec': spec, 'halg': halg, 'encalg': enc, 'salt': hx(salts(rng, 1)[0]), 'c': c, 'pwkind': kind, 'pw': pw}
                    check_case(ctx, d, S2K, case, 'derive-small')
                    ctx.case('derive-small', (spec, halg, enc, case['salt'], c, kind, pw[:64], len(pw)),
                             sample={k: (v if k != 'pw' else v[:40]) for k, v in case.items()})

    # ---- 3. every coded count (iterated), compressed stream; passphrases shorter and longer than the count ----
    sweep_hashes = hashes if not ctx.quick else [None]
    for hsel in sweep_hashes:
        for c in range(256):
            halg = hsel if hsel is not None else hashes[c % len(hashes)]
            enc = [9, 7, 8, 2, 13][(c // 7) % 5] if hsel is None else rng.choice(encs)
            ln = rng.choice([0, 1, 8, 20, 100, 1016, 1017, 1100, 2000, 4000]) if c < 64 else rng.choice([0, 5, 12, 33, 250, 4000])
            kind, pw = gen_pw(rng, ln, rng.choice(['ascii', 'utf8', 'bytes']))
            case = {'op': 'derive', 'spec': 3, 'halg': halg, 'encalg': enc, 'salt': hx(salts(rng, 1)[0]), 'c': c, 'pwkind': kind, 'pw': pw}
            check_case(ctx, d, S2K, case, 'derive-allcounts')
            ctx.case('derive-allcounts', (halg, enc, case['salt'], c, kind, pw[:64], len(pw)),
                     sample={k: (v if k != 'pw' else v[:40]) for k, v in case.items()})
    ctx.exhaustive.append('all 256 coded counts through derive_key (iterated specifier), %s' %
                          ('one hash per count, rotating over the 7 hashes' if ctx.quick else 'for each of the 7 hashes'))

    # ---- 4. key sizes no cipher has (64..512 bits: one to four contexts, also sizes that are not a multiple of the digest) ----
    for halg in hashes:
        for bits in (range(64, 513, 8) if not ctx.quick else list(range(64, 513, 64)) + [rng.randrange(8, 65) * 8 for _ in range(3)]):
            spec = rng.choice([0, 1, 3])
            kind, pw = gen_pw(rng, rng.choice([0, 3, 20, 200, 1500]), rng.choice(['ascii', 'utf8', 'bytes']))
            case = {'op': 'derive', 'spec': spec, 'halg': halg, 'keybits': bits, 'salt': hx(salts(rng, 1)[0]), 'c': rng.choice([0, 17, 96]),
                    'pwkind': kind, 'pw': pw}
            check_case(ctx, d, S2K, case, 'derive-keysizes')
            ctx.case('derive-keysizes', (spec, halg, bits, case['salt'], case['c'], kind, pw[:64], len(pw)),
                     sample={k: (v if k != 'pw' else v[:40]) for k, v in case.items()})

    # ---- 5. corners: empty passphrase for every specifier (F6 regression), salts of other lengths, the reserved specifier ----
    for halg in hashes:
        for spec in (0, 1, 3):
            case = {'op': 'derive', 'spec': spec, 'halg': halg, 'encalg': 9, 'salt': hx(salts(rng, 1)[0]), 'c': 96, 'pwkind': 'str', 'pw': ''}
            check_case(ctx, d, S2K, case, 'derive-empty')
            ctx.case('derive-empty', (spec, halg, case['salt']), sample=case)
        old = d.call('derive_old', '0', hn(halg), hn(256), '-', '0', '-')
        if old != 'ERR':
            ctx.fail('regression', 'F6 witness: the pre-repair model should raise for simple S2K with an empty passphrase', {'op': 'derive_old', 'halg': halg, 'model': old})
        o = outcome(impl_derive, S2K, 0, halg, 9, b'', 0, '')
        hl = hashlib.new(HNAME[halg]).digest_size
        if o != ('ok', b''.join(hashlib.new(HNAME[halg], b'\x00' * i).digest() for i in range(-(-32 // hl)))[:32]):
            ctx.fail('derive-empty', 'simple S2K, empty passphrase: not H("") truncated', {'op': 'derive', 'spec': 0, 'halg': halg, 'encalg': 9, 'salt': '-', 'c': 0, 'pwkind': 'str', 'pw': '', 'impl': repr(o)[:100]})
        for slen in (0, 1, 7, 9, 16):
            for spec in (1, 3):
                kind, pw = gen_pw(rng, rng.choice([0, 4, 30]), 'bytes')
                case = {'op': 'derive', 'spec': spec, 'halg': halg, 'encalg': rng.choice(encs), 'salt': hx(bytes(rng.randrange(256) for _ in range(slen))),
                        'c': rng.choice([0, 40]), 'pwkind': kind, 'pw': pw}
                check_case(ctx, d, S2K, case, 'derive-saltlen')
                ctx.case('derive-saltlen', (spec, halg, case['encalg'], case['salt'], case['c'], pw), sample=case)
        kind, pw = gen_pw(rng, 12, 'ascii')
        case = {'op': 'derive', 'spec': 2, 'halg': halg, 'encalg': 7, 'salt': hx(salts(rng, 1)[0]), 'c': 10, 'pwkind': kind, 'pw': pw}
        check_case(ctx, d, S2K, case, 'derive-reserved-spec')     # model only: RFC gives no meaning to specifier 2
        ctx.case('derive-reserved-spec', (halg, case['salt'], pw), sample=case)

    # ---- 6. what is stored with the key / message: specifier octets (RFC 4880 3.7.1, 3.7.2.1) and back ----
    from pgpy.constants import SymmetricKeyAlgorithm as SA
    for _ in range(ctx.n(150, 2000)):
        spec = rng.choice([0, 1, 3]); halg = rng.choice(hashes); enc = rng.choice([2, 3, 4, 7, 8, 9, 11, 12, 13]); c = rng.randrange(256)
        salt = salts(rng, 1)[0]
        iv = bytes(rng.randrange(256) for _ in range(SA(enc).block_size // 8))
        s = S2K(); s.usage = rng.choice([254, 255]); s.encalg = enc; s.specifier = spec; s.halg = halg; s.salt = bytearray(salt); s.count = c; s.iv = bytearray(iv)
        want = bytes([s.usage, enc, spec, halg]) + (salt if spec >= 1 else b'') + (bytes([c]) if spec == 3 else b'') + iv
        got = bytes(s.__bytearray__())
        case = {'op': 'wire', 'usage': s.usage, 'encalg': enc, 'spec': spec, 'halg': halg, 'salt': salt.hex(), 'c': c, 'iv': iv.hex()}
        ctx.case('specifier-wire', tuple(case.values()), sample=case)
        if got != want:
            ctx.fail('specifier-wire', 'S2K specifier octets are not the RFC 4880 3.7.1 layout', dict(case, impl=got.hex(), rfc=want.hex()))
            continue
        tail = b'\x01\x02\x03'
        buf = bytearray(got + tail)
        s2 = S2K(); o = outcome(s2.parse, buf)
        pw = 'wire ' + str(c)
        if o[0] != 'ok' or bytes(buf) != tail or bytes(s2.__bytearray__()) != got or \
                outcome(lambda: bytes(s2.derive_key(pw))) != outcome(lambda: bytes(s.derive_key(pw))) or \
                (spec == 3 and s2.count != rfc_count(c)):
            ctx.fail('specifier-wire', 'S2K specifier does not parse back to the same derivation', dict(case, impl=repr(o)))

    # ---- 7. GnuPG as a second opinion on the RFC reading (notes only) ----
    gpg_crosscheck(ctx, rng, ctx.n(6, 60))


def gpg_crosscheck(ctx, rng, n):
    """validation aid for the RFC reading (never a condition for passing): GnuPG encrypts with a passphrase under random
    S2K parameters, PGPy must decrypt, i.e. derive the same key; results are recorded as notes"""
    import os, shutil, subprocess, tempfile, warnings
    load = load_repo()
    gpg = shutil.which('gpg')
    if not gpg:
        ctx.skipped.append('gpg not installed: no GnuPG cross-check of the S2K reading')
        return
    tmp = tempfile.mkdtemp(prefix='c12gpg')
    os.chmod(tmp, 0o700)
    ok, bad, refused = 0, [], 0
    try:
        for _ in range(n):
            mode = rng.choice([0, 1, 3, 3])
            digest = rng.choice(['MD5', 'SHA1', 'RIPEMD160', 'SHA224', 'SHA256', 'SHA384', 'SHA512'])
            cipher = rng.choice(['AES', 'AES192', 'AES256', '3DES', 'CAST5', 'BLOWFISH', 'CAMELLIA128', 'CAMELLIA192', 'CAMELLIA256'])
            cnt = rfc_count(rng.randrange(256))
            kind, pw = gen_pw(rng, rng.choice([1, 5, 12, 40, 200]), rng.choice(['ascii', 'utf8']))
            pw = pw.replace('\x00', 'a')
            pt = bytes(rng.randrange(32, 127) for _ in range(rng.randrange(1, 60)))
            with open(os.path.join(tmp, 'pt'), 'wb') as f:
                f.write(pt)
            cmd = [gpg.encode(), b'--homedir', tmp.encode(), b'--batch', b'--no-tty', b'--yes', b'--pinentry-mode', b'loopback',
                   b'--passphrase', utf8(pw), b'--s2k-mode', str(mode).encode(), b'--s2k-digest-algo', digest.encode(),
                   b'--s2k-count', str(cnt).encode(), b'--cipher-algo', cipher.encode(), b'--allow-old-cipher-algos',
                   b'-o', os.path.join(tmp, 'ct').encode(), b'--symmetric', os.path.join(tmp, 'pt').encode()]
            try:
                r = subprocess.run(cmd, stdout=subprocess.PIPE, stderr=subprocess.PIPE, timeout=60)
                if r.returncode != 0:
                    cmd.remove(b'--allow-old-cipher-algos')
                    r = subprocess.run(cmd, stdout=subprocess.PIPE, stderr=subprocess.PIPE, timeout=60)
            except Exception:
                refused += 1
                continue
            if r.returncode != 0:
                refused += 1
                continue
            with warnings.catch_warnings():
                warnings.simplefilter('ignore')
                o = outcome(lambda: bytes(load.PGPMessage.from_file(os.path.join(tmp, 'ct')).decrypt(pw).message))
            if o == ('ok', pt):
                ok += 1
            else:
                bad.append({'mode': mode, 'digest': digest, 'cipher': cipher, 'count': cnt, 'pw': pw[:40], 'impl': repr(o)[:80]})
        # the other direction: PGPy encrypts with a passphrase (iterated+salted, count 255), gpg must decrypt
        from pgpy.constants import HashAlgorithm as HA, SymmetricKeyAlgorithm as SA
        ok2, bad2 = 0, []
        for _ in range(max(2, n // 3)):
            hname = rng.choice(['SHA1', 'SHA256', 'SHA384', 'SHA512', 'SHA224', 'RIPEMD160', 'MD5'])
            cname = rng.choice(['AES128', 'AES192', 'AES256', 'CAST5', 'Camellia256'])
            kind, pw = gen_pw(rng, rng.choice([1, 9, 30, 120]), rng.choice(['ascii', 'utf8']))
            pw = pw.replace('\x00', 'a')
            pt = bytes(rng.randrange(32, 127) for _ in range(rng.randrange(1, 60)))
            with warnings.catch_warnings():
                warnings.simplefilter('ignore')
                o = outcome(lambda: bytes(load.PGPMessage.new(pt, compression=0).encrypt(pw, cipher=getattr(SA, cname), hash=getattr(HA, hname))))
            if o[0] != 'ok':
                bad2.append({'hash': hname, 'cipher': cname, 'impl': repr(o)[:80]})
                continue
            with open(os.path.join(tmp, 'ct2'), 'wb') as f:
                f.write(o[1])
            try:
                r = subprocess.run([gpg.encode(), b'--homedir', tmp.encode(), b'--batch', b'--no-tty', b'--yes', b'--pinentry-mode', b'loopback',
                                    b'--passphrase', utf8(pw), b'--decrypt', os.path.join(tmp, 'ct2').encode()],
                                   stdout=subprocess.PIPE, stderr=subprocess.PIPE, timeout=60)
            except Exception:
                refused += 1
                continue
            if r.returncode == 0 and r.stdout == pt:
                ok2 += 1
            else:
                bad2.append({'hash': hname, 'cipher': cname, 'pw': pw[:40], 'gpg': r.stderr.decode('latin-1')[-120:]})
    finally:
        shutil.rmtree(tmp, ignore_errors=True)
    ctx.notes.append('GnuPG cross-check (aid, not a condition): %d passphrase-encrypted messages made by gpg with random S2K mode/digest/count/cipher '
                     'decrypted by PGPy, %d not decrypted %s, %d refused by gpg; %d messages passphrase-encrypted by PGPy decrypted by gpg, %d not %s'
                     % (ok, len(bad), bad[:3] if bad else '', refused, ok2, len(bad2), bad2[:3] if bad2 else ''))


def replay(ctx, case):
    load_repo()
    from pgpy.packet.fields import String2Key
    ctx.broken = getattr(ctx, 'broken', [])
    try:
        d = Driver('c12', oracles=mk_oracles())
    except Exception:
        d = None
    before = len(ctx.violations) + len(ctx.known_hit)
    try:
        op = case.get('op')
        if op == 'count-seq':
            s2 = String2Key(); last = None
            for c in case['seq']:
                s2.count = c; last = (c, s2.count)
            return last[1] != rfc_count(last[0])
        if op == 'derive':
            c = {k: v for k, v in case.items() if k not in ('impl', 'model', 'rfc')}
            check_case(ctx, d, String2Key, c, 'replay')
        elif op == 'count':
            s = String2Key(); s.count = case['c']
            if s.count != rfc_count(case['c']):
                return True
        elif op == 'wire':
            s = String2Key(); s.usage = case['usage']; s.encalg = case['encalg']; s.specifier = case['spec']; s.halg = case['halg']
            s.salt = bytearray(bytes.fromhex(case['salt'])); s.count = case['c']; s.iv = bytearray(bytes.fromhex(case['iv']))
            salt, iv = bytes.fromhex(case['salt']), bytes.fromhex(case['iv'])
            want = bytes([case['usage'], case['encalg'], case['spec'], case['halg']]) + (salt if case['spec'] >= 1 else b'') + \
                (bytes([case['c']]) if case['spec'] == 3 else b'') + iv
            if bytes(s.__bytearray__()) != want:
                return True
            s2 = String2Key(); buf = bytearray(want)
            if outcome(s2.parse, buf)[0] != 'ok' or bytes(s2.__bytearray__()) != want:
                return True
    finally:
        if d is not None:
            d.close()
    return len(ctx.violations) + len(ctx.known_hit) > before
