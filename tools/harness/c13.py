"""C13 correspondence + direct oracles: every operation draws fresh secret randomness of the right size.

The process random source is interposed FROM THE HARNESS (monkey patch of os.urandom, X25519PrivateKey.generate and
ec.generate_private_key; no source change).  Per operation the observed draws (purpose from the calling frames, size, position in
the process-wide sequence) are compared with the trace of the extracted model (Model/Fresh.v); the values are then followed
into the output: salts / IVs / ephemeral points are read back from the exported packets, the session key and the prefix are
confirmed by decrypting the SEIPD packet with `cryptography` directly, and nothing secret may occur in the clear.
PARTIAL by nature: the quality of the OS / OpenSSL generator (and the RSA PKCS#1 padding randomness drawn inside OpenSSL) is
outside any model; what is checked is that the code asks for fresh values of the right size and uses them where it should."""
import hashlib, inspect, os, sys, warnings

from .common import Driver, hx, unhx, hn, unhn, load_repo
from . import keys as keypool

KEYLEN = {2: 24, 3: 16, 4: 16, 7: 16, 8: 24, 9: 32, 11: 16, 12: 24, 13: 32}
BLOCK = {2: 8, 3: 8, 4: 8, 7: 16, 8: 16, 9: 16, 11: 16, 12: 16, 13: 16}
CIPHERS = sorted(KEYLEN)
REFUSED = {0: [], 1: [8, 8], 10: [16, 8]}     # protect with Plaintext / IDEA / Twofish256 raises; sizes of what was drawn before it did


def _cipher(alg, key, iv):
    from cryptography.hazmat.primitives.ciphers import Cipher, algorithms, modes
    try:
        from cryptography.hazmat.decrepit.ciphers import algorithms as old
    except Exception:
        old = algorithms
    table = {2: getattr(old, 'TripleDES', None) or getattr(algorithms, 'TripleDES', None), 3: getattr(old, 'CAST5', None),
             4: getattr(old, 'Blowfish', None), 7: algorithms.AES, 8: algorithms.AES, 9: algorithms.AES,
             11: algorithms.Camellia, 12: algorithms.Camellia, 13: algorithms.Camellia}
    return Cipher(table[alg](key), modes.CFB(iv))


def split_packets(data):
    """[(tag, body)] of an OpenPGP packet sequence (old and new format, partial lengths)"""
    out, i = [], 0
    while i < len(data):
        t = data[i]; i += 1
        if t & 0x40:
            tag, body = t & 0x3f, b''
            while True:
                o = data[i]; i += 1
                if o < 192: ln, part = o, False
                elif o < 224: ln, part = ((o - 192) << 8) + data[i] + 192, False; i += 1
                elif o < 255: ln, part = 1 << (o & 31), True
                else: ln, part = int.from_bytes(data[i:i + 4], 'big'), False; i += 4
                body += data[i:i + ln]; i += ln
                if not part: break
        else:
            tag, lt = (t >> 2) & 15, t & 3
            if lt == 3: ln = len(data) - i
            else:
                w = (1, 2, 4)[lt]; ln = int.from_bytes(data[i:i + w], 'big'); i += w
            body = data[i:i + ln]; i += ln
        out.append((tag, body))
    return out


class Source:
    """the interposed random source: every draw is (purpose, size, value, public value or None)"""

    def __init__(self):
        self.draws = []

    def _purpose(self):
        f, chain = sys._getframe(2), []
        while f is not None and len(chain) < 10:
            slf = f.f_locals.get('self')
            chain.append((f.f_code.co_name, type(slf).__name__ if slf is not None else ''))
            f = f.f_back
        for i, (fn, cls) in enumerate(chain):
            if fn == 'gen_key' and cls == 'SymmetricKeyAlgorithm':
                return 'K'
            if fn == 'gen_iv' and cls == 'SymmetricKeyAlgorithm':
                nxt = chain[i + 1] if i + 1 < len(chain) else ('', '')
                if nxt == ('encrypt', 'IntegrityProtectedSKEDataV1'):
                    return 'P'
                if nxt[0] == 'encrypt_keyblob':
                    return 'I'
                return '?'
            if fn == 'encrypt_sk' and cls == 'SKESessionKeyV4' and i == 0:
                return 'S'
            if fn == 'encrypt_keyblob' and i == 0:
                return 'S'
        return '?'

    def __enter__(self):
        from cryptography.hazmat.primitives.asymmetric import ec, x25519
        from cryptography.hazmat.primitives import serialization as ser
        self.ec, self.x = ec, x25519
        self.real_urandom, self.real_ec, self.real_x = os.urandom, ec.generate_private_key, x25519.X25519PrivateKey.__dict__['generate']
        src = self

        def urandom(n):
            b = src.real_urandom(n)
            src.draws.append((src._purpose(), len(b), b, None))
            return b

        def gen_ec(curve, backend=None):
            k = src.real_ec(curve, backend)
            n = (curve.key_size + 7) // 8
            pn = k.public_key().public_numbers()
            src.draws.append(('E', n, k.private_numbers().private_value.to_bytes(n, 'big'),
                              b'\x04' + pn.x.to_bytes(n, 'big') + pn.y.to_bytes(n, 'big')))
            return k
        realx = x25519.X25519PrivateKey.generate

        def gen_x():
            k = realx()
            src.draws.append(('E', 32, k.private_bytes_raw(), b'\x40' + k.public_key().public_bytes_raw()))
            return k
        os.urandom = urandom
        ec.generate_private_key = gen_ec
        x25519.X25519PrivateKey.generate = staticmethod(gen_x)
        return self

    def __exit__(self, *a):
        os.urandom = self.real_urandom
        self.ec.generate_private_key = self.real_ec
        self.x.X25519PrivateKey.generate = self.real_x


def source_digests():
    from pgpy.constants import SymmetricKeyAlgorithm
    from pgpy.packet.packets import SKESessionKeyV4, IntegrityProtectedSKEDataV1, PKESessionKeyV3
    from pgpy.packet.fields import PrivKey, ECDHCipherText
    from pgpy.pgp import PGPKey, PGPMessage
    objs = {'SymmetricKeyAlgorithm.gen_iv': SymmetricKeyAlgorithm.gen_iv, 'SymmetricKeyAlgorithm.gen_key': SymmetricKeyAlgorithm.gen_key,
            'SKESessionKeyV4.encrypt_sk': SKESessionKeyV4.encrypt_sk, 'PKESessionKeyV3.encrypt_sk': PKESessionKeyV3.encrypt_sk,
            'IntegrityProtectedSKEDataV1.encrypt': IntegrityProtectedSKEDataV1.encrypt,
            'PrivKey.encrypt_keyblob': PrivKey.encrypt_keyblob, 'ECDHCipherText.encrypt': ECDHCipherText.encrypt.__func__,
            'PGPMessage.encrypt': PGPMessage.encrypt, 'PGPKey.encrypt': PGPKey.encrypt}
    out = {}
    for n, o in objs.items():
        o = getattr(o, '__wrapped__', o)
        out[n] = hashlib.sha256(inspect.getsource(o).encode()).hexdigest()[:12]
    return out


PINNED = {
    'SymmetricKeyAlgorithm.gen_iv': 'd3393f115bdc',
    'SymmetricKeyAlgorithm.gen_key': 'f5c6f11099e3',
    'SKESessionKeyV4.encrypt_sk': 'b931304baacf',     # 29ef9ad: length guard on the supplied session key BEFORE the salt is drawn (sk_fits)
    'PKESessionKeyV3.encrypt_sk': '170b82b3f592',
    'IntegrityProtectedSKEDataV1.encrypt': '4df5ab8ae793',
    'PrivKey.encrypt_keyblob': 'b02856ec5aa4',        # a3ce830: IV / salt drawn into a String2Key built on the side; same calls, order, sizes
    'ECDHCipherText.encrypt': '74f84571eafe',
    'PGPMessage.encrypt': '9fd8589aa954',
    'PGPKey.encrypt': 'cc46eba4b9a9',                 # 1d6dbd1: which identity's preferences are read (user attribute when no user id); no draw moved
}


class Seq:
    """one sequence of operations in this process, on implementation and model"""

    def __init__(self, ctx, d, pgpy, suite, state):
        self.ctx, self.d, self.pgpy, self.suite, self.state = ctx, d, pgpy, suite, state

    def impl_op(self, o, keys):
        """returns (draws, output octets, extra dict)"""
        pgpy = self.pgpy
        from pgpy.constants import SymmetricKeyAlgorithm, HashAlgorithm
        c = o['cipher']
        sk = bytes.fromhex(o['sk']) if o.get('sk') else None
        with warnings.catch_warnings():
            warnings.simplefilter('ignore')
            if o['op'] in ('EP', 'EK'):
                if o.get('sameobj') and getattr(self, 'last_msg', None) is not None and self.last_msg[0] == o['msg']:
                    msg = self.last_msg[1]          # the very same PGPMessage object as in the previous operation
                else:
                    msg = pgpy.PGPMessage.new(o['msg'], compression=0)
                self.last_msg = (o['msg'], msg)
                if o.get('enc'):
                    msg = msg.encrypt('inner passphrase', cipher=SymmetricKeyAlgorithm.AES128)   # outside the observed window
            if o['op'] == 'PR':
                key = keypool.get(o['rcpt'])
                if o.get('reprotect'):
                    # an already protected key (outside the observed window): protected in this process, or loaded from a protected export
                    _h = HashAlgorithm(8); _old = _h._tuned_count; _h._tuned_count = 96
                    try:
                        key.protect('old passphrase', SymmetricKeyAlgorithm(o.get('oldcipher', 9)), _h)
                    finally:
                        _h._tuned_count = _old
                    if o['reprotect'] == 'loaded':
                        key = pgpy.PGPKey.from_blob(bytes(key))[0]
                o['_key'] = key
            with Source() as src:
                # an operation that raises is an outcome (res None, out = the exception name), never a harness crash
                try:
                    if o['op'] == 'EP':
                        out = msg.encrypt(o['pw'], cipher=SymmetricKeyAlgorithm(c), sessionkey=sk)
                        res = bytes(out)
                    elif o['op'] == 'EK':
                        out = keys[o['rcpt']].pubkey.encrypt(msg, cipher=SymmetricKeyAlgorithm(c), sessionkey=sk)
                        res = bytes(out)
                    else:
                        key = o.get('_key')
                        h = HashAlgorithm(o['halg'])
                        old = h._tuned_count
                        h._tuned_count = o['count']
                        try:
                            if o.get('reprotect'):
                                with key.unlock('old passphrase'):
                                    key.protect(o['pw'], SymmetricKeyAlgorithm(c), h)
                            else:
                                key.protect(o['pw'], SymmetricKeyAlgorithm(c), h)
                        finally:
                            h._tuned_count = old
                        res = bytes(key)
                        out = key
                except Exception as ex:
                    res, out = None, type(ex).__name__
        o.pop('_key', None)
        return src.draws, res, out

    def model_op(self, o, keys):
        c = o['cipher']
        if o['op'] == 'EP':
            return 'EP,%s,%s,%d,%s,%s' % (hn(c), o.get('sk') or 'N', 1 if o.get('enc') else 0, hx(o['pw'].encode()), hx(o['msg'].encode()))
        if o['op'] == 'EK':
            return 'EK,%s,%s,%d,%s,%d,%s' % (hn(c), KINDS[o['rcpt']], sorted(KINDS).index(o['rcpt']), o.get('sk') or 'N',
                                              1 if o.get('enc') else 0, hx(o['msg'].encode()))
        return 'PR,%s,%d,%s' % (hn(c), 1 + len(keypool.SPECS[o['rcpt']][2]), hx(o['pw'].encode()))

    def run(self, ops, keys):
        """guarded: an exception where the harness does not expect one (e.g. an output that is not a packet sequence) is a recorded
        failing case, never a harness crash"""
        try:
            return self._run(ops, keys)
        except Exception as ex:
            self.ctx.fail(self.suite, 'sequence could not be followed: %s' % type(ex).__name__,
                          {'ops': [{k: v for k, v in o.items() if k != '_key'} for o in ops], 'error': repr(ex)[:300]})
            return False

    def _run(self, ops, keys):
        ctx, st = self.ctx, self.state
        case = {'ops': ops}
        start = st['n']
        ans = self.d.call('trace', start, ';'.join(self.model_op(o, keys) for o in ops)).split(';')
        ok = True
        for o, m in zip(ops, ans[:-1]):
            mtrace, mexposed, mgiven, mouts = m.split('|')
            draws, res, obj = self.impl_op(o, keys)
            raised = res is None
            itrace = ','.join('%s:%s:%d' % (p, hn(sz), st['n'] + i) for i, (p, sz, v, pub) in enumerate(draws)) or '-'
            cells = {st['n'] + i: dr for i, dr in enumerate(draws)}
            st['n'] += len(draws)
            c = o['cipher']
            # refusals straight from the repaired code's contract (not via the model): a supplied session key of the wrong length
            # is refused before anything is drawn (29ef9ad); a protect with a cipher PGPy cannot encrypt with raises
            if o['op'] in ('EP', 'EK') and o.get('sk') and len(bytes.fromhex(o['sk'])) != KEYLEN[c]:
                if not raised:
                    ctx.fail(self.suite, 'supplied session key of the wrong length accepted', dict(case, op=o)); ok = False
                if draws:
                    ctx.fail(self.suite, 'a refused encryption drew randomness', dict(case, op=o, sizes=[d_[1] for d_ in draws])); ok = False
            elif o['op'] == 'PR' and c in REFUSED:
                if not raised:
                    ctx.fail(self.suite, 'protect with a cipher PGPy cannot encrypt with did not raise', dict(case, op=o)); ok = False
                if [d_[1] for d_ in draws] != REFUSED[c]:
                    ctx.fail(self.suite, 'draws of a refused protect', dict(case, op=o, sizes=[d_[1] for d_ in draws], want=REFUSED[c])); ok = False
            elif raised:
                ctx.fail(self.suite, 'operation raised %s' % obj, dict(case, op=o)); ok = False
            if itrace != mtrace:
                ctx.fail(self.suite, 'draws of the operation (purpose:size:position) differ from the model trace',
                         dict(case, op=o, impl=itrace, model=mtrace))
                return False
            # carried out or refused: the model has an output exactly when the implementation does not raise
            if raised != (mouts == '0'):
                ctx.fail(self.suite, 'operation %s, the model says it %s' % ('raised ' + str(obj) if raised else 'was carried out',
                                                                            'is refused' if mouts == '0' else 'is carried out'),
                         dict(case, op=o)); ok = False
            # sizes straight from the property statement (not via the model)
            c = o['cipher']
            for p, sz, v, pub in draws:
                want = {'K': KEYLEN.get(c), 'P': BLOCK.get(c), 'I': BLOCK.get(c, {1: 8, 10: 16}.get(c)), 'S': 8}.get(p)
                if want is not None and sz != want:
                    ctx.fail(self.suite, 'draw of the wrong size', dict(case, op=o, purpose=p, size=sz, want=want)); ok = False
            # exposure: a drawn value occurs in the output in the clear iff the model says its cell is exposed
            exp = set(int(x) for x in mexposed.split(',')) if mexposed != '-' else set()
            for cell, (p, sz, v, pub) in cells.items():
                if raised:
                    break           # no output to look into (the model exposes nothing either: mexposed is '-')
                if (v in res) != (cell in exp):
                    ctx.fail(self.suite, 'drawn value %s in the output, model says %s' % ('occurs' if v in res else 'does not occur',
                                                                                           'exposed' if cell in exp else 'hidden'),
                             dict(case, op=o, purpose=p)); ok = False
                if p in ('K', 'P', 'E') and v in res:
                    ctx.fail(self.suite, 'secret random value in the clear in the output', dict(case, op=o, purpose=p)); ok = False
            if raised and mexposed != '-':
                ctx.fail(self.suite, 'model exposes cells of an operation without output', dict(case, op=o)); ok = False
            if not raised and o.get('sk') and bytes.fromhex(o['sk']) in res:
                ctx.fail(self.suite, 'supplied session key in the clear in the output', dict(case, op=o)); ok = False
            if mgiven != '-':
                ctx.fail(self.suite, 'model exposes the supplied key', dict(case, op=o)); ok = False
            # not derived from the inputs
            inputs = [o.get('msg', '').encode(), o.get('pw', '').encode()]
            for p, sz, v, pub in draws:
                if any(v in x for x in inputs if x):
                    ctx.fail(self.suite, 'drawn value is a substring of the message / passphrase', dict(case, op=o, purpose=p)); ok = False
            # process-wide freshness
            for p, sz, v, pub in draws:
                if sz >= 8:
                    if v in st['seen']:
                        ctx.fail(self.suite, 'random value used twice in one process', dict(case, op=o, purpose=p, first=st['seen'][v])); ok = False
                    st['seen'][v] = o['op'] + ':' + p
                if len(set(v)) == 1 and sz >= 8:
                    ctx.fail(self.suite, 'constant random value', dict(case, op=o, purpose=p)); ok = False
            if raised:
                continue
            ok = self.placement(o, draws, res, obj, case) and ok
            if res in st['outputs']:
                ctx.fail(self.suite, 'two operations produced identical output', dict(case, op=o)); ok = False
            st['outputs'].add(res)
        if int(ans[-1]) != st['n']:
            ctx.fail(self.suite, 'number of draws differs from the model', dict(case, impl=st['n'], model=ans[-1])); ok = False
        return ok

    def placement(self, o, draws, res, obj, case):
        """follow the drawn values into the exported packets"""
        ctx, st, ok = self.ctx, self.state, True
        c = o['cipher']
        by = {}
        for p, sz, v, pub in draws:
            by.setdefault(p, []).append((v, pub))
        if o['op'] in ('EP', 'EK'):
            pk = split_packets(res)
            sk = bytes.fromhex(o['sk']) if o.get('sk') else (by['K'][0][0] if 'K' in by else None)
            if o['op'] == 'EP':
                sk3 = [b for t, b in pk if t == 3]
                salt = by['S'][0][0]
                if not any(b[:1] == b'\x04' and b[1] == c and b[2] == 3 and b[4:12] == salt for b in sk3):
                    ctx.fail(self.suite, 'SKESK salt in the output is not the drawn salt', dict(case, op=o)); ok = False
                if salt in st['salts']:
                    ctx.fail(self.suite, 'salt read back from the packet repeats', dict(case, op=o)); ok = False
                st['salts'].add(salt)
            else:
                p1 = [b for t, b in pk if t == 1]
                if KINDS[o['rcpt']] != 'R':
                    b = p1[-1]
                    bits = int.from_bytes(b[10:12], 'big')
                    point = b[12:12 + (bits + 7) // 8]
                    if point != by['E'][0][1]:
                        ctx.fail(self.suite, 'ephemeral point in the PKESK is not the generated one', dict(case, op=o)); ok = False
                    if point in st['points']:
                        ctx.fail(self.suite, 'ephemeral point read back from the packet repeats', dict(case, op=o)); ok = False
                    st['points'].add(point)
            if not o.get('enc'):
                body = [b for t, b in pk if t == 18][0]
                dec = _cipher(c, sk, b'\x00' * BLOCK[c]).decryptor()
                pt = dec.update(body[1:]) + dec.finalize()
                bs = BLOCK[c]
                pre = by['P'][0][0]
                if pt[:bs] != pre or pt[bs:bs + 2] != pre[-2:]:
                    ctx.fail(self.suite, 'SEIPD does not start with the drawn prefix (+ repeated octets) under the session key',
                             dict(case, op=o)); ok = False
                if pt[-22:] != b'\xd3\x14' + hashlib.sha1(pt[:-20]).digest():
                    ctx.fail(self.suite, 'SEIPD not decryptable with the session key the operation drew / was given', dict(case, op=o)); ok = False
                if o['msg'].encode() not in pt:
                    ctx.fail(self.suite, 'harness: message not found in the decrypted SEIPD', dict(case, op=o)); ok = False
        else:
            kms = [obj._key.keymaterial] + [s._key.keymaterial for s in obj.subkeys.values()]
            ivs, salts = by.get('I', []), by.get('S', [])
            for i, km in enumerate(kms):
                iv, salt = ivs[i][0], salts[i][0]
                if bytes(km.s2k.iv) != iv or bytes(km.s2k.salt) != salt:
                    ctx.fail(self.suite, 'S2K IV / salt of the key packet are not the drawn ones', dict(case, op=o, packet=i)); ok = False
                if salt + bytes([o['count']]) + iv not in res:
                    ctx.fail(self.suite, 'salt, count, IV not found in the exported key packet', dict(case, op=o, packet=i)); ok = False
                if salt in st['salts'] or iv in st['ivs']:
                    ctx.fail(self.suite, 'salt / IV read back from the key packet repeats', dict(case, op=o)); ok = False
                st['salts'].add(salt); st['ivs'].add(iv)
        return ok


KINDS = {'rsa2048': 'R', 'ed25519': 'E20', 'p256': 'E20', 'p384': 'E30', 'p521': 'E42', 'secp256k1': 'E20'}


def gen_ops(rng, rcpts, n, text=None):
    ops = []
    for _ in range(n):
        r = rng.random()
        c = rng.choice(CIPHERS)
        msg = text or ''.join(rng.choice('abcdefghij \n') for _ in range(rng.randrange(1, 200)))
        sk = bytes(rng.randrange(256) for _ in range(KEYLEN[c])).hex() if rng.random() < 0.25 else None
        if sk and rng.random() < 0.2:       # a supplied session key of the wrong length: refused, nothing drawn
            sk = sk[:-2] if rng.random() < 0.5 else sk + '%02x' % rng.randrange(256)
        if ops and rng.random() < 0.25:
            ops.append(dict(ops[-1]))                  # the identical operation again
        elif r < 0.35:
            ops.append({'op': 'EP', 'cipher': c, 'pw': rng.choice(['pw', 'pässwörd', 'x' * 60]), 'msg': msg, 'sk': sk, 'enc': rng.random() < 0.1})
        elif r < 0.8:
            ops.append({'op': 'EK', 'cipher': c, 'rcpt': rng.choice(rcpts), 'msg': msg, 'sk': sk, 'enc': False})
        else:
            ops.append({'op': 'PR', 'cipher': c if rng.random() < 0.85 else rng.choice(sorted(REFUSED)), 'rcpt': rng.choice(rcpts + ['dsa2048']),
                        'pw': 'pw', 'halg': rng.choice([2, 8, 10]), 'count': rng.choice([0, 16, 96])})
    return ops


def run(ctx):
    pgpy = load_repo()
    d = Driver('c13')
    try:
        _run(ctx, d, pgpy)
    finally:
        d.close()


def _run(ctx, d, pgpy):
    from pgpy.constants import SymmetricKeyAlgorithm
    rng = ctx.rng
    dig = source_digests()
    for n, want in PINNED.items():
        if dig.get(n) != want:
            ctx.broken.append('pinned source text of %s changed (sha256[:12] %s, model written against %s)' % (n, dig.get(n), want))
    # size tables of the model = size tables of the implementation (every cipher PGPy can encrypt with)
    for c in CIPHERS:
        a = SymmetricKeyAlgorithm(c)
        ctx.expect_eq('size-tables', 'key / block size table differs from the model', {'cipher': c},
                      '%s %s' % (hn(a.key_size // 8), hn(a.block_size // 8)), d.call('sizes', hn(c)))
        ctx.case('size-tables', c, sample={'cipher': c, 'key_octets': a.key_size // 8, 'block_octets': a.block_size // 8})
    ctx.exhaustive.append('size tables for all %d ciphers PGPy can encrypt with' % len(CIPHERS))
    want = ['rsa2048', 'ed25519', 'p256'] + ([] if ctx.quick else ['p384', 'p521', 'secp256k1'])
    rcpts = [n for n in want if n in keypool.available(want)]
    for n in want:
        if n not in rcpts:
            ctx.skipped.append('recipient %s cannot be built with the local OpenSSL' % n)
    if 'dsa2048' not in keypool.available(['dsa2048']):
        ctx.skipped.append('dsa2048 unavailable')
    keys = {n: keypool.get(n) for n in rcpts}
    state = {'n': 0, 'seen': {}, 'outputs': set(), 'salts': set(), 'ivs': set(), 'points': set()}

    # ---- 1. every cipher x recipient kind, with and without a supplied session key; each operation twice in a row
    suite = 'cipher-x-recipient'
    for c in CIPHERS:
        for kind in ['pass'] + rcpts:
            for supplied in (False, True):
                if ctx.quick and supplied and (c + len(kind)) % 3:
                    continue
                sk = bytes(rng.randrange(256) for _ in range(KEYLEN[c])).hex() if supplied else None
                o = ({'op': 'EP', 'cipher': c, 'pw': 'the passphrase', 'msg': 'identical message', 'sk': sk, 'enc': False} if kind == 'pass' else
                     {'op': 'EK', 'cipher': c, 'rcpt': kind, 'msg': 'identical message', 'sk': sk, 'enc': False})
                Seq(ctx, d, pgpy, suite, state).run([o, dict(o)], keys)
                ctx.case(suite, (c, kind, supplied), sample={'cipher': c, 'recipient': kind, 'supplied_key': supplied, 'repeated': 2})
        for n in (rcpts[:1] if ctx.quick else rcpts + ['dsa2048']):
            o = {'op': 'PR', 'cipher': c, 'rcpt': n, 'pw': 'pw', 'halg': 8, 'count': 96 if c != 9 else 255}
            Seq(ctx, d, pgpy, suite, state).run([o, dict(o)], keys)
            ctx.case(suite, (c, 'protect', n), sample={'cipher': c, 'protect': n, 'repeated': 2})
    ctx.exhaustive.append('cipher x {passphrase, %s} x {drawn%s} session key, each operation twice'
                          % (', '.join(rcpts), ' (supplied: one configuration in three)' if ctx.quick else ', supplied'))

    # ---- 2. already-encrypted message gets a further passphrase packet (no new data packet, no prefix)
    suite = 'already-encrypted'
    for c in (7, 9, 2):
        o = {'op': 'EP', 'cipher': c, 'pw': 'second', 'msg': 'm', 'sk': None, 'enc': True}
        Seq(ctx, d, pgpy, suite, state).run([o], keys)
        ctx.case(suite, c, sample=o)

    # ---- 2a. refused operations: a supplied session key of the wrong length (29ef9ad: nothing may be drawn, the next operation takes
    #          the very next cell), protect with a cipher PGPy cannot encrypt with (a3ce830: draws where they were, then the exception)
    suite = 'refused'
    for c in (CIPHERS if not ctx.quick else [7, 9, 2, 12]):
        for kind in ['pass'] + rcpts[:2 if ctx.quick else len(rcpts)]:
            for ln in sorted({KEYLEN[c] - 1, KEYLEN[c] + 1, 8, 40} - {KEYLEN[c]}):
                bad = bytes(rng.randrange(256) for _ in range(ln)).hex()
                good = bytes(rng.randrange(256) for _ in range(KEYLEN[c])).hex()
                mk = (lambda sk_: {'op': 'EP', 'cipher': c, 'pw': 'the passphrase', 'msg': 'refused or not', 'sk': sk_, 'enc': False}) if kind == 'pass' else \
                     (lambda sk_: {'op': 'EK', 'cipher': c, 'rcpt': kind, 'msg': 'refused or not', 'sk': sk_, 'enc': False})
                Seq(ctx, d, pgpy, suite, state).run([mk(bad), mk(None), mk(bad), mk(good)], keys)
                ctx.case(suite, (c, kind, ln), sample={'cipher': c, 'recipient': kind, 'supplied_key_octets': ln, 'key_octets': KEYLEN[c]})
    for c in sorted(REFUSED):
        for n in rcpts[:2]:
            for how in (None, 'inprocess', 'loaded'):
                o = {'op': 'PR', 'cipher': c, 'rcpt': n, 'pw': 'pw', 'halg': 8, 'count': 96}
                if how:
                    o.update(reprotect=how, oldcipher=9)
                Seq(ctx, d, pgpy, suite, state).run([o, dict(o, cipher=9), dict(o)], keys)
                ctx.case(suite, (c, 'protect', n, how), sample={'cipher': c, 'protect': n, 'already_protected': how})
    ctx.exhaustive.append('refused: wrong-length supplied session keys (key size -1 / +1, 8, 40 octets) x {passphrase, recipients} x ciphers; '
                          'protect with every cipher PGPy cannot encrypt with (Plaintext, IDEA, Twofish256) x {unprotected, protected in process, loaded}')

    # ---- 2b. re-protecting an already protected key (same or other cipher, in-process or loaded) must draw a fresh IV and salt
    suite = 'reprotect'
    for n in (rcpts[:2] if ctx.quick else rcpts):
        for how in ('inprocess', 'loaded'):
            for c, oldc in ((9, 9), (7, 9), (9, 8), (2, 3)):
                o = {'op': 'PR', 'cipher': c, 'rcpt': n, 'pw': 'new pw', 'halg': 8, 'count': 96, 'reprotect': how, 'oldcipher': oldc}
                Seq(ctx, d, pgpy, suite, state).run([o, dict(o)], keys)
                ctx.case(suite, (n, how, c, oldc), sample={k: v for k, v in o.items()})
    # ---- 2c. the very same PGPMessage object encrypted several times in a row (same cipher, same / different recipients)
    suite = 'same-message-object'
    for c in (9, 7):
        for kinds in (['pass', 'pass'], rcpts[:1] * 3, rcpts[:2] + rcpts[:1], ['pass'] + rcpts[:1] + ['pass']):
            ops = []
            for kind in kinds:
                ops.append({'op': 'EP', 'cipher': c, 'pw': 'the passphrase', 'msg': 'one message object', 'sk': None, 'enc': False, 'sameobj': True} if kind == 'pass' else
                           {'op': 'EK', 'cipher': c, 'rcpt': kind, 'msg': 'one message object', 'sk': None, 'enc': False, 'sameobj': True})
            sq = Seq(ctx, d, pgpy, suite, state); sq.last_msg = None
            sq.run(ops, keys)
            ctx.case(suite, (c, tuple(kinds)), sample={'cipher': c, 'recipients': kinds})

    # ---- 3. random sequences
    suite = 'sequences'
    for j in range(ctx.n(25, 400)):
        ops = gen_ops(rng, rcpts, rng.randrange(2, 9))
        Seq(ctx, d, pgpy, suite, state).run(ops, keys)
        ctx.case(suite, repr(ops), sample={'ops': [o['op'] + ':' + str(o['cipher']) for o in ops]})
    ctx.notes.append('draws observed in this process: %d, all values of >= 8 octets pairwise distinct' % state['n'])
    ctx.notes.append('partial: quality of the OS / OpenSSL random generator and the RSA PKCS#1 v1.5 padding randomness (drawn inside '
                     'OpenSSL, not visible at os.urandom) are outside the model')


def replay(ctx, case):
    pgpy = load_repo()
    d = Driver('c13')
    try:
        before = len(ctx.violations)
        ops = case.get('ops') or []
        rc = sorted(set(o['rcpt'] for o in ops if o['op'] == 'EK'))
        keys = {n: keypool.get(n) for n in rc}
        state = {'n': 0, 'seen': {}, 'outputs': set(), 'salts': set(), 'ivs': set(), 'points': set()}
        Seq(ctx, d, pgpy, 'replay', state).run(ops, keys)
        return len(ctx.violations) > before
    finally:
        d.close()
