"""C14 - transferable keys survive export and import with their structure intact.

Correspondence: abstract packet sequences (tokens, see ocaml/drv_c14.ml) are turned into real OpenPGP packets through PGPy's own
packet classes (dummy signature MPIs - parsing does not verify) and loaded with PGPKey.from_blob; the structure of every key in
the returned dictionary (signature lists incl. extracted embedded signatures, user ids in order with their signature lists,
subkeys), `bytes(key)` split by an independent packet splitter, `copy.copy(key)` and `key.pubkey` are compared with the extracted
model's import / export / copy / pubkey_of.  Direct oracles on the real objects: re-import of bytes(key) and of str(key) keeps
exactly the exportable signatures on their components, second round trip is the identity on bytes, a copy exports identically,
explicit exportable=True survives two round trips, a concatenation splits.  A second suite runs the same direct oracles (plus
cryptographic verification after import) on keys produced by PGPy's own key-management operations (shared with C15)."""
import copy, hashlib, inspect, warnings
from datetime import datetime, timedelta, timezone

from .common import Driver, outcome, load_repo

T0 = datetime(2021, 1, 1, tzinfo=timezone.utc)

# source text of the functions the model was written against (sha256 of inspect.getsource)
PINS = {}


def pinned_sources(pgpy):
    from pgpy.types import SorteDeque
    K, U, S = pgpy.PGPKey, pgpy.PGPUID, pgpy.PGPSignature
    return {
        'PGPKey.parse': K.parse, 'PGPKey.__bytearray__': K.__bytearray__, 'PGPKey.__or__': K.__or__, 'PGPKey.__copy__': K.__copy__,
        'PGPKey.pubkey': K.pubkey.fget, 'PGPUID.__or__': U.__or__, 'PGPUID.__copy__': U.__copy__, 'PGPUID.__lt__': U.__lt__,
        'PGPUID.selfsig': U.selfsig.fget, 'PGPUID.is_primary': U.is_primary.fget, 'PGPSignature.__lt__': S.__lt__,
        'PGPSignature.exportable': S.exportable.fget, 'PGPSignature.__copy__': S.__copy__,
        'SorteDeque.insort': SorteDeque.insort, 'SorteDeque.resort': SorteDeque.resort,
    }


def source_hashes(pgpy):
    return {n: hashlib.sha256(inspect.getsource(f).encode()).hexdigest()[:16] for n, f in pinned_sources(pgpy).items()}


def check_pins(ctx, pgpy, pins, who):
    cur = source_hashes(pgpy)
    for n, h in sorted(pins.items()):
        if cur.get(n) != h:
            ctx.broken.append('pinned source text of %s changed (%s model was written against %s, now %s)' % (n, who, h, cur.get(n)))


PINS.update({
    'PGPKey.parse': 'e27a62b6f43bc038', 'PGPKey.__bytearray__': 'cf5c4a72b4df4a15', 'PGPKey.__or__': 'e00a8edb5482499b', 'PGPKey.__copy__': 'd0947399d9c62607',
    'PGPKey.pubkey': '8ca1b2d84e32a4d4', 'PGPUID.__or__': 'ae8d18457c0f6909', 'PGPUID.__copy__': '2a1154b2ea7b17af', 'PGPUID.__lt__': 'f0e5e2eaa2fbafb7',
    'PGPUID.selfsig': 'f5b0a4b25ee24849', 'PGPUID.is_primary': '2717b1134fb7e336', 'PGPSignature.__lt__': '557ce558d85c25f6',
    'PGPSignature.exportable': '28b877b70aaa4ac8', 'PGPSignature.__copy__': '1be2415cd6075ead',
    'SorteDeque.insort': 'c51e518d0825a677', 'SorteDeque.resort': '4eafdf7e56fd4538',
})


# ------------------------------------------------------------------ independent packet splitter
def split_packets(b):
    b = bytes(b)
    out, i = [], 0
    while i < len(b):
        t = b[i]
        if not t & 0x80:
            raise ValueError('not a packet tag')
        if t & 0x40:
            l0 = b[i + 1]
            if l0 < 192: ln, h = l0, 2
            elif l0 < 224: ln, h = ((l0 - 192) << 8) + b[i + 2] + 192, 3
            elif l0 == 255: ln, h = int.from_bytes(b[i + 2:i + 6], 'big'), 6
            else: raise ValueError('partial length')
        else:
            lt = t & 3
            if lt == 0: ln, h = b[i + 1], 2
            elif lt == 1: ln, h = int.from_bytes(b[i + 1:i + 3], 'big'), 3
            elif lt == 2: ln, h = int.from_bytes(b[i + 1:i + 5], 'big'), 5
            else: raise ValueError('indeterminate length')
        out.append(b[i:i + h + ln])
        i += h + ln
    return out


# ------------------------------------------------------------------ real packets for tokens
class World:
    """a pool of key material (labels) and the byte form of every token of one run"""
    NED, NCV = 9, 3          # labels 0..8 Ed25519 (can sign), 9..11 Curve25519 ECDH (cannot)

    def __init__(self, pgpy):
        from pgpy.constants import PubKeyAlgorithm as A, EllipticCurveOID as C
        from pgpy.packet.packets import PrivSubKeyV4
        self.pgpy = pgpy
        self.keys = []
        self.label_of = {}
        self.tok_of = {}          # packet bytes -> export token
        for i in range(self.NED + self.NCV):
            alg = (A.EdDSA, C.Ed25519) if i < self.NED else (A.ECDH, C.Curve25519)
            k = pgpy.PGPKey.new(*alg, created=T0 + timedelta(seconds=i))
            priv = k._key
            sub = PrivSubKeyV4()
            sub.pkalg, sub.created, sub.keymaterial = priv.pkalg, priv.created, priv.keymaterial
            sub.update_hlen()
            forms = {(1, 0): bytes(priv), (1, 1): bytes(priv.pubkey()), (0, 0): bytes(sub), (0, 1): bytes(sub.pubkey())}
            self.keys.append((k, forms))
            self.label_of[str(k.fingerprint)] = i
            for (prim, pub), bs in forms.items():
                self.tok_of[bs] = 'K%d%d.%d' % (prim, pub, i)
        self.cache = {}

    def cansign(self, label):
        return 1 if label < self.NED else 0

    def sigpkt(self, serial, issuer, typ, created, exp, primary, embs, variant):
        from pgpy.constants import PubKeyAlgorithm as A, HashAlgorithm as H, SignatureType as ST
        ik = self.keys[issuer][0]
        s = self.pgpy.PGPSignature.new(ST(typ), A.RSAEncryptOrSign, H.SHA256, ik.fingerprint.keyid, created=T0 + timedelta(seconds=created))
        sp = s._signature.subpackets
        if exp != 'n':
            sp.addnew('ExportableCertification', hashed=True, bflag=(exp == '1'))
        if primary:
            sp.addnew('PrimaryUserID', hashed=True, primary=True)
        if variant % 2 == 0:
            sp.addnew('IssuerFingerprint', hashed=True, _version=4, _issuer_fpr=ik.fingerprint)
        for e in embs:
            sp.addnew('EmbeddedSignature', hashed=False, _sig=e)
        s._signature.hash2 = bytearray(serial.to_bytes(2, 'big'))
        s._signature.signature.from_signer((0x5A00000000 + serial * 65537).to_bytes(6, 'big'))
        s._signature.update_hlen()
        return s._signature

    @staticmethod
    def foreign_lengths(pkt, serial):
        """the same signature as another producer may write it: serial % 4 == 1 -> every hashed subpacket with a five-octet length,
        serial % 4 == 2 -> every unhashed subpacket with a five-octet length (both legal, RFC 4880 5.2.3.1); else unchanged"""
        if serial % 4 not in (1, 2):
            return pkt
        # new-format header written by PGPy: c2 + length
        assert pkt[0] == 0xc2
        if pkt[1] < 192: body = pkt[2:]
        elif pkt[1] < 224: body = pkt[3:]
        else: body = pkt[6:]
        hl = int.from_bytes(body[4:6], 'big'); hashed = body[6:6 + hl]
        ul = int.from_bytes(body[6 + hl:8 + hl], 'big'); unhashed = body[8 + hl:8 + hl + ul]; rest = body[8 + hl + ul:]
        def widen(area):
            out, i = b'', 0
            while i < len(area):
                f0 = area[i]
                if f0 < 192: n, i = f0, i + 1
                elif f0 < 255: n, i = ((f0 - 192) << 8) + area[i + 1] + 192, i + 2
                else: n, i = int.from_bytes(area[i + 1:i + 5], 'big'), i + 5
                out += b'\xff' + n.to_bytes(4, 'big') + area[i:i + n]; i += n
            return out
        if serial % 4 == 1: hashed = widen(hashed)
        else: unhashed = widen(unhashed)
        nb = body[:4] + len(hashed).to_bytes(2, 'big') + hashed + len(unhashed).to_bytes(2, 'big') + unhashed + rest
        n = len(nb)
        h = bytes([n]) if n < 192 else (bytes([((n - 192) >> 8) + 192, (n - 192) & 0xff]) if n < 8384 else b'\xff' + n.to_bytes(4, 'big'))
        return b'\xc2' + h + nb

    def bytes_of(self, tok):
        """token -> packet octets (and register the export token of those octets)"""
        f = tok.split(':')
        if f[0] == 'K':
            return self.keys[int(f[4])][1][(int(f[1]), int(f[2]))]
        if f[0] == 'U':
            isu, cid = int(f[1]), int(f[2])
            if isu:
                u = self.pgpy.PGPUID.new('uid%d' % cid)
            else:
                u = self.pgpy.PGPUID.new(bytearray(b'\xff\xd8\xff\xe0' + cid.to_bytes(2, 'big') + b'JFIF' + bytes(6)))
            bs = bytes(u._uid)
            self.tok_of[bs] = 'U%d.%d' % (isu, cid)
            return bs
        if f[0] == 'S':
            embs = []
            for e in f[7:]:
                g = e.split(',')
                embs.append(self.sigpkt(int(g[1]), int(g[2]), int(g[3]), int(g[4]), g[5], False, [], int(g[1])))
            bs = bytes(self.sigpkt(int(f[1]), int(f[2]), int(f[3]), int(f[4]), f[5], f[6] == '1', embs, int(f[1])))
            bs = self.foreign_lengths(bs, int(f[1]))
            if int(f[1]) % 7 == 3:
                # a signature of a public-key algorithm PGPy has no signature class for (20 = the former ElGamal encrypt-or-sign, 16 = ElGamal): its
                # signature octets are kept opaque (fields.OpaqueSignature) - through parse, export AND copy (repair ef1cb48)
                bb = bytearray(bs)
                off = 2 if bb[1] < 192 else (3 if bb[1] < 224 else 6)
                assert bb[off] == 4
                bb[off + 2] = 20 if int(f[1]) % 2 else 16
                bs = bytes(bb)
            self.tok_of[bs] = 'S%d' % int(f[1])
            return bs
        if f[0] == 'T':
            return b'\xcc\x02\x00\x06'
        if f[0] == 'O':
            # an unknown-version signature packet / a private-use tag / a SUBKEY packet of unknown version: skipped with the signatures on it
            idb = int(f[2]).to_bytes(2, 'big')
            return (b'\xc2\x03\x05' + idb) if f[1] == '1' else ((b'\xfc\x02' + idb) if int(f[2]) % 2 else (b'\xce\x03\x07' + idb))
        if f[0] == 'X':
            # an understood packet that is no part of a key: a Marker packet (as old PGP wrote in front of keyrings) / a literal data packet
            return b'\xca\x03PGP' if int(f[1]) % 2 else b'\xcb\x08b\x00\x00\x00\x00\x00hi'
        if f[0] == 'OK':
            # a PRIMARY key packet (public / secret) of unknown version: skipped, and so is everything up to the next understood primary key (repair bf7dbf5)
            idb = int(f[1]).to_bytes(2, 'big')
            return (b'\xc6\x03\x06' if int(f[1]) % 2 else b'\xc5\x03\x07') + idb
        raise ValueError(tok)

    # ---- canonical structure of a real key object (same grammar as key_s in drv_c14.ml)
    def label(self, k):
        return self.label_of[str(k.fingerprint)]

    @staticmethod
    def serial(sig):
        return int.from_bytes(bytes(sig.hash2), 'big')

    def items(self, sigs):
        return ','.join(('E' if s.embedded else 'T') + str(self.serial(s)) for s in sigs)

    @staticmethod
    def content_id(u):
        if u.is_uid:
            return int(u.name[3:])
        return int.from_bytes(bytes(u.image)[4:6], 'big')

    def key_s(self, k):
        uids = ';'.join('%d.%d[%s]' % (u.is_uid, self.content_id(u), ','.join(str(self.serial(s)) for s in u._signatures)) for u in k._uids)
        subs = ';'.join('%d.%d[%s]' % (self.label(sk), sk.is_public, self.items(sk._signatures)) for sk in k._children.values())
        return 'K%d.%d(%s)(%s)(%s)' % (self.label(k), k.is_public, self.items(k._signatures), uids, subs)

    def export_s(self, k):
        b = bytes(k)
        try:
            pk = split_packets(b)
        except (ValueError, IndexError):
            return 'UNSPLITTABLE:' + b[:40].hex()          # bytes(key) is not a sequence of packets
        toks = [self.tok_of.get(p, '?' + p[:6].hex()) for p in pk]
        return ','.join(toks) or '-'


# ------------------------------------------------------------------ generators
def gen_sig(rng, st, issuers, types, selfl, times, allow_emb=None):
    st['serial'] += 1
    issuer = selfl if rng.random() < 0.6 else rng.choice(issuers)
    typ = rng.choice(types)
    exp = rng.choice('nnnnn1100')
    prim = 1 if (issuer == selfl and typ in (16, 19) and rng.random() < 0.3) else 0
    tok = 'S:%d:%d:%d:%d:%s:%d' % (st['serial'], issuer, typ, rng.choice(times), exp, prim)
    if allow_emb is not None and typ == 24:
        for _ in range(rng.choice((0, 1, 1, 2))):
            st['serial'] += 1
            tok += ':E,%d,%d,25,%d,%s' % (st['serial'], allow_emb, rng.choice(times), rng.choice('nnn10'))
    return tok


def gen_blob(rng, thorough=False):
    """one abstract packet sequence: 1-3 keys, each with direct signatures, user ids / attributes and subkeys"""
    st = {'serial': 0, 'cid': 0, 'oid': 0}
    toks = []
    nkeys = rng.choice((1, 1, 1, 2, 2, 3))
    prim_labels = rng.sample(range(World.NED), nkeys)
    if rng.random() < 0.10:
        prim_labels[-1] = prim_labels[0]              # the same key twice in one blob
    # few distinct creation times -> many ties
    times = [rng.choice((100, 100, 101, 102, 200)) for _ in range(3)] + [rng.randrange(50, 300)]
    issuers = list(range(World.NED))

    def trust():
        if rng.random() < 0.3:
            toks.append('T')

    def opaque_sig():
        if rng.random() < 0.06:
            st['oid'] += 1
            toks.append('O:1:%d' % st['oid'])

    def stray(p):
        """with probability p: a packet that is no part of a key, with 0..2 signatures grouped with it (orphaned packets)"""
        if rng.random() < p:
            st['oid'] += 1
            toks.append('X:%d' % st['oid']); trust()
            for _ in range(rng.choice((0, 0, 1, 2))):
                toks.append(gen_sig(rng, st, issuers, (16, 19, 31, 24, 48), rng.randrange(World.NED), times)); trust(); opaque_sig()

    malformed = rng.random()
    unknown_at = rng.randrange(nkeys + 1) if rng.random() < 0.30 else None       # a primary key of unknown version before key #unknown_at / at the end

    def unknown_key():
        """an opaque primary key packet followed by what such a key brings along: signatures, user ids, subkeys"""
        st['oid'] += 1
        toks.append('OK:%d' % st['oid']); trust()
        for _ in range(rng.choice((0, 1, 2))):
            toks.append(gen_sig(rng, st, issuers, (31, 32), rng.randrange(World.NED), times)); trust()
        for _ in range(rng.choice((0, 1, 1, 2))):
            st['cid'] += 1
            toks.append('U:%d:%d' % (0 if rng.random() < 0.2 else 1, st['cid'])); trust()
            for _ in range(rng.choice((0, 1, 2))):
                toks.append(gen_sig(rng, st, issuers, (16, 19, 48), rng.randrange(World.NED), times)); opaque_sig()
        for _ in range(rng.choice((0, 0, 1, 2))):
            sl = rng.randrange(World.NED + World.NCV)
            toks.append('K:0:%d:%d:%d' % (rng.randrange(2), 1 if sl < World.NED else 0, sl)); trust()
            for _ in range(rng.choice((0, 1, 2))):
                toks.append(gen_sig(rng, st, issuers, (24, 40), rng.randrange(World.NED), times, allow_emb=sl))
    stray(0.12)                                                            # in front of everything
    if malformed < 0.06:
        for _ in range(rng.choice((1, 1, 2))):
            toks.append(gen_sig(rng, st, issuers, (16, 31, 19), 0, times))  # leading signature(s)
        trust()
    elif malformed < 0.08:
        toks.append('U:1:99')                                              # user id before any key
    elif malformed < 0.10:
        toks.append('K:0:%d:1:%d' % (rng.randrange(2), rng.randrange(World.NED)))   # subkey first
    for ki, kl in enumerate(prim_labels):
        stray(0.15)                                                        # between the keys (before / after an unknown-version key as well)
        if unknown_at == ki:
            unknown_key()
            stray(0.3)
        pub = rng.randrange(2)
        toks.append('K:1:%d:1:%d' % (pub, kl)); trust()
        for _ in range(rng.choice((0, 0, 1, 2, 3))):
            toks.append(gen_sig(rng, st, issuers, (31, 31, 32, 24), kl, times, allow_emb=rng.randrange(World.NED))); trust(); opaque_sig()
        for _ in range(rng.choice((0, 1, 1, 2, 3, 4))):
            st['cid'] += 1
            cid = st['cid'] if rng.random() > 0.05 else max(1, st['cid'] - 1)    # occasionally the same user id again
            stray(0.04)                                                          # between the components of a key
            toks.append('U:%d:%d' % (0 if rng.random() < 0.25 else 1, cid)); trust()
            for _ in range(rng.choice((0, 1, 1, 2, 2, 3, 4))):
                toks.append(gen_sig(rng, st, issuers, (16, 19, 19, 19, 48, 18, 22), kl, times)); trust(); opaque_sig()
            r = rng.random()
            if r < 0.30:
                # the identity is revoked / attested by the key itself AFTER (or in the same second as) its newest certification:
                # PGPUID.selfsig must still be the certification (repair 812bc0f) - primary mark and identity order depend on it
                st['serial'] += 1
                toks.append('S:%d:%d:%d:%d:%s:0' % (st['serial'], kl, 48 if r < 0.18 else 22, max(times) + rng.choice((0, 1, 50)), rng.choice('nnn10'))); trust()
            if rng.random() < 0.05:
                st['oid'] += 1
                toks.append('O:0:%d' % st['oid'])                                # an opaque packet and "its" signatures are skipped
                for _ in range(rng.randrange(3)):
                    toks.append(gen_sig(rng, st, issuers, (16, 19), kl, times))
        used = set()
        for _ in range(rng.choice((0, 0, 1, 1, 2, 3))):
            sl = rng.randrange(World.NED + World.NCV)
            if sl in used and rng.random() > 0.3:
                continue
            used.add(sl)
            spub = pub if rng.random() > 0.03 else 1 - pub                        # rare public/private mismatch -> TypeError
            toks.append('K:0:%d:%d:%d' % (spub, 1 if sl < World.NED else 0, sl)); trust()
            for _ in range(rng.choice((0, 1, 1, 1, 2, 3))):
                toks.append(gen_sig(rng, st, issuers, (24, 24, 24, 40, 31), kl, times, allow_emb=sl)); trust(); opaque_sig()
    stray(0.12)                                                            # after the last key
    if unknown_at == nkeys:
        unknown_key()
        stray(0.3)
    return toks


EXC = {'AttributeError': 'ERR:AttributeError', 'TypeError': 'ERR:TypeError'}


def nonexportable_serials(toks):
    out = set()
    for t in toks:
        f = t.split(':')
        if f[0] == 'S' and f[5] == '0':
            out.add(int(f[1]))
    return out


def explicit_true_serials(toks):
    return {int(t.split(':')[1]) for t in toks if t.startswith('S:') and t.split(':')[5] == '1'}


def tops_view(w, k, drop=()):
    """(label, public, top-level signature serials, [(isuid, content, serials)], [(label, serials)]) of a real key"""
    def tl(sigs):
        return [w.serial(s) for s in sigs if not s.embedded and w.serial(s) not in drop]
    return (w.label(k), bool(k.is_public), tl(k._signatures),
            [(bool(u.is_uid), w.content_id(u), [w.serial(s) for s in u._signatures if w.serial(s) not in drop]) for u in k._uids],
            [(w.label(sk), tl(sk._signatures)) for sk in k._children.values()])


def impl_full(w, k):
    c = copy.copy(k)
    return '|'.join([w.key_s(k), w.export_s(k), w.key_s(c), w.export_s(c), w.key_s(k.pubkey)])


def run_case(ctx, w, d, toks, suite='packets'):
    """one case; an exception anywhere in the comparison is a failure of THIS input (never a harness crash)"""
    try:
        run_case_(ctx, w, d, toks, suite)
    except Exception as ex:
        from .common import DriverError
        if isinstance(ex, DriverError):
            raise
        ctx.fail(suite, 'exception while examining the imported key: %s: %s' % (type(ex).__name__, str(ex)[:120]), {'suite': suite, 'tokens': toks})


def run_case_(ctx, w, d, toks, suite='packets'):
    pgpy = w.pgpy
    case = {'suite': suite, 'tokens': toks}
    blob = b''.join(w.bytes_of(t) for t in toks)
    with warnings.catch_warnings():
        warnings.simplefilter('ignore')
        r = outcome(pgpy.PGPKey.from_blob, blob)
    model = d.call('import', *toks)
    orphan_oracle(ctx, w, toks, r, suite, case)
    if r[0] == 'raise':
        ctx.case(suite, ('err', tuple(toks)), nontrivial=False)
        ctx.expect_eq(suite, 'from_blob outcome vs model import', case, EXC.get(r[1], 'raise:' + r[1]), model)
        return
    first, keys = r[1]
    klist = list(keys.values())
    if not klist:
        ctx.case(suite, ('empty', tuple(toks)), nontrivial=False)
        ctx.expect_eq(suite, 'from_blob of a blob without keys', case, 'EMPTY', model)
        return
    ctx.case(suite, tuple(toks), nontrivial=True, sample={'tokens': toks[:14], 'keys': len(klist)})
    with warnings.catch_warnings():
        warnings.simplefilter('ignore')
        impl = ' '.join(impl_full(w, k) + '|' for k in klist)
        mparts = model.split(' ')
        # the model's extra fields: export of the stripped key, all lists sorted
        mcmp = ' '.join('|'.join(m.split('|')[:5]) + '|' for m in mparts)
        if not ctx.expect_eq(suite, 'structure / export / copy / twin of every imported key: PGPy vs model', case, impl, mcmp):
            return
        ids = [(w.label(k), k.is_public) for k in klist]
        prim_toks = [t for t in toks if t.startswith('K:1:')]
        if len(prim_toks) == len(klist) and first is not klist[0]:        # (the same key twice: the dictionary holds the later object)
            ctx.fail(suite, 'from_blob does not return the first key of the dictionary', case)
        for m in mparts:
            if not m.endswith('|1'):
                ctx.fail(suite, 'model: an imported key has an unsorted list', dict(case, model=m[:300]))
        # ---- direct oracles on the real objects
        drop = nonexportable_serials(toks)
        keep_true = explicit_true_serials(toks)
        for k in klist:
            direct_oracles(ctx, w, k, case, suite, drop, keep_true)
        if len(klist) > 1 and len(set(ids)) == len(ids):
            cat = b''.join(bytes(k) for k in klist)
            _, again = pgpy.PGPKey.from_blob(cat)
            a = [tops_view(w, k) for k in again.values()]
            b = [tops_view(w, pgpy.PGPKey.from_blob(bytes(k))[0]) for k in klist]
            if a != b:
                ctx.fail(suite, 'concatenated keys are not separated into the same keys', dict(case, got=repr(a)[:300], want=repr(b)[:300]))


def without_orphans(toks):
    """the token sequence without what is no part of a key: leading signatures, and every stray packet with the signatures grouped with it
    (Trust packets are filtered before grouping, so they do not end a group)"""
    def sigtok(t):
        return t.startswith('S:') or t.startswith('O:1:')
    out, dropping = [], True            # True at the start: leading signatures
    for t in toks:
        if t.startswith('X:'):
            dropping = True
            continue
        if dropping and (sigtok(t) or t == 'T'):
            continue
        dropping = False
        out.append(t)
    return out


def orphan_oracle(ctx, w, toks, r, suite, case):
    """direct oracle (the orphan repair; Props/C14.v C14_stray_packets_do_not_disturb / C14_leading_signatures_ignored on the implementation):
    marker packets, stray signatures and leading signatures change nothing - every key comes back exactly as from the blob without them"""
    t2 = without_orphans(toks)
    if t2 == toks:
        return

    def view(res):
        if res[0] == 'raise':
            return 'ERR:' + res[1]
        return ' '.join(w.key_s(k) + '|' + w.export_s(k) for k in res[1][1].values()) or 'EMPTY'
    with warnings.catch_warnings():
        warnings.simplefilter('ignore')
        r2 = outcome(w.pgpy.PGPKey.from_blob, b''.join(w.bytes_of(t) for t in t2))
        a, b = view(r), view(r2)
    if a != b:
        ctx.fail(suite, 'packets that are no part of a key (marker packet, stray / leading signatures) change what is read: a key is lost or a component goes to another key',
                 dict(case, got=a[:300], without_them=b[:300]))


def unordered(v):
    """a tops_view with the user id list as a multiset (signature lists stay lists)"""
    return (v[0], v[1], v[2], sorted(v[3]), v[4])


def direct_oracles(ctx, w, k, case, suite, drop, keep_true):
    """the property itself on the real objects.  The order of the user ids is part of the comparison unless a self-issued
    user id signature is non-exportable: PGPUID.__lt__ orders by the newest self-signature, which the export then omits
    (theorem C14_import_export_exact has the matching premise; the property text does not speak about user id order)"""
    pgpy = w.pgpy
    kid = k.fingerprint.keyid
    exact = not any(w.serial(s) in drop and s.signer == kid for u in k._uids for s in u._signatures)
    norm = (lambda v: v) if exact else unordered
    b1 = bytes(k)
    # bytes(key) itself: the key packet, then exactly the exportable signature packets of the key, of each user id, of each subkey
    exp_toks = w.export_s(k).split(',')
    v = tops_view(w, k, drop)
    want_toks = ['K1%d.%d' % (v[1], v[0])] + ['S%d' % x for x in v[2]]
    for (isu, cid, ss) in v[3]:
        want_toks += ['U%d.%d' % (isu, cid)] + ['S%d' % x for x in ss]
    for (lab, ss) in v[4]:
        want_toks += ['K0%d.%d' % (v[1], lab)] + ['S%d' % x for x in ss]
    if exp_toks != want_toks:
        leaked = sorted(int(t[1:]) for t in exp_toks if t[:1] == 'S' and t[1:].isdigit() and int(t[1:]) in drop)
        ctx.fail(suite, 'bytes(key) is not: key, its exportable signatures, each user id and subkey with its exportable signatures'
                 + (' (non-exportable signature(s) %s exported)' % leaked if leaked else ''),
                 dict(case, key=w.label(k), got=','.join(exp_toks)[:300], want=','.join(want_toks)[:300]))
    k2 = pgpy.PGPKey.from_blob(b1)[0]
    want = tops_view(w, k, drop)
    got = tops_view(w, k2)
    if norm(got) != norm(want):
        ctx.fail(suite, 're-import of bytes(key): not exactly the exportable signatures on their components', dict(case, got=repr(got)[:300], want=repr(want)[:300]))
    b2 = bytes(k2)
    if (b2 != b1) if exact else (sorted(split_packets(b2)) != sorted(split_packets(b1))):
        ctx.fail(suite, 'bytes(import(bytes(key))) differs from bytes(key)', dict(case, key=w.label(k)))
    k3 = pgpy.PGPKey.from_blob(b2)[0]
    if bytes(k3) != b2 or tops_view(w, k3) != got:
        ctx.fail(suite, 'second export/import round trip is not the identity', dict(case, key=w.label(k)))
    if keep_true:
        def present(kk):
            v = tops_view(w, kk)
            return set(v[2]) | {s for u in v[3] for s in u[2]} | {s for sk in v[4] for s in sk[1]}
        p1 = present(k) & keep_true
        if not (p1 <= present(k2) and p1 <= present(k3)):
            ctx.fail(suite, 'a signature with explicit exportable=True is lost by export/import', dict(case, key=w.label(k)))
    ka = pgpy.PGPKey.from_blob(str(k))[0]
    if tops_view(w, ka) != got or bytes(ka) != b2:
        ctx.fail(suite, 'armored export/import differs from binary export/import', dict(case, key=w.label(k)))
    c = copy.copy(k)
    if bytes(c) != b1:
        ctx.fail(suite, 'a copy of the key does not export identically', dict(case, key=w.label(k)))


def run(ctx):
    pgpy = load_repo()
    check_pins(ctx, pgpy, PINS, 'the KeyStruct')
    w = World(pgpy)
    d = Driver('c14')
    try:
        for toks in CORPUS:
            run_case(ctx, w, d, toks, 'corpus')
        n = ctx.n(400, 9000)
        for _ in range(n):
            run_case(ctx, w, d, gen_blob(ctx.rng, not ctx.quick))
        regressions(ctx, w, d)
        regression_repeated_key(ctx, w, d)
        regression_selfsig(ctx, w, d)
        regression_unknown_primary(ctx, w, d)
        regression_orphans(ctx, w, d)
        from . import c15
        c15.history_keys_for_c14(ctx, n=ctx.n(60, 1000))
    finally:
        d.close()


# hand-written shapes that run first: ties, explicit exportable, embedded cross-signatures, trust, several keys
CORPUS = [
    # direct-key signatures by a third party with explicit exportable 0 / 1 (and a non-exportable key revocation by the key)
    ['K:1:1:1:0', 'S:1:3:31:100:0:0', 'S:2:3:31:100:1:0', 'S:3:0:31:101:n:0', 'S:4:0:32:102:0:0', 'U:1:1', 'S:5:0:19:100:n:1',
     'K:0:1:1:1', 'S:6:0:24:100:0:0:E,7,1,25,100,n', 'S:8:0:24:101:n:0:E,9,1,25,101,0'],
    ['K:1:0:1:2', 'S:1:4:31:100:0:0', 'K:0:0:0:10', 'S:2:2:24:100:n:0', 'S:3:5:31:100:0:0'],
    # A, B, A again: what follows the second A belongs to A (repair 84a9ce0)
    ['K:1:1:1:0', 'U:1:1', 'S:1:0:19:100:n:0', 'K:1:1:1:1', 'U:1:2', 'K:1:1:1:0', 'S:2:0:31:100:n:0', 'U:1:3', 'S:3:0:19:101:n:1', 'K:0:1:1:4',
     'S:4:0:24:100:n:0'],
    ['K:1:1:1:0', 'U:1:1', 'S:1:0:19:100:n:1', 'S:2:3:16:100:n:0', 'S:3:0:19:100:n:0'],
    ['K:1:0:1:0', 'T', 'S:1:0:32:100:n:0', 'T', 'U:1:1', 'T', 'S:2:0:19:100:1:0', 'T', 'S:3:4:16:100:0:0', 'U:0:2', 'S:4:0:19:90:n:0',
     'K:0:0:1:1', 'S:5:0:24:100:n:0:E,6,1,25,100,n:E,7,1,25,99,n', 'S:8:0:40:100:n:0'],
    ['K:1:1:1:0', 'U:1:1', 'S:1:0:19:100:n:0', 'K:1:1:1:1', 'U:1:2', 'S:2:1:19:100:n:1', 'U:1:3', 'S:3:1:19:101:n:1', 'K:1:0:1:2', 'U:0:4'],
    ['K:1:1:1:0', 'U:1:1', 'S:1:0:19:100:n:1', 'U:1:2', 'S:2:0:19:101:n:1', 'S:3:0:48:102:n:0', 'U:1:3', 'S:4:0:19:99:n:1'],
    ['K:1:1:1:0', 'O:0:1', 'S:1:0:19:100:n:0', 'U:1:1', 'O:1:2', 'S:2:0:19:100:n:0'],
    # repair bf7dbf5: a primary key of unknown version between two keys, with a direct signature, a user id and a subkey of its own (and a leading
    # signature, now an orphaned packet): nothing of it lands on the key before it; unknown key first / last; an unknown SUBKEY skips only itself
    ['K:1:1:1:0', 'U:1:1', 'S:2:0:19:100:n:1', 'OK:1', 'S:3:3:31:100:n:0', 'U:1:2', 'S:4:3:19:100:n:1', 'K:0:1:1:4', 'S:5:3:24:100:n:0', 'O:0:2', 'S:6:3:24:100:n:0',
     'U:1:5', 'K:1:1:1:1', 'U:1:3', 'S:7:1:19:101:n:1'],
    ['OK:2', 'U:1:9', 'S:1:0:19:100:n:0', 'K:1:0:1:0', 'U:1:1', 'S:2:0:19:100:n:1', 'O:0:2', 'S:3:0:24:100:n:0', 'K:0:0:1:1', 'S:4:0:24:100:n:0', 'OK:1', 'K:0:0:1:2', 'S:5:0:24:100:n:0', 'U:0:7'],
    # the orphan repair: marker / literal packets and stray signatures in front of, between and after keys, between components, next to an
    # unknown-version primary key; leading signatures: all set aside, nothing else is lost
    ['X:1', 'K:1:1:1:0', 'U:1:1', 'S:1:0:19:100:n:1', 'X:2', 'S:2:3:16:100:n:0', 'K:1:1:1:1', 'U:1:2', 'S:3:1:19:100:n:1', 'X:3'],
    ['K:1:1:1:0', 'X:1', 'K:1:1:1:1', 'U:1:2'],
    ['X:2', 'T', 'S:1:0:19:100:n:0', 'O:1:1', 'K:1:0:1:0', 'S:2:0:31:100:n:0', 'X:3', 'U:1:1', 'S:3:0:19:100:n:1', 'X:4', 'S:4:0:19:101:n:1', 'K:0:0:1:1', 'S:5:0:24:100:n:0', 'X:5',
     'K:0:0:0:10', 'S:6:0:24:100:n:0'],
    ['K:1:1:1:0', 'U:1:1', 'OK:1', 'X:1', 'U:1:2', 'X:2', 'K:1:1:1:1', 'U:1:3', 'X:3', 'OK:2', 'U:1:4', 'X:4', 'S:1:0:19:100:n:0'],
    ['S:1:0:19:100:n:0', 'X:1', 'S:2:0:19:100:n:0', 'U:1:9'],
    # leading signatures (before the orphan repair the packet after them went with them: groupby read-ahead); an opaque one first: just skipped
    ['S:1:0:19:100:n:0', 'K:1:1:1:0', 'K:1:1:1:1', 'U:1:1', 'S:2:1:19:100:n:1'],
    ['S:1:0:19:100:n:0', 'S:2:0:16:100:n:0', 'T', 'K:1:1:1:0', 'S:3:0:31:100:n:0', 'U:1:7', 'S:4:0:19:100:n:0', 'K:1:1:1:1', 'U:1:1', 'S:5:1:19:100:n:1'],
    ['O:1:1', 'S:1:0:19:100:n:0', 'K:1:1:1:1', 'U:1:1', 'S:2:1:19:100:n:1'],
    ['S:1:0:19:100:n:0', 'O:1:1', 'K:1:1:1:1', 'U:1:1', 'S:2:1:19:100:n:1'],
    # repair ef1cb48: serial 3 and 10 carry an unsupported public-key algorithm (opaque signature octets) - kept by parse, export and copy
    ['K:1:1:1:0', 'S:1:0:31:100:n:0', 'S:2:0:31:100:n:0', 'S:3:4:31:101:n:0', 'U:1:1', 'S:4:0:19:100:n:1', 'S:5:0:16:100:n:0', 'S:6:0:16:100:n:0', 'S:7:0:16:100:n:0', 'S:8:0:16:100:n:0',
     'S:9:0:16:100:n:0', 'S:10:5:16:100:1:0', 'K:0:1:1:1', 'S:11:0:24:100:n:0'],
    # repair 812bc0f: the newer of two primary identities revoked (attested) after its certification stays primary and first
    ['K:1:1:1:0', 'U:1:1', 'S:1:0:19:100:n:1', 'U:1:2', 'S:2:0:19:101:n:1', 'S:3:0:48:102:n:0'],
    ['K:1:1:1:0', 'U:1:1', 'S:1:0:19:100:n:1', 'U:1:2', 'S:2:0:19:101:n:1', 'S:3:0:22:102:n:0'],
    # revocation / attestation of the same second as the certification, by a third party, non-exportable; an identity with nothing but a revocation
    ['K:1:0:1:0', 'U:1:1', 'S:1:0:19:100:n:1', 'S:2:0:48:100:n:0', 'U:1:2', 'S:3:0:16:100:n:1', 'S:4:0:22:100:0:0', 'S:5:3:48:200:n:0', 'U:0:3', 'S:6:0:48:90:n:0',
     'U:1:4', 'S:7:0:19:90:n:0', 'S:8:0:22:300:n:0', 'S:9:0:48:300:n:0', 'S:10:0:19:95:0:1'],
]


def regressions(ctx, w, d):
    """the two repaired defects, seen through the pre-repair model functions: the real code must NOT behave like them"""
    suite = 'regression'
    # F9: two signatures of one second; pre-repair copy reversed them
    toks = ['K:1:1:1:0', 'U:1:1', 'S:1:0:19:100:n:0', 'S:2:3:16:100:n:0']
    blob = b''.join(w.bytes_of(t) for t in toks)
    k = w.pgpy.PGPKey.from_blob(blob)[0]
    ctx.case(suite, 'f9', sample={'tokens': toks})
    old = d.call('import_f9', *toks)
    new = d.call('import', *toks).split('|')
    if w.key_s(k) != new[0] or w.export_s(copy.copy(k)) != new[3]:
        ctx.fail(suite, 'equal-timestamp signatures: PGPy differs from the repaired model', {'suite': suite, 'tokens': toks})
    if w.key_s(k) == old.split('|')[0] or new[0] == old.split('|')[0]:
        ctx.fail(suite, 'equal-timestamp signatures are ordered as before the F9 repair', {'suite': suite, 'tokens': toks})
    # F2: explicit exportable=True must still be there after import -> export -> import
    toks = ['K:1:1:1:0', 'U:1:1', 'S:1:0:19:100:n:0', 'S:2:3:16:101:1:0']
    blob = b''.join(w.bytes_of(t) for t in toks)
    k = w.pgpy.PGPKey.from_blob(blob)[0]
    ctx.case(suite, 'f2', sample={'tokens': toks})
    old = d.call('import_f2', *toks).split('|')
    if w.export_s(k) == old[1] or 'S2' not in w.export_s(k):
        ctx.fail(suite, 'explicit exportable=True signature dropped on re-export (F2)', {'suite': suite, 'tokens': toks})


def regression_selfsig(ctx, w, d):
    """repair 812bc0f (witness of Props/C14.v C14_import_selfsig_old_refuted): a primary identity revoked / attested after its certification
    keeps primary mark and place; the real code must follow the repaired model, not the model of the old selfsig rule"""
    suite = 'regression'
    for typ in (48, 22):
        toks = ['K:1:1:1:1', 'U:1:1', 'S:1:1:19:100:n:1', 'U:1:2', 'S:2:1:19:101:n:1', 'S:3:1:%d:102:n:0' % typ]
        case = {'suite': suite, 'tokens': toks}
        ctx.case(suite, 'selfsig-%d' % typ, sample={'tokens': toks})
        try:
            blob = b''.join(w.bytes_of(t) for t in toks)
            with warnings.catch_warnings():
                warnings.simplefilter('ignore')
                k = w.pgpy.PGPKey.from_blob(blob)[0]
                got = w.key_s(k) + '|' + w.export_s(k)
                prim = [bool(u.is_primary) for u in k._uids]
            old = d.call('import_oldself', *toks)
            new = '|'.join(d.call('import', *toks).split('|')[:2])
            if new == old:
                ctx.broken.append('regression selfsig-%d: the model of the selfsig rule before repair 812bc0f does not differ from the repaired one' % typ)
            if got != new or got == old or prim != [True, True]:
                ctx.fail(suite, 'a certification revocation / attestation by the key hides the self-certification (primary mark, identity order)',
                         dict(case, got=got, model=new, before_repair=old, primary=prim))
        except Exception as ex:
            from .common import DriverError
            if isinstance(ex, DriverError):
                raise
            ctx.fail(suite, 'exception while examining the imported key: %s: %s' % (type(ex).__name__, str(ex)[:120]), case)


def regression_unknown_primary(ctx, w, d):
    """repair bf7dbf5 (witness of Props/C14.v C14_unknown_primary_keeps_its_components): the real code must follow the repaired model, not the old one"""
    suite = 'regression'
    toks = ['K:1:1:1:0', 'U:1:1', 'OK:9', 'S:1:3:31:100:n:0', 'U:1:2', 'S:2:3:19:100:n:1', 'K:0:1:1:4', 'O:0:3', 'U:1:5', 'K:1:1:1:1', 'U:1:3']
    for name, tt in (('unknown-primary', toks), ('leading-signature', ['S:9:0:19:100:n:1'] + toks)):
        case = {'suite': suite, 'tokens': tt}
        ctx.case(suite, name, sample={'tokens': tt})
        try:
            blob = b''.join(w.bytes_of(t) for t in tt)
            with warnings.catch_warnings():
                warnings.simplefilter('ignore')
                r = outcome(w.pgpy.PGPKey.from_blob, blob)
            got = ('ERR:' + r[1]) if r[0] == 'raise' else ' '.join(w.key_s(k) for k in r[1][1].values())
            old = d.call('import_bf7', *tt)
            new = ' '.join(m.split('|')[0] for m in d.call('import', *tt).split(' '))
            if new == old:
                ctx.broken.append('regression %s: the model of PGPKey.parse before repair bf7dbf5 does not differ from the repaired one' % name)
            if got != new or got == old:
                ctx.fail(suite, 'user ids / subkeys after a primary key of unknown version are given to the key before it (or a leading signature raises)',
                         dict(case, got=got, model=new, before_repair=old))
        except Exception as ex:
            from .common import DriverError
            if isinstance(ex, DriverError):
                raise
            ctx.fail(suite, 'exception while examining the imported key: %s: %s' % (type(ex).__name__, str(ex)[:120]), case)


def regression_orphans(ctx, w, d):
    """the orphan repair (witnesses of Props/C14.v C14_stray_packet_pre_orphanfix_refuted / C14_leading_signature_orphaned): the real code must follow
    the repaired model, not the model of the loop that was left and restarted"""
    suite = 'regression'
    for name, tt in (('stray-between-keys', ['K:1:1:1:0', 'U:1:1', 'X:1', 'K:1:1:1:1', 'U:1:2']), ('stray-first', ['X:1', 'K:1:1:1:0', 'U:1:1']),
                     ('literal-between-keys', ['K:1:1:1:0', 'U:1:1', 'X:2', 'S:1:0:16:100:n:0', 'K:1:1:1:1', 'U:1:2']),
                     ('signature-first', ['S:1:0:19:100:n:0', 'K:1:1:1:0', 'K:1:1:1:1', 'U:1:3']), ('signature-first-one-key', ['S:1:0:19:100:n:0', 'K:1:1:1:0', 'U:1:3'])):
        case = {'suite': suite, 'tokens': tt}
        ctx.case(suite, name, sample={'tokens': tt})
        try:
            blob = b''.join(w.bytes_of(t) for t in tt)
            with warnings.catch_warnings():
                warnings.simplefilter('ignore')
                r = outcome(w.pgpy.PGPKey.from_blob, blob)
            got = ('ERR:' + r[1]) if r[0] == 'raise' else ' '.join(w.key_s(k) for k in r[1][1].values())
            old = d.call('import_orph', *tt)
            new = ' '.join(m.split('|')[0] for m in d.call('import', *tt).split(' '))
            if new == old:
                ctx.broken.append('regression %s: the model of PGPKey.parse before the orphan repair does not differ from the repaired one' % name)
            if got != new or got == old:
                ctx.fail(suite, 'a packet that is no part of a key makes the parse lose the packet after it (a key vanishes / its user id goes to the key before / TypeError)',
                         dict(case, got=got, model=new, before_repair=old))
        except Exception as ex:
            from .common import DriverError
            if isinstance(ex, DriverError):
                raise
            ctx.fail(suite, 'exception while examining the imported key: %s: %s' % (type(ex).__name__, str(ex)[:120]), case)


def regression_repeated_key(ctx, w, d):
    suite = 'regression'
    toks = ['K:1:1:1:0', 'U:1:1', 'K:1:1:1:1', 'U:1:2', 'K:1:1:1:0', 'U:1:3', 'S:1:0:19:100:n:0', 'K:0:1:1:4', 'S:2:0:24:100:n:0']
    ctx.case(suite, 'repeated-key', sample={'tokens': toks})
    blob = b''.join(w.bytes_of(t) for t in toks)
    _, ks = w.pgpy.PGPKey.from_blob(blob)
    got = ' '.join(w.key_s(k) for k in ks.values())
    old = d.call('import_dup', *toks)
    new = ' '.join(m.split('|')[0] for m in d.call('import', *toks).split(' '))
    if got != new or got == old or new == old:
        ctx.fail(suite, 'a blob that repeats a key: user id / subkey after the second occurrence are not attached to that key',
                 {'suite': suite, 'tokens': toks, 'got': got, 'model': new, 'before_repair': old})


def replay(ctx, case):
    """re-run one recorded case; True if it still fails"""
    pgpy = load_repo()
    before = len(ctx.violations)
    if case.get('suite') == 'history':
        from . import c15
        return c15.replay_history_for_c14(ctx, case)
    w = World(pgpy)
    d = Driver('c14')
    try:
        run_case(ctx, w, d, case['tokens'], case.get('suite', 'packets'))
    finally:
        d.close()
    return len(ctx.violations) > before
