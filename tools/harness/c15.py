"""C15 - key-management histories keep a key self-consistent.

Model-based testing: every history is executed on real PGPy keys (Ed25519 primaries, Ed25519 / Curve25519 subkeys, explicit
created= times with deliberate same-second collisions, datetime.now frozen for the one call that takes no created=) and on the
extracted Coq model (ocaml/drv_c15.ml); the observable state of every key object is compared: signature lists of the key, of
every user id (in PGPy's order) and of every subkey incl. extracted embedded signatures, each signature as type / issuer /
created / exportable / primary mark / flags+expiry+preferences; per user id the effective (selfsig) attributes; key expiry;
revocation reports; lock state; and the same for the public twin.  Direct oracle on the real code (independent of the model):
every signature of every key object verifies cryptographically under the issuer's public half - on the object, on its twin, after
re-import of bytes(key), of str(key) and of bytes(key.pubkey); selfsig is the self-issued CERTIFICATION (0x10-0x13) with the greatest
(created, order of addition) - a revocation or an attestation by the key leaves effective attributes and key expiry unchanged
(repair 812bc0f); a removed identity is gone from the object and its exports; revocation reports change only for the
revoked component; twin and private half list the same identities and signatures."""
import copy, hashlib, itertools, warnings
from datetime import datetime, timedelta, timezone

from .common import Driver, outcome, load_repo
from . import c14 as K14

T0 = datetime(2021, 1, 1, tzinfo=timezone.utc)

PINS = {
    'PGPKey.add_uid': '4b9172b325eca43b', 'PGPKey.del_uid': 'ef782ed32572b539', 'PGPKey.add_subkey': '8a95c73c25186b44', 'PGPKey.bind': 'a596300c4f9a6c24',
    'PGPKey.certify': 'fa3a26a4d6fbacd9', 'PGPKey.revoke': '0a06ad2822a8071a', 'PGPKey.revoker': 'dda913b648d20985', 'PGPKey.get_uid': '02f8faf42768e92d',
    'PGPKey.expires_at': 'c04c00482546a72d', 'PGPKey.revocation_signatures': '386c01b9fb6862f3', 'PGPKey._get_key_flags': '499d38d8d66239a4',
    'PGPKey.protect': '69f7ec0ca3ee5186', 'PGPKey.unlock': '1072b08798a7b550', 'KeyAction.__call__': 'c8bb870361fccd66', 'KeyAction.usage': '16a7e9cd1f721410',
}


def pinned15(pgpy):
    from pgpy.decorators import KeyAction
    K = pgpy.PGPKey

    def w(f):
        return getattr(f, '__wrapped__', f)
    return {
        'PGPKey.add_uid': K.add_uid, 'PGPKey.del_uid': K.del_uid, 'PGPKey.add_subkey': K.add_subkey, 'PGPKey.bind': w(K.bind),
        'PGPKey.certify': w(K.certify), 'PGPKey.revoke': w(K.revoke), 'PGPKey.revoker': w(K.revoker), 'PGPKey.get_uid': K.get_uid,
        'PGPKey.expires_at': K.expires_at.fget, 'PGPKey.revocation_signatures': K.revocation_signatures.fget,
        'PGPKey._get_key_flags': K._get_key_flags, 'PGPKey.protect': K.protect, 'PGPKey.unlock': w(K.unlock),
        'KeyAction.__call__': KeyAction.__call__, 'KeyAction.usage': w(KeyAction.usage),
    }


def source_hashes15(pgpy):
    import inspect
    return {n: hashlib.sha256(inspect.getsource(f).encode()).hexdigest()[:16] for n, f in pinned15(pgpy).items()}


class FrozenNow(datetime):
    _now = T0

    @classmethod
    def now(cls, tz=None):
        return cls._now


class RealWorld:
    """the histories on real PGPy objects"""

    def __init__(self, pgpy):
        self.pgpy = pgpy
        self.objs = []           # dicts: k (PGPKey), cm (open unlock context or None)
        self.label = {}          # key id -> label
        self.fpr = {}            # fingerprint -> label
        self.seq = {}            # signature octets -> order of first appearance
        self.nseq = 0
        self.getuid_fail = None
        self.adopt_fail = None
        self.shadows = []        # (original PGPKey kept alive after `copy`, its state string, its public export) -- aliasing oracle

    # ---- helpers
    def reg(self, k, label):
        self.label[k.fingerprint.keyid] = label
        self.fpr[str(k.fingerprint)] = label

    def lab(self, k):
        return self.fpr[str(k.fingerprint)]

    def t(self, s):
        FrozenNow._now = T0 + timedelta(seconds=int(s))
        return FrozenNow._now

    @staticmethod
    def cid(u):
        return int(u.name[3:]) if u.is_uid else int.from_bytes(bytes(u.image)[4:6], 'big')

    def find_uid(self, k, isuid, cid):
        found = None
        for u in k._uids:
            if bool(u.is_uid) == bool(int(isuid)) and self.cid(u) == int(cid):
                found = u
                break
        if int(isuid) == 1:
            # PGPKey.get_uid: the first identity one of whose fields EQUALS the search string
            got = k.get_uid('uid%d' % int(cid))
            if got is not found:
                self.getuid_fail = 'get_uid(%r) returned %s instead of %s' % ('uid%d' % int(cid), None if got is None else got.name, None if found is None else found.name)
        return found

    def prefs(self, info, prim):
        from pgpy.constants import KeyFlags as F, HashAlgorithm as H, SymmetricKeyAlgorithm as S, CompressionAlgorithm as Z
        v = [int(x) for x in info.split(',')]
        flags, keyexp, rest = v[0], v[1], v[2:]
        parts, cur = [], []
        for x in rest:
            if x == -1:
                parts.append(cur); cur = []
            else:
                cur.append(x)
        d = {'usage': {f for f in F if int(f) & flags}, 'hashes': [H(x) for x in parts[0]], 'ciphers': [S(x) for x in parts[1]],
             'compression': [Z(x) for x in parts[2]], 'hash': H.SHA256}
        if keyexp != -1:
            d['key_expiration'] = timedelta(seconds=keyexp)
        if prim == '1':
            d['primary'] = True
        return d

    def lock_state(self, k):
        if k.is_public or not k.is_protected:
            return 0
        return 1 if k.is_unlocked else 2

    # ---- operations (each returns 'ok' or the exception name; 'skip' = not applicable, no API call)
    def do(self, cmd):
        with warnings.catch_warnings():
            warnings.simplefilter('ignore')
            try:
                r = getattr(self, 'op_' + cmd[0])(*cmd[1:])
                return r or 'ok'
            except Exception as ex:   # PGPError / RuntimeError (StopIteration in a generator) / AttributeError / KeyError
                return type(ex).__name__

    def obj(self, i):
        i = int(i)
        return self.objs[i] if i < len(self.objs) else None

    def op_create(self, label):
        from pgpy.constants import PubKeyAlgorithm as A, EllipticCurveOID as C
        k = self.pgpy.PGPKey.new(A.EdDSA, C.Ed25519, created=T0)
        self.reg(k, int(label))
        self.objs.append({'k': k, 'cm': None})

    @staticmethod
    def uid_string(c):
        c = int(c)
        return 'uid%d' % c + (' (c%d)' % c if c % 2 else '') + (' <uid%d@example.org>' % c if c % 3 == 0 or c > 10 else '')

    def new_uid(self, isuid, cid):
        if isuid == '1':
            # 'uid1' is a proper substring of 'uid11' / 'uid12' and of the e-mail fields: PGPKey.get_uid must match whole fields
            c = int(cid)
            return self.pgpy.PGPUID.new('uid%d' % c, comment=('c%d' % c if c % 2 else ''), email=('uid%d@example.org' % c if c % 3 == 0 or c > 10 else ''))
        return self.pgpy.PGPUID.new(bytearray(b'\xff\xd8\xff\xe0' + int(cid).to_bytes(2, 'big') + b'JFIF' + bytes(6)))

    def op_adduid(self, k, isuid, cid, info, prim, t):
        o = self.obj(k)
        if o is None: return 'skip'
        o['k'].add_uid(self.new_uid(isuid, cid), created=self.t(t), **self.prefs(info, prim))

    def op_recert(self, k, isuid, cid, info, prim, t):
        from pgpy.constants import SignatureType as ST
        o = self.obj(k)
        if o is None: return 'skip'
        u = self.find_uid(o['k'], isuid, cid)
        if u is None: return 'skip'
        u |= o['k'].certify(u, ST.Positive_Cert, created=self.t(t), **self.prefs(info, prim))

    def op_certify(self, by, k, isuid, cid, exp, t):
        from pgpy.constants import HashAlgorithm as H
        c, o = self.obj(by), self.obj(k)
        if c is None or o is None: return 'skip'
        u = self.find_uid(o['k'], isuid, cid)
        if u is None: return 'skip'
        kw = {} if exp == 'n' else {'exportable': exp == '1'}
        u |= c['k'].certify(u, created=self.t(t), hash=H.SHA256, **kw)

    def op_certkey(self, by, k, exp, t):
        from pgpy.constants import HashAlgorithm as H
        c, o = self.obj(by), self.obj(k)
        if c is None or o is None: return 'skip'
        kw = {} if exp == 'n' else {'exportable': exp == '1'}
        o['k'] |= c['k'].certify(o['k'], created=self.t(t), hash=H.SHA256, **kw)

    def op_revuid(self, k, isuid, cid, t):
        from pgpy.constants import HashAlgorithm as H
        o = self.obj(k)
        if o is None: return 'skip'
        u = self.find_uid(o['k'], isuid, cid)
        if u is None: return 'skip'
        u |= o['k'].revoke(u, created=self.t(t), hash=H.SHA256)

    def op_attest(self, k, isuid, cid, t):
        """an Attestation Key Signature (0x16) made by the key on its own identity"""
        from pgpy.constants import HashAlgorithm as H, SignatureType as ST
        o = self.obj(k)
        if o is None: return 'skip'
        u = self.find_uid(o['k'], isuid, cid)
        if u is None: return 'skip'
        u |= o['k'].certify(u, ST.Attestation, attested_certifications=[], created=self.t(t), hash=H.SHA256)

    def op_addsub(self, k, label, cansign, flags, t):
        from pgpy.constants import PubKeyAlgorithm as A, EllipticCurveOID as C, KeyFlags as F, HashAlgorithm as H
        o = self.obj(k)
        if o is None: return 'skip'
        if not o['k'].is_public and self.lock_state(o['k']) != 0:
            return 'skip'                      # scope: no subkeys are added to passphrase-protected keys
        sk = self.pgpy.PGPKey.new(*((A.EdDSA, C.Ed25519) if cansign == '1' else (A.ECDH, C.Curve25519)), created=T0)
        self.reg(sk, int(label))
        o['k'].add_subkey(sk, usage={f for f in F if int(f) & int(flags)}, created=self.t(t), hash=H.SHA256)

    def op_adopt(self, k, other, t):
        """key.add_subkey(<an existing key object that has identities of its own>): refused with PGPError before anything changes (repair a832629)"""
        from pgpy.constants import KeyFlags as F, HashAlgorithm as H
        o, b = self.obj(k), self.obj(other)
        if o is None or b is None: return 'skip'
        if len(b['k']._uids) == 0:
            return 'skip'                      # scope: a key without identities as a subkey is what `addsub` does (with fresh material)
        with warnings.catch_warnings():
            warnings.simplefilter('ignore')
            before = (bytes(o['k']), bytes(b['k']), self.key_s(o['k']), self.key_s(b['k']))
        r = outcome(o['k'].add_subkey, b['k'], usage={F.Sign}, created=self.t(t), hash=H.SHA256)
        with warnings.catch_warnings():
            warnings.simplefilter('ignore')
            after = (bytes(o['k']), bytes(b['k']), self.key_s(o['k']), self.key_s(b['k']))
        if r[0] != 'raise' or r[1] != 'PGPError':
            self.adopt_fail = 'add_subkey of a key with identities was not refused with PGPError: %r' % (r[:2],)
        elif after != before:
            self.adopt_fail = 'a refused add_subkey (key with identities) changed one of the two keys'
        return 'PGPError' if r[0] == 'raise' and r[1] == 'PGPError' else 'ok'

    def op_revsub(self, k, label, t):
        from pgpy.constants import HashAlgorithm as H
        o = self.obj(k)
        if o is None: return 'skip'
        sk = next((s for s in o['k'].subkeys.values() if self.lab(s) == int(label)), None)
        if sk is None: return 'skip'
        sk |= o['k'].revoke(sk, created=self.t(t), hash=H.SHA256)

    def op_revkey(self, k, t):
        from pgpy.constants import HashAlgorithm as H
        o = self.obj(k)
        if o is None: return 'skip'
        o['k'] |= o['k'].revoke(o['k'], created=self.t(t), hash=H.SHA256)

    def op_revoker(self, k, by, t):
        from pgpy.constants import HashAlgorithm as H
        o, b = self.obj(k), self.obj(by)
        if o is None or b is None: return 'skip'
        o['k'] |= o['k'].revoker(b['k'], created=self.t(t), hash=H.SHA256)

    def op_deluid(self, k, cid):
        o = self.obj(k)
        if o is None: return 'skip'
        o['k'].del_uid('uid%d' % int(cid))

    def op_protect(self, k):
        from pgpy.constants import SymmetricKeyAlgorithm as S, HashAlgorithm as H
        o = self.obj(k)
        if o is None: return 'skip'
        o['k'].protect('pw', S.AES128, H.SHA256)
        if o['cm'] is not None:
            o['cm'].__exit__(None, None, None); o['cm'] = None

    def op_unlock(self, k):
        o = self.obj(k)
        if o is None or self.lock_state(o['k']) != 2: return 'skip'
        cm = o['k'].unlock('pw'); cm.__enter__(); o['cm'] = cm

    def op_lock(self, k):
        o = self.obj(k)
        if o is None or self.lock_state(o['k']) != 1: return 'skip'
        if o['cm'] is not None:
            o['cm'].__exit__(None, None, None); o['cm'] = None
        else:
            with o['k'].unlock('pw'):
                pass

    def op_copy(self, k):
        o = self.obj(k)
        if o is None: return 'skip'
        orig = o['k']
        o['k'] = copy.copy(o['k']); o['cm'] = None
        if len(self.shadows) < 4 and orig.is_public or (not orig.is_public and self.lock_state(orig) == 0 and len(self.shadows) < 4):
            # the history continues on the COPY; the original stays alive and must never change again
            self.shadows.append((orig, self.key_s(orig), bytes(orig.pubkey if not orig.is_public else orig)))

    def shadow_fail(self):
        with warnings.catch_warnings():
            warnings.simplefilter('ignore')
            for orig, s0, b0 in self.shadows:
                try:
                    s1, b1 = self.key_s(orig), bytes(orig.pubkey if not orig.is_public else orig)
                except Exception as ex:
                    return 'the original of a copied key can no longer be inspected: %r' % ex
                if s1 != s0:
                    return 'the original of a copied key changed when the copy was used: %s -> %s' % (s0[:150], s1[:150])
                if b1 != b0:
                    return 'the public export of the original of a copied key changed when the copy was used'
        return None

    def op_reimport(self, k):
        o = self.obj(k)
        if o is None: return 'skip'
        o['k'] = self.pgpy.PGPKey.from_blob(bytes(o['k']))[0]; o['cm'] = None

    def op_publish(self, k):
        o = self.obj(k)
        if o is None: return 'skip'
        self.objs.append({'k': self.pgpy.PGPKey.from_blob(bytes(o['k'].pubkey))[0], 'cm': None})

    # ---- canonical state (same grammar as obj_s in drv_c15.ml, without the model-only I.. field)
    def info(self, s):
        v = [sum(int(f) for f in s.key_flags)]
        ke = s.key_expiration
        v.append(-1 if ke is None else int(ke.total_seconds()))
        v += [int(x) for x in s.hashprefs] + [-1] + [int(x) for x in s.cipherprefs] + [-1] + [int(x) for x in s.compprefs] + [-1]
        if 'RevocationKey' in s._signature.subpackets:
            v.append(self.fpr.get(str(next(iter(s._signature.subpackets['RevocationKey'])).fingerprint), -9))
        return '_'.join(str(x) for x in v)

    def core(self, s):
        sp = s._signature.subpackets
        exp = 'n'
        if 'ExportableCertification' in sp:
            exp = '1' if s.exportable else '0'
        prim = 1 if bool(next(iter(sp['h_PrimaryUserID']), False)) else 0
        return '/'.join([str(int(s.type)), str(self.label.get(s.signer, -9)), str(int((s.created - T0).total_seconds())), exp, str(prim), self.info(s)])

    def items(self, sigs):
        return ','.join(('E' if s.embedded else 'T') + self.core(s) for s in sigs)

    def key_s(self, k):
        from pgpy.constants import SignatureType as ST
        kid = k.fingerprint.keyid
        us = []
        for u in k._uids:
            ss = u.selfsig
            eff = 'none' if ss is None else '%d/%s/%d' % (int(ss.type), self.info(ss), 1 if u.is_primary else 0)
            nrev = sum(1 for s in u._signatures if s.type == ST.CertRevocation and s.signer == kid)
            us.append('%d.%d[%s]=%sr%d' % (u.is_uid, self.cid(u), ','.join(self.core(s) for s in u._signatures), eff, nrev))
        subs = ['%d.%d[%s]r%d' % (self.lab(sk), sk.is_public, self.items(sk._signatures), len(list(sk.revocation_signatures)))
                for sk in k._children.values()]
        ex = k.expires_at
        x = -1 if ex is None else int((ex - k.created).total_seconds())
        return 'K%d.%d(%s)(%s)(%s)x%dr%d' % (self.lab(k), k.is_public, self.items(k._signatures), ';'.join(us), ';'.join(subs), x,
                                            len(list(k.revocation_signatures)))

    def state(self):
        with warnings.catch_warnings():
            warnings.simplefilter('ignore')
            out = []
            for o in self.objs:
                k = o['k']
                if k.is_public:
                    out.append('%sL%d|-' % (self.key_s(k), self.lock_state(k)))
                    continue
                # the twin derived NOW must show the key as it is now, also while an EARLIER twin of the same key is still referenced
                # somewhere (a caller that kept `pub = key.pubkey`): the previous one is kept alive on purpose
                twin = k.pubkey
                o['held_twin'] = twin
                out.append('%sL%d|%s' % (self.key_s(k), self.lock_state(k), self.key_s(twin)))
            return ' '.join(out) or 'EMPTY'

    # ---- direct oracle on the real code
    def note_new_sigs(self):
        for o in self.objs:
            k = o['k']
            for s in itertools.chain(k._signatures, *[u._signatures for u in k._uids], *[sk._signatures for sk in k._children.values()]):
                b = bytes(s.__bytearray__())
                if b not in self.seq:
                    self.nseq += 1
                    self.seq[b] = self.nseq

    def pub_of_label(self, label):
        for o in self.objs:
            if self.lab(o['k']) == label:
                return o['k'].pubkey
        return None

    def verify_all(self, holder, where, fails):
        """every signature held by `holder` verifies under the public half of its issuer"""
        pub = holder.pubkey
        kid = holder.fingerprint.keyid
        subids = set(holder.subkeys)

        def chk(subj, s, what):
            signer = s.signer
            if signer == kid or signer in subids:
                vk = pub
            else:
                vk = self.pub_of_label(self.label.get(signer, -9))
                if vk is None:
                    fails.append('%s: issuer of %s unknown' % (where, what)); return
            try:
                if not vk.verify(subj, s):
                    fails.append('%s: %s does not verify' % (where, what))
            except Exception as ex:
                fails.append('%s: %s verify raised %s' % (where, what, type(ex).__name__))
        for s in holder._signatures:
            chk(holder, s, 'key signature type %d' % int(s.type))
        for u in holder._uids:
            for s in u._signatures:
                chk(u, s, 'user id signature type %d' % int(s.type))
        for sk in holder._children.values():
            nb = 0
            for s in sk._signatures:
                chk(sk, s, 'subkey signature type %d' % int(s.type))
                if int(s.type) == 0x18 and not s.embedded:
                    nb += 1
                    if sk.key_algorithm.can_sign and not list(s._signature.subpackets['EmbeddedSignature']):
                        fails.append('%s: binding of a signing-capable subkey without embedded cross-signature' % where)

    def names(self, k):
        return [(bool(u.is_uid), self.cid(u), [bytes(s.__bytearray__()) for s in u._signatures if s.exportable]) for u in k._uids]

    @staticmethod
    def keysigs(k):
        """exportable signature packets attached to the key itself / to each subkey"""
        def tl(kk):
            return [bytes(s.__bytearray__()) for s in kk._signatures if not s.embedded and s.exportable]
        return (tl(k), [tl(sk) for sk in k._children.values()])

    def expected_packets(self, k):
        """what bytes(key) must consist of: key packet, its exportable signature packets, then every user id and every subkey with theirs"""
        ks, subs = self.keysigs(k)
        out = [bytes(k._key.__bytearray__())] + ks
        for u in k._uids:
            out += [bytes(u._uid.__bytearray__())] + [bytes(s.__bytearray__()) for s in u._signatures if s.exportable]
        for sk, ss in zip(k._children.values(), subs):
            out += [bytes(sk._key.__bytearray__())] + ss
        return out

    def export_ok(self, k):
        try:
            return K14.split_packets(bytes(k)) == self.expected_packets(k)
        except (ValueError, IndexError):
            return False

    def oracle(self, light=False, only=None):
        """light: verification on the object and on the re-import of bytes(key) only (no twin / armored / public re-imports);
        only: restrict to these object indices (the objects the last operation touched)"""
        fails = []
        with warnings.catch_warnings():
            warnings.simplefilter('ignore')
            for i, o in enumerate(self.objs):
                if only is not None and i not in only:
                    continue
                k = o['k']
                pub = k.pubkey
                self.verify_all(k, 'object %d' % i, fails)
                if not k.is_public and not light:
                    self.verify_all(pub, 'twin of object %d' % i, fails)
                    # twin lists the same identities, signatures, subkeys
                    if [(a, b, [bytes(s.__bytearray__()) for s in u._signatures]) for (a, b, _), u in zip(self.names(k), k._uids)] != \
                       [(a, b, [bytes(s.__bytearray__()) for s in u._signatures]) for (a, b, _), u in zip(self.names(pub), pub._uids)] \
                       or [self.lab(s) for s in k._children.values()] != [self.lab(s) for s in pub._children.values()] \
                       or [bytes(s.__bytearray__()) for s in k._signatures] != [bytes(s.__bytearray__()) for s in pub._signatures]:
                        fails.append('twin of object %d does not reflect the same state' % i)
                if not self.export_ok(k):
                    fails.append('bytes(key) of object %d is not: key, its exportable signatures, each user id / subkey with its exportable signatures' % i)
                for what, blob in ((('bytes(key)', bytes(k)),) if light else (('bytes(key)', bytes(k)), ('str(key)', str(k)), ('bytes(key.pubkey)', bytes(pub)))):
                    r = self.pgpy.PGPKey.from_blob(blob)[0]
                    self.verify_all(r, 're-import of %s of object %d' % (what, i), fails)
                    nonexp_self = any((not s.exportable) and s.signer == k.fingerprint.keyid for u in k._uids for s in u._signatures)
                    a, b = self.names(r), self.names(k)
                    if ((sorted(a) != sorted(b)) if nonexp_self else (a != b)) or [self.lab(s) for s in r._children.values()] != [self.lab(s) for s in k._children.values()] \
                       or self.keysigs(r) != self.keysigs(k):
                        fails.append('re-import of %s of object %d: identities / exportable signatures / subkeys differ' % (what, i))
                # most recent self-certification wins (a revocation / attestation by the key is not one: repair 812bc0f);
                # later-added of two same-second signatures wins
                kid = k.fingerprint.keyid
                for u in k._uids:
                    mine = [s for s in u._signatures if s.signer == kid and int(s.type) in (0x10, 0x11, 0x12, 0x13)]
                    ss = u.selfsig
                    if not mine:
                        if ss is not None: fails.append('object %d: selfsig without self-issued certification' % i)
                        continue
                    best = max(mine, key=lambda s: (s.created, self.seq.get(bytes(s.__bytearray__()), 0)))
                    if ss is None or bytes(ss.__bytearray__()) != bytes(best.__bytearray__()):
                        fails.append('object %d: selfsig of uid %d is not the most recent self-issued certification' % (i, self.cid(u)))
        return fails

    def effective_of(self, i):
        """effective (selfsig-derived) attributes of every identity of object i and the key expiry, as key_s prints them"""
        o = self.obj(i)
        if o is None: return None
        with warnings.catch_warnings():
            warnings.simplefilter('ignore')
            k = o['k']
            eff, exps = [], set()
            for u in k._uids:
                ss = u.selfsig
                eff.append((bool(u.is_uid), self.cid(u), 'none' if ss is None else '%d/%s/%d' % (int(ss.type), self.info(ss), 1 if u.is_primary else 0)))
                if u.is_uid and ss is not None and ss.key_expiration is not None:
                    exps.add(int(ss.key_expiration.total_seconds()))
            ex = k.expires_at
            # identities that compare equal under PGPUID.__lt__ may change places when one of them is re-sorted, and expires_at takes
            # the LAST identity that has an expiration: the expiry is compared only when all identities agree on it
            return (sorted(eff), (-1 if ex is None else int((ex - k.created).total_seconds())) if len(exps) <= 1 else 'several')

    def reports(self):
        """revocation reports per component (PGPKey.revocation_signatures; certificate revocations on user ids)"""
        from pgpy.constants import SignatureType as ST
        r = {}
        with warnings.catch_warnings():
            warnings.simplefilter('ignore')
            for i, o in enumerate(self.objs):
                k = o['k']
                r[(i, 'key')] = len(list(k.revocation_signatures))
                for sk in k._children.values():
                    r[(i, 'sub', self.lab(sk))] = len(list(sk.revocation_signatures))
                for j, u in enumerate(k._uids):
                    key = (i, 'uid', bool(u.is_uid), self.cid(u))
                    r[key] = r.get(key, 0) + sum(1 for s in u._signatures if s.type == ST.CertRevocation and s.signer == k.fingerprint.keyid)
        return r


def expected_reports(before, cmd, res, nobj_before):
    """what the revocation reports must be after `cmd`, given those before (None = do not check this step)"""
    r = dict(before)
    if cmd[0] in ('revkey', 'revsub', 'revuid') and res == 'ok':
        i = int(cmd[1])
        key = (i, 'key') if cmd[0] == 'revkey' else (i, 'sub', int(cmd[2])) if cmd[0] == 'revsub' else (i, 'uid', cmd[2] == '1', int(cmd[3]))
        r[key] = r.get(key, 0) + 1
        return r
    if cmd[0] == 'addsub' and res != 'skip':
        r.setdefault((int(cmd[1]), 'sub', int(cmd[2])), 0)
        return r
    if cmd[0] == 'adduid' and res == 'ok':
        r.setdefault((int(cmd[1]), 'uid', cmd[2] == '1', int(cmd[3])), 0)
        return r
    if cmd[0] in ('deluid', 'reimport', 'publish', 'copy'):
        return None          # identities disappear / non-exportable data is dropped / a new object appears: compared through the model
    return r


def strip_model(s):
    """remove the model-only invariant field I<inv><sorted> from every object; return (comparable, flags)"""
    out, flags = [], []
    for ob in s.split(' '):
        if ob == 'EMPTY':
            out.append(ob); continue
        a, b = ob.split('|', 1)
        i = a.rindex('I')
        flags.append(a[i + 1:])
        out.append(a[:i] + '|' + b)
    return ' '.join(out), flags


def run_history(ctx, pgpy, d, cmds, suite, check_from=0, oracle_every=True, case_extra=None, light=False):
    """one history; an exception in the comparison / oracle code is a failure of THIS history (never a harness crash)"""
    try:
        return run_history_(ctx, pgpy, d, cmds, suite, check_from, oracle_every, case_extra, light)
    except Exception as ex:
        from .common import DriverError
        if isinstance(ex, DriverError):
            raise
        case = {'suite': suite, 'cmds': [list(c) for c in cmds]}
        if case_extra: case.update(case_extra)
        ctx.fail(suite, 'exception while examining the keys: %s: %s' % (type(ex).__name__, str(ex)[:120]), case)
        return False


def run_history_(ctx, pgpy, d, cmds, suite, check_from=0, oracle_every=True, case_extra=None, light=False):
    """execute one history on PGPy and on the model; compare after every step >= check_from"""
    rw = RealWorld(pgpy)
    d.call('reset')
    case = {'suite': suite, 'cmds': [list(c) for c in cmds]}
    if case_extra: case.update(case_extra)
    last = len(cmds) - 1
    for n, cmd in enumerate(cmds):
        nobj = len(rw.objs)
        if n >= check_from:
            reports = rw.reports()
            if cmd[0] == 'deluid' and rw.obj(cmd[1]) is not None:
                ndel_before = sum(1 for u in rw.obj(cmd[1])['k'].userids if u.name == 'uid%d' % int(cmd[2]))
            eff_before = rw.effective_of(cmd[1]) if cmd[0] in ('revuid', 'attest') else None
        res = rw.do(cmd)
        m = d.call(*cmd)
        if rw.getuid_fail is not None:
            ctx.fail(suite, 'PGPKey.get_uid at step %d (%s): %s' % (n, ' '.join(cmd), rw.getuid_fail), dict(case, step=n))
            return False
        if rw.adopt_fail is not None:
            ctx.fail(suite, 'add_subkey at step %d (%s): %s' % (n, ' '.join(cmd), rw.adopt_fail), dict(case, step=n))
            return False
        if n < check_from:
            continue
        rw.note_new_sigs()
        mcmp, flags = strip_model(m)
        st = rw.state()
        if not ctx.expect_eq(suite, 'state after step %d (%s -> %s): PGPy vs model' % (n, ' '.join(cmd), res), dict(case, step=n), st, mcmp):
            return False
        if any(f != '111' for f in flags):
            ctx.fail(suite, 'model: invariant / sortedness does not hold after step %d' % n, dict(case, step=n, flags=flags))
            return False
        if oracle_every or n == last:
            touched = None
            if light and cmd[0] not in ('create', 'publish'):
                touched = {int(cmd[2])} if cmd[0] == 'certify' else {int(cmd[1])}
            fails = rw.oracle(light=light, only=touched)
            if fails:
                ctx.fail(suite, 'direct oracle after step %d (%s): %s' % (n, ' '.join(cmd), '; '.join(fails[:3])), dict(case, step=n))
                return False
        if cmd[0] in ('revuid', 'attest') and eff_before is not None:
            # direct oracle (repair 812bc0f): a certification revocation / attestation by the key is not a self-certification -
            # flags, preferences, primary mark of every identity and the key expiry stay what they were
            eff_after = rw.effective_of(cmd[1])
            if eff_after != eff_before:
                ctx.fail(suite, 'effective attributes / key expiry changed by %s at step %d' % (cmd[0], n),
                         dict(case, step=n, before=repr(eff_before)[:300], after=repr(eff_after)[:300]))
                return False
        sf = rw.shadow_fail()
        if sf:
            ctx.fail(suite, 'aliasing after step %d (%s): %s' % (n, ' '.join(cmd), sf), dict(case, step=n))
            return False
        new = rw.reports()
        want = expected_reports(reports, cmd, res, nobj)
        if want is not None and {k: v for k, v in new.items() if v} != {k: v for k, v in want.items() if v}:
            ctx.fail(suite, 'revocation reports changed for another component after step %d (%s)' % (n, ' '.join(cmd)),
                     dict(case, step=n, got=repr(sorted(new.items()))[:300], want=repr(sorted(want.items()))[:300]))
            return False
        if cmd[0] == 'deluid' and res == 'ok':
            k = rw.objs[int(cmd[1])]['k']
            name = ('uid%d' % int(cmd[2])).encode()
            body = RealWorld.uid_string(cmd[2]).encode()
            want_n = ndel_before - 1
            with warnings.catch_warnings():
                warnings.simplefilter('ignore')
                got = [sum(1 for u in k.userids if u.name == name.decode()),
                       sum(1 for p in K14.split_packets(bytes(k)) if p[0] in (0xcd, 0xb4) and p[2:] == body),
                       sum(1 for u in pgpy.PGPKey.from_blob(bytes(k))[0].userids if u.name == name.decode()),
                       sum(1 for u in k.pubkey.userids if u.name == name.decode())]
            if got != [want_n] * 4:
                ctx.fail(suite, 'removed identity still present after step %d' % n, dict(case, step=n, got=got, want=want_n))
                return False
    return True


# ------------------------------------------------------------------ histories
P1 = '3,-1,8,10,-1,9,7,-1,2,1,-1'        # sign+certify; SHA256 SHA512; AES256 AES128; ZLIB ZIP
P2 = '2,-1,10,-1,9,-1,0,-1'              # sign; SHA512; AES256; uncompressed
P3 = '12,630720000,8,-1,7,-1,1,-1'       # encrypt; expires 20 years after creation
P4 = '1,-1,-1,-1,-1'                     # certify only; no preferences
P5 = '2,0,8,-1,9,-1,1,-1'                # sign; key expiration time 0 = never expires (repair 96d5157)

PREAMBLE = [('create', '0'), ('create', '1'), ('adduid', '0', '1', '1', P1, '1', '1'), ('adduid', '1', '1', '5', P1, '0', '1')]


def alphabet(size):
    """operation templates; 'T' is replaced by the time of the step, 'L' by a fresh subkey label.
    size: 'core' (10 instances) < 'small' (23) < 'full' (46)"""
    core = [
        ('adduid', '0', '1', '3', P3, '1', 'T'),
        ('recert', '0', '1', '1', P2, '0', 'T'),
        ('certify', '1', '0', '1', '1', '0', 'T'),
        ('revuid', '0', '1', '1', 'T'),
        ('addsub', '0', 'L', '1', '2', 'T'),
        ('revsub', '0', '10', 'T'),
        ('revkey', '0', 'T'),
        ('deluid', '0', '1'),
        ('copy', '0'),
        ('reimport', '0'),
    ]
    small = core + [
        ('adduid', '0', '1', '2', P2, '0', 'T'),
        ('adduid', '0', '0', '4', P4, '0', 'T'),
        ('recert', '0', '1', '3', P1, '1', 'T'),
        ('certify', '1', '0', '1', '1', 'n', 'T'),
        ('addsub', '0', 'L', '0', '12', 'T'),
        ('revoker', '0', '1', 'T'),
        ('publish', '0'),
        ('certify', '1', '2', '1', '1', '1', 'T'),     # certify the published copy (object 2, if there is one)
        ('adduid', '0', '1', '11', P1, '1', 'T'),      # 'uid1' is a proper substring of this identity, which sorts first (primary, newer)
        ('certkey', '1', '0', '0', 'T'),               # third-party direct-key signature, non-exportable
        ('attest', '0', '1', '1', 'T'),                # attestation newer than (or of the same second as) the certification
        ('adopt', '0', '1', 'T'),                      # add_subkey of key 1, which has an identity: refused, both unchanged
        ('recert', '0', '1', '1', P5, '0', 'T'),       # key expiration 0
    ]
    full = small + [
        ('revuid', '0', '1', '3', 'T'),
        ('deluid', '0', '3'),
        ('certify', '0', '1', '1', '5', 'n', 'T'),
        ('certify', '0', '0', '1', '3', 'n', 'T'),      # a key certifying its own user id through the third-party call
        ('recert', '0', '0', '4', P4, '0', 'T'),
        ('revuid', '0', '0', '4', 'T'),
        ('protect', '0'), ('unlock', '0'), ('lock', '0'),
        ('deluid', '2', '1'), ('copy', '2'), ('reimport', '2'),
        ('adduid', '0', '1', '3', P2, '0', 'T'),       # the same identity a second time
        ('revkey', '1', 'T'),
        ('certkey', '1', '0', '1', 'T'), ('certkey', '0', '0', 'n', 'T'), ('certkey', '1', '2', '0', 'T'),
        ('deluid', '0', '11'),
        ('attest', '0', '1', '3', 'T'), ('attest', '0', '0', '4', 'T'),
        ('adopt', '1', '0', 'T'), ('adopt', '0', '2', 'T'), ('adduid', '0', '1', '6', P5, '1', 'T'),
    ]
    return {'core': core, 'small': small, 'full': full}[size]


def instantiate(seq, t0=2, collide=True):
    """fill in times (two consecutive steps share a second) and fresh subkey labels (10, 11, ...)"""
    out, nl = [], 10
    for i, c in enumerate(seq):
        t = t0 + (i // 2 if collide else i)
        c2 = []
        for x in c:
            if x == 'T': c2.append(str(t))
            elif x == 'L':
                c2.append(str(nl)); nl += 1
            else: c2.append(x)
        out.append(tuple(c2))
    return out


def random_walk(rng, n):
    """a random history over the whole alphabet with random targets, preferences and time steps"""
    cmds = list(PREAMBLE)
    t, nl, ncid = 2, 10, 6
    cids = {0: [1], 1: [5]}
    subs = []
    nobj = 2
    for _ in range(n):
        if rng.random() < 0.55:
            t += rng.choice((0, 0, 1, 1, 2, -1 if rng.random() < 0.1 else 1))
        k = rng.choice((0, 0, 0, 1)) if nobj == 2 else rng.choice((0, 0, 0, 1, 2, nobj - 1))
        pool = cids.get(0, [1]) + [1, 2, 5, 11]
        c = rng.choice(pool)
        isu = '0' if c >= 100 else '1'
        op = rng.choice(('adduid', 'adduid', 'recert', 'recert', 'certify', 'certify', 'certkey', 'revuid', 'attest', 'adopt', 'addsub', 'revsub', 'revkey', 'revoker',
                         'deluid', 'protect', 'unlock', 'lock', 'copy', 'reimport', 'publish'))
        P = rng.choice((P1, P2, P3, P4, P5))
        if op == 'adduid':
            if rng.random() < 0.25:
                ncid += 1; cid, isu2 = 100 + ncid, '0'
            elif rng.random() < 0.15:
                cid, isu2 = c, isu
            elif rng.random() < 0.2:
                cid, isu2 = rng.choice((11, 12, 21)), '1'          # names that contain 'uid1' / 'uid2' as a proper substring
            else:
                ncid += 1; cid, isu2 = ncid, '1'
            cids.setdefault(0, []).append(cid)
            cmds.append(('adduid', str(k), isu2, str(cid), P, rng.choice('001'), str(t)))
        elif op == 'recert':
            cmds.append(('recert', str(k), isu, str(c), P, rng.choice('001'), str(t)))
        elif op == 'certify':
            cmds.append(('certify', str(rng.choice((0, 1, 1))), str(k), isu, str(c), rng.choice('nnn01'), str(t)))
        elif op == 'certkey':
            cmds.append(('certkey', str(rng.choice((0, 1, 1))), str(k), rng.choice('n0011'), str(t)))
        elif op == 'revuid':
            if rng.random() < 0.5: cmds.append(('revuid', str(k), isu, str(c), str(t)))
        elif op == 'attest':
            if rng.random() < 0.6: cmds.append(('attest', str(k), isu, str(c), str(t)))
        elif op == 'adopt':
            if rng.random() < 0.5: cmds.append(('adopt', str(k), str(rng.choice((0, 1, nobj - 1))), str(t)))
        elif op == 'addsub':
            if len(subs) < 3:
                cs = rng.choice('01')
                cmds.append(('addsub', str(k), str(nl), cs, '2' if cs == '1' else '12', str(t))); subs.append(nl); nl += 1
        elif op == 'revsub':
            if subs and rng.random() < 0.6: cmds.append(('revsub', str(k), str(rng.choice(subs)), str(t)))
        elif op == 'revkey':
            if rng.random() < 0.25: cmds.append(('revkey', str(k), str(t)))
        elif op == 'revoker':
            if rng.random() < 0.4: cmds.append(('revoker', str(k), str(rng.choice((0, 1))), str(t)))
        elif op == 'deluid':
            if rng.random() < 0.5: cmds.append(('deluid', str(k), str(c)))
        elif op == 'publish':
            if nobj < 4:
                cmds.append(('publish', str(rng.choice((0, 1))))); nobj += 1
        else:
            cmds.append((op, str(k)))
    return cmds


def run(ctx):
    pgpy = load_repo()
    K14.check_pins(ctx, pgpy, {n: h for n, h in K14.PINS.items()}, 'the KeyStruct')
    cur = source_hashes15(pgpy)
    for n, h in sorted(PINS.items()):
        if cur.get(n) != h:
            ctx.broken.append('pinned source text of %s changed (the KeyHist model was written against %s, now %s)' % (n, h, cur.get(n)))
    import pgpy.pgp as pp
    saved = pp.datetime
    pp.datetime = FrozenNow
    d = Driver('c15')
    try:
        pre = len(PREAMBLE)
        # corpus: hand-written histories that run first
        for name, cmds in CORPUS:
            ctx.case('corpus', name, sample={'name': name, 'cmds': [' '.join(c) for c in cmds[:8]]})
            run_history(ctx, pgpy, d, cmds, 'corpus', case_extra={'name': name})
        regressions(ctx, pgpy, d)
        # exhaustive: every history of depth <= D over the alphabet after the preamble
        plan = [('full', 1), ('small', 2), ('core', 3)] if ctx.quick else [('full', 1), ('full', 2), ('small', 3), ('core', 4)]
        budget = ctx.n(30.0, 400.0)
        import time
        t0 = time.time()
        for size, depth in plan:
            A = alphabet(size)
            done = 0
            total = len(A) ** depth
            suite = 'exhaustive-depth-%d' % depth
            for seq in itertools.product(A, repeat=depth):
                if time.time() - t0 > budget:
                    break
                cmds = PREAMBLE + instantiate(seq)
                ctx.case(suite, tuple(cmds), sample={'cmds': [' '.join(c) for c in cmds[pre:]]})
                # shorter prefixes are histories of their own: compare and run the oracle on the last step only
                run_history(ctx, pgpy, d, cmds, suite, check_from=len(cmds) - 1, oracle_every=False, light=depth > 1)
                done += 1
            if done == total:
                ctx.exhaustive.append('all %d histories of depth %d over the %d operation instances of the %r alphabet (after the 4-step preamble on 2 keys)' % (total, depth, len(A), size))
            else:
                ctx.notes.append('depth %d: %d of %d histories within the time budget (lexicographic order)' % (depth, done, total))
        # random deep walks
        for i in range(ctx.n(12, 90)):
            cmds = random_walk(ctx.rng, 30)
            ctx.case('random-walk-30', tuple(cmds), sample={'cmds': [' '.join(c) for c in cmds[pre:pre + 10]]})
            run_history(ctx, pgpy, d, cmds, 'random-walk-30', check_from=pre, oracle_every=(not ctx.quick and i % 4 == 0))
    finally:
        pp.datetime = saved
        d.close()


CORPUS = [
    ('substring-names', PREAMBLE + [('adduid', '0', '1', '2', P2, '0', '2'), ('adduid', '0', '1', '11', P1, '1', '3'), ('adduid', '0', '1', '21', P3, '0', '3'),
                                    ('recert', '0', '1', '1', P2, '0', '4'), ('revuid', '0', '1', '2', '4'), ('deluid', '0', '1'), ('deluid', '0', '2'),
                                    ('adduid', '0', '1', '1', P2, '0', '5'), ('deluid', '0', '11'), ('deluid', '0', '1')]),
    ('direct-key-signatures', PREAMBLE + [('certkey', '1', '0', '0', '2'), ('certkey', '1', '0', '1', '2'), ('certkey', '1', '0', 'n', '3'), ('certkey', '0', '0', '0', '3'),
                                          ('addsub', '0', '10', '1', '2', '3'), ('publish', '0'), ('certkey', '1', '2', '0', '4'), ('copy', '0'), ('reimport', '0'),
                                          ('reimport', '2')]),
    ('same-second-selfsigs', PREAMBLE + [('recert', '0', '1', '1', P2, '0', '5'), ('recert', '0', '1', '1', P3, '0', '5'), ('copy', '0'), ('reimport', '0')]),
    ('revoke-then-recertify', PREAMBLE + [('revuid', '0', '1', '1', '3'), ('recert', '0', '1', '1', P2, '1', '3'), ('recert', '0', '1', '1', P1, '0', '2'), ('publish', '0')]),
    # repair 812bc0f: an identity revoked / attested AFTER an expiring certification keeps flags, preferences, primary mark; the key keeps its expiry
    ('revoked-after-expiring-certification', PREAMBLE + [('adduid', '0', '1', '3', P3, '1', '2'), ('revuid', '0', '1', '3', '5'), ('revuid', '0', '1', '1', '5'), ('publish', '0'),
                                                        ('copy', '0'), ('reimport', '0'), ('recert', '0', '1', '3', P2, '0', '6'), ('revuid', '0', '1', '3', '6')]),
    ('attestation-newer-than-certification', PREAMBLE + [('adduid', '0', '1', '3', P3, '1', '2'), ('attest', '0', '1', '3', '5'), ('attest', '0', '1', '1', '1'), ('attest', '0', '1', '1', '0'),
                                                         ('certify', '1', '0', '1', '3', 'n', '5'), ('attest', '0', '1', '3', '6'), ('revuid', '0', '1', '3', '6'), ('publish', '0'),
                                                         ('copy', '0'), ('reimport', '0'), ('adduid', '0', '0', '104', P4, '1', '7'), ('attest', '0', '0', '104', '8'), ('revuid', '0', '0', '104', '9')]),
    ('revoked-only-identity-still-signs', [('create', '0'), ('adduid', '0', '1', '1', P3, '1', '1'), ('revuid', '0', '1', '1', '5'), ('attest', '0', '1', '1', '5'),
                                           ('addsub', '0', '10', '1', '2', '6'), ('revkey', '0', '7'), ('reimport', '0')]),
    # repair a832629 / 1d6dbd1 / 96d5157: add_subkey of a key with identities is refused; a key whose only identity is an image certifies,
    # revokes and binds a signing subkey; key expiration 0 means never
    ('adopt-key-with-identities', PREAMBLE + [('adopt', '0', '1', '2'), ('adopt', '1', '0', '2'), ('adopt', '0', '0', '2'), ('publish', '1'), ('adopt', '0', '2', '3'),
                                              ('addsub', '0', '10', '1', '2', '3'), ('adopt', '1', '0', '4'), ('protect', '0'), ('adopt', '0', '1', '5'), ('reimport', '0')]),
    ('image-only-identity', [('create', '0'), ('create', '1'), ('adduid', '1', '1', '5', P1, '0', '1'), ('adduid', '0', '0', '104', P1, '1', '1'), ('recert', '0', '0', '104', P2, '0', '2'),
                             ('addsub', '0', '10', '1', '2', '3'), ('certify', '0', '1', '1', '5', 'n', '3'), ('revsub', '0', '10', '4'), ('revuid', '0', '0', '104', '4'),
                             ('adduid', '0', '1', '2', P3, '0', '5'), ('revkey', '0', '6'), ('reimport', '0'), ('publish', '0')]),
    ('key-expiration-zero', PREAMBLE + [('recert', '0', '1', '1', P5, '1', '2'), ('adduid', '0', '1', '2', P3, '0', '3'), ('recert', '0', '1', '2', P5, '0', '4'),
                                        ('adduid', '0', '1', '3', P5, '0', '4'), ('publish', '0'), ('reimport', '0'), ('copy', '0')]),
    ('three-primaries-revoke-middle', PREAMBLE + [('adduid', '0', '1', '2', P1, '1', '2'), ('adduid', '0', '1', '3', P1, '1', '3'), ('revuid', '0', '1', '2', '10'),
                                                 ('copy', '0'), ('reimport', '0')]),
    ('subkey-after-twin', PREAMBLE + [('publish', '0'), ('addsub', '0', '10', '1', '2', '4'), ('addsub', '0', '11', '0', '12', '4'), ('revsub', '0', '10', '4'),
                                      ('publish', '0'), ('reimport', '0')]),
    ('remove-and-readd', PREAMBLE + [('adduid', '0', '1', '2', P2, '0', '3'), ('deluid', '0', '1'), ('adduid', '0', '1', '1', P3, '1', '3'), ('deluid', '0', '2'),
                                     ('deluid', '0', '1'), ('revkey', '0', '4'), ('addsub', '0', '10', '1', '2', '4'), ('adduid', '0', '0', '104', P4, '0', '5'),
                                     ('adduid', '0', '1', '7', P1, '0', '5'), ('addsub', '0', '11', '1', '2', '6')]),
    ('protect-unlock', PREAMBLE + [('addsub', '0', '10', '1', '2', '2'), ('protect', '0'), ('recert', '0', '1', '1', P2, '0', '3'), ('unlock', '0'),
                                   ('recert', '0', '1', '1', P2, '0', '3'), ('copy', '0'), ('lock', '0'), ('revkey', '0', '4'), ('reimport', '0'), ('unlock', '0'),
                                   ('revoker', '0', '1', '5'), ('protect', '0'), ('publish', '0')]),
    ('nonexportable-third-party', PREAMBLE + [('certify', '1', '0', '1', '1', '0', '3'), ('certify', '1', '0', '1', '1', '1', '3'), ('publish', '0'), ('reimport', '0'),
                                              ('certify', '1', '2', '1', '1', 'n', '3'), ('copy', '2'), ('deluid', '2', '1')]),
]


def regressions(ctx, pgpy, d):
    """repair d951222 (stale user id order) and repair 812bc0f (selfsig = newest self-certification): the real code must follow the
    repaired model, not the old one"""
    suite = 'regression'
    # since 812bc0f a revocation no longer changes the sort key of an identity; a re-certification without the primary mark does
    cmds = PREAMBLE + [('adduid', '0', '1', '2', P1, '1', '2'), ('adduid', '0', '1', '3', P1, '1', '3'), ('recert', '0', '1', '2', P1, '0', '10')]
    ctx.case(suite, 'uid-order-after-resort', sample={'cmds': [' '.join(c) for c in cmds]})
    case = {'suite': suite, 'cmds': [list(c) for c in cmds]}
    try:
        rw = RealWorld(pgpy)
        d.call('reset')
        for c in cmds[:-1]:
            rw.do(c); d.call(*c)
        rw.do(cmds[-1])
        old, _ = strip_model(d.call('old', *cmds[-1]))
        st = rw.state()
        k = rw.objs[0]['k']
        with warnings.catch_warnings():
            warnings.simplefilter('ignore')
            if st == old or bytes(copy.copy(k)) != bytes(k):
                ctx.fail(suite, 'user id list left unsorted by SorteDeque.resort: a copy exports the user ids in another order', case)
    except Exception as ex:
        from .common import DriverError
        if isinstance(ex, DriverError):
            raise
        ctx.fail(suite, 'exception while examining the keys: %s: %s' % (type(ex).__name__, str(ex)[:120]), case)
    # 812bc0f: the witnesses of Props/C15.v C15_selfsig_old_refuted (identity certified with a key expiration, then revoked / attested)
    for name, last in (('selfsig-after-revocation', ('revuid', '0', '1', '1', '5')), ('selfsig-after-attestation', ('attest', '0', '1', '1', '5'))):
        cmds = [('create', '0'), ('adduid', '0', '1', '1', P3, '1', '1'), last]
        ctx.case(suite, name, sample={'cmds': [' '.join(c) for c in cmds]})
        case = {'suite': suite, 'cmds': [list(c) for c in cmds]}
        try:
            rw = RealWorld(pgpy)
            d.call('reset')
            for c in cmds:
                rw.do(c); d.call(*c)
            new, _ = strip_model(d.call('state'))
            old, _ = strip_model(d.call('state_old'))
            st = rw.state()
            k = rw.objs[0]['k']
            with warnings.catch_warnings():
                warnings.simplefilter('ignore')
                u = k.userids[0]
                ss = u.selfsig
                direct = (ss is not None and int(ss.type) == 0x13 and u.is_primary and k.expires_at is not None
                          and int((k.expires_at - k.created).total_seconds()) == 630720000 and sum(int(f) for f in ss.key_flags) == 12)
            if new == old:
                ctx.broken.append('regression %s: the model before repair 812bc0f does not differ from the repaired one on its own witness' % name)
            if st == old or st != new or not direct:
                ctx.fail(suite, 'a certification revocation / attestation by the key hides the self-certification: flags, primary mark and key '
                                'expiration of the identity read as unset (PGPUID.selfsig before repair 812bc0f)', case)
        except Exception as ex:
            from .common import DriverError
            if isinstance(ex, DriverError):
                raise
            ctx.fail(suite, 'exception while examining the keys: %s: %s' % (type(ex).__name__, str(ex)[:120]), case)


# ------------------------------------------------------------------ shared with C14
def history_keys_for_c14(ctx, n):
    """keys made by PGPy's own operations (random histories), then the C14 direct oracles with real verification"""
    pgpy = load_repo()
    import pgpy.pgp as pp
    saved = pp.datetime
    pp.datetime = FrozenNow
    try:
        for name, cmds in CORPUS:
            for m in range(len(PREAMBLE) + 1, len(cmds) + 1):        # every prefix is a history of its own
                ctx.case('history', (name, m), sample={'name': name, 'steps': m})
                c14_history_case(ctx, pgpy, cmds[:m])
        for _ in range(n):
            cmds = random_walk(ctx.rng, ctx.rng.randrange(4, 14))
            ctx.case('history', tuple(cmds), sample={'cmds': [' '.join(c) for c in cmds[4:12]]})
            c14_history_case(ctx, pgpy, cmds)
    finally:
        pp.datetime = saved


def c14_history_case(ctx, pgpy, cmds):
    suite = 'history'
    case = {'suite': suite, 'cmds': [list(c) for c in cmds]}
    try:
        c14_history_case_(ctx, pgpy, cmds, suite, case)
    except Exception as ex:
        ctx.fail(suite, 'exception while examining the keys: %s: %s' % (type(ex).__name__, str(ex)[:120]), case)


def c14_history_case_(ctx, pgpy, cmds, suite, case):
    rw = RealWorld(pgpy)
    for c in cmds:
        rw.do(c)
    with warnings.catch_warnings():
        warnings.simplefilter('ignore')
        fails = []
        if rw.getuid_fail:
            fails.append('PGPKey.get_uid: ' + rw.getuid_fail)
        for i, o in enumerate(rw.objs):
            k = o['k']
            b1 = bytes(k)
            if not rw.export_ok(k):
                fails.append('object %d: bytes(key) is not key + exportable signatures, user ids and subkeys with their exportable signatures' % i)
            if bytes(copy.copy(k)) != b1:
                fails.append('object %d: a copy does not export identically' % i)
            kid = k.fingerprint.keyid
            nonexp_self = any((not s.exportable) and s.signer == kid for u in k._uids for s in u._signatures)
            for what, blob in (('binary', b1), ('armored', str(k))):
                k2 = pgpy.PGPKey.from_blob(blob)[0]
                rw.verify_all(k2, 're-import (%s) of object %d' % (what, i), fails)
                a, b = rw.names(k2), rw.names(k)
                if (a != b) if not nonexp_self else (sorted(a) != sorted(b)):
                    fails.append('object %d (%s): identities / exportable signatures differ after re-import' % (i, what))
                if [(rw.lab(s), [bytes(x.__bytearray__()) for x in s._signatures if not x.embedded and x.exportable]) for s in k._children.values()] != \
                   [(rw.lab(s), [bytes(x.__bytearray__()) for x in s._signatures if not x.embedded]) for s in k2._children.values()]:
                    fails.append('object %d (%s): subkeys / binding signatures differ after re-import' % (i, what))
                if rw.keysigs(k2)[0] != rw.keysigs(k)[0]:
                    fails.append('object %d (%s): signatures on the key itself differ after re-import' % (i, what))
                if not nonexp_self and bytes(k2) != b1:
                    fails.append('object %d (%s): bytes(import(export)) differs' % (i, what))
                if bytes(pgpy.PGPKey.from_blob(bytes(k2))[0]) != bytes(k2):
                    fails.append('object %d (%s): second round trip is not the identity' % (i, what))
        blob = b''.join(bytes(o['k']) for o in rw.objs)
        ids = [(rw.lab(o['k']), o['k'].is_public) for o in rw.objs]
        if len(set(ids)) == len(ids) and rw.objs:
            _, ks = pgpy.PGPKey.from_blob(blob)
            if [rw.names(k) for k in ks.values()] != [rw.names(pgpy.PGPKey.from_blob(bytes(o['k']))[0]) for o in rw.objs]:
                fails.append('concatenation of %d keys is not split into the same keys' % len(rw.objs))
        if fails:
            ctx.fail(suite, '; '.join(fails[:3]), case)


def replay_history_for_c14(ctx, case):
    pgpy = load_repo()
    import pgpy.pgp as pp
    saved = pp.datetime
    pp.datetime = FrozenNow
    before = len(ctx.violations)
    try:
        c14_history_case(ctx, pgpy, [tuple(c) for c in case['cmds']])
    finally:
        pp.datetime = saved
    return len(ctx.violations) > before


def replay(ctx, case):
    pgpy = load_repo()
    import pgpy.pgp as pp
    saved = pp.datetime
    pp.datetime = FrozenNow
    d = Driver('c15')
    before = len(ctx.violations)
    try:
        run_history(ctx, pgpy, d, [tuple(c) for c in case['cmds']], case.get('suite', 'replay'))
    finally:
        pp.datetime = saved
        d.close()
    return len(ctx.violations) > before
