"""C16 -- key-usage policy.

Real keys are assembled packet by packet from a pool of RSA-1024 key material (every component can sign and encrypt, so
which component is used depends on the usage flags alone): primary + user ids with self-signatures carrying a chosen flag set
+ 0..3 subkeys with binding signatures carrying chosen flag sets (several per subkey = re-binding), in the four key forms
public / private-unprotected / private-locked / private-unlocked, with _require_usage_flags on and off.

(a) correspondence: the outcome of every operation on the real key (which component's key id the produced signature /
    session-key packet names, or which refusal / crash) against the extracted model (Model/Policy.v) evaluated on a
    description READ BACK from the key object (stored signature order, creation times, flags, who issued them).
(b) property oracle on the implementation alone, from the flag sets the harness put in: the first capable component in the
    order primary, subkeys is used, the output names it and verifies / decrypts under exactly that component; no capable
    component -> refusal (enforcement on); private operations refuse on public and locked keys, encryption refuses on private
    keys, a key without identity refuses all but certification, decryption finds the addressed subkey; re-binding a subkey
    changes what is selected; a certification revocation / attestation by the key - newer than the self-certification, with or
    without a KeyFlags subpacket of its own - changes nothing (repair 812bc0f); key flags that sit only in the unhashed area of the
    self-certification grant nothing and crash nothing (repair df70557).
Key forms: the four uniform ones, and MIXED protection 'm:<letters>[:u]' - one letter per component (p = private without passphrase,
l = passphrase-protected), ':u' = inside `with key.unlock()`: the conditions is_unlocked / is_public are those of the component that does
the work (repair cab6d36).  An unknown user= is a PGPError refusal, a subkey without binding signature in effect grants nothing (a0cb78f);
a key whose only identity is a user attribute takes its flags from it (1d6dbd1).
The source text of the policy code and the @KeyAction lines are pinned."""
import hashlib, inspect, logging, warnings
from datetime import datetime, timezone, timedelta

from .common import Driver, Batch, load_repo

PINNED = {
    'KeyAction.usage': '16a7e9cd1f721410',
    'KeyAction.check_attributes': '5bc1ee5f304ffbd0',
    'KeyAction.__call__': 'c8bb870361fccd66',
    'PGPKey._get_key_flags': '499d38d8d66239a4',
    'PGPKey.self_signatures': '818818841fb94aad',
    'PGPKey.get_uid': '02f8faf42768e92d',
    'PGPKey.is_public': 'ec42575bc2494da7',
    'PGPKey.is_protected': '487fd21efa346bd6',
    'PGPKey.is_unlocked': 'ab5c0e24e60a8fc7',
    'PGPUID.selfsig': 'f5b0a4b25ee24849',
    'PGPSignature.key_flags': '3812ad70d8c2de69',
}
DECORATORS = {
    'sign': '@KeyAction(KeyFlags.Sign, is_unlocked=True, is_public=False)',
    'certify': '@KeyAction(KeyFlags.Certify, is_unlocked=True, is_public=False)',
    'revoke': '@KeyAction(KeyFlags.Certify, is_unlocked=True, is_public=False)',
    'revoker': '@KeyAction(is_unlocked=True, is_public=False)',
    'bind': '@KeyAction(is_unlocked=True, is_public=False)',
    'encrypt': '@KeyAction(KeyFlags.EncryptCommunications, KeyFlags.EncryptStorage, is_public=True)',
    'decrypt': '@KeyAction(is_unlocked=True, is_public=False)',
}
OPS = ('sign', 'certify', 'revoke', 'revoker', 'bind', 'encrypt', 'decrypt')
REQ = {'sign': 2, 'certify': 1, 'revoke': 1, 'revoker': 0, 'bind': 0, 'encrypt': 12, 'decrypt': 0}
FORMS = ('public', 'private', 'locked', 'unlocked')
CERTIFY, SIGN, ENCC, ENCS, AUTH = 1, 2, 4, 8, 32
IMAGE = 3           # index of the user ATTRIBUTE (a JPEG) among the identities of the pool key


def comp_forms(form, n):
    """the form of each of the n components (receiver first) for a uniform or a mixed form string"""
    if form in FORMS:
        return [form] * n
    parts = form.split(':')
    m = {'p': 'private', 'l': 'unlocked' if len(parts) > 2 else 'locked'}
    return [m[c] for c in parts[1]][:n]


def inside_unlock(form):
    return form == 'unlocked' or form.endswith(':u')
NOFLAGS = -1        # self-signature / binding without a KeyFlags subpacket


def T(n):
    return datetime(2021, 1, 1, tzinfo=timezone.utc) + timedelta(days=n)


def digest(f):
    f = getattr(f, 'fget', f)
    return hashlib.sha256(inspect.getsource(f).encode()).hexdigest()[:16]


def check_pins(ctx, pgpy):
    from pgpy import decorators
    ns = {'KeyAction': decorators.KeyAction, 'PGPKey': pgpy.PGPKey, 'PGPUID': pgpy.PGPUID, 'PGPSignature': pgpy.PGPSignature}
    for name, want in PINNED.items():
        c, m = name.split('.')
        got = digest(inspect.getattr_static(ns[c], m))
        if got != want:
            ctx.broken.append('pinned source of %s changed (sha256/16 %s, model written against %s): re-inspect Model/Policy.v' % (name, got, want))
    for m, want in DECORATORS.items():
        got = inspect.getsource(getattr(pgpy.PGPKey, m)).splitlines()[0].strip()
        if got != want:
            ctx.broken.append('decorator of PGPKey.%s changed: %r (operation table of Model/Policy.v says %r)' % (m, got, want))


class RsaMemo:
    """cryptography re-validates an RSA private key (primality checks, ~6 ms for 1024 bits) every time PGPy turns its numbers into a
    key object, i.e. on every signature / decryption.  The conversion is a pure function of the numbers: memoise it for the run."""

    def __enter__(self):
        from cryptography.hazmat.primitives.asymmetric import rsa
        self.rsa, self.orig, memo = rsa, rsa.RSAPrivateNumbers.private_key, {}
        orig = self.orig

        def private_key(numbers, *a, **k):
            key = (numbers.p, numbers.q, numbers.d, numbers.public_numbers.e, numbers.public_numbers.n)
            if key not in memo:
                memo[key] = orig(numbers, *a, **k)
            return memo[key]
        rsa.RSAPrivateNumbers.private_key = private_key
        return self

    def __exit__(self, *exc):
        self.rsa.RSAPrivateNumbers.private_key = self.orig


class LogTap(logging.Handler):
    def __init__(self):
        super().__init__(level=logging.DEBUG)
        self.records = []

    def emit(self, r):
        self.records.append((r.levelno, r.getMessage()))


class World:
    """key material, packets and cached signatures; assembles real keys for a specification"""

    def __init__(self, pgpy, rng):
        from pgpy import PGPKey, PGPUID, PGPMessage
        from pgpy.constants import PubKeyAlgorithm as A, KeyFlags, HashAlgorithm as H, SymmetricKeyAlgorithm as S, SignatureType
        self.pgpy, self.rng, self.KeyFlags, self.H, self.SignatureType = pgpy, rng, KeyFlags, H, SignatureType
        self.PGPKey, self.PGPUID, self.PGPMessage = PGPKey, PGPUID, PGPMessage
        self.tap = LogTap()
        logging.getLogger().addHandler(self.tap)
        logging.getLogger().setLevel(logging.WARNING)
        with warnings.catch_warnings():
            warnings.simplefilter('ignore')
            pool = [PGPKey.new(A.RSAEncryptOrSign, 1024, created=T(0)) for _ in range(6)]
            self.bare = [bytes(k) for k in pool]
            m = pool[0]
            self.uid_ids = [('u1', 'c1', 'e1@example.com'), ('u2', 'c2', ''), ('u3', '', '')]
            self.muids = []
            for j, (n, c, e) in enumerate(self.uid_ids):
                u = PGPUID.new(n, comment=c, email=e)
                m.add_uid(u, usage={KeyFlags.Sign}, hashes=[H.SHA256], ciphers=[S.AES128], created=T(0))
                self.muids.append(u)
            for i in (1, 2, 3):
                m.add_subkey(pool[i], usage={KeyFlags.EncryptCommunications}, created=T(0))
            # a user attribute (image) that is NOT attached to the pool key (its packets are used when keys are assembled)
            ua = PGPUID.new(bytearray(b'\xff\xd8\xff\xe0\x00\x10JFIF' + bytes(12)))
            ua._parent = m
            self.muids.append(ua)
            self.master = m
            self.msubs = pool[1:4]
            # a second key: certification target, revoker, spare subkey for bind
            f = pool[4]
            f.add_uid(PGPUID.new('foreign'), usage={KeyFlags.Sign, KeyFlags.EncryptCommunications}, hashes=[H.SHA256], ciphers=[S.AES128], created=T(0))
            f.add_subkey(pool[5], usage={KeyFlags.EncryptCommunications}, created=T(0))
            self.foreign, self.spare_sub = f, pool[5]
            # protected copy of the master (fast S2K: the cost parameter is irrelevant here)
            old = H.SHA256._tuned_count
            H.SHA256._tuned_count = 0
            try:
                ml, _ = PGPKey.from_blob(bytes(m))
                ml.protect('pw', S.AES128, H.SHA256)
            finally:
                H.SHA256._tuned_count = old
            comps = lambda k: [k] + list(k.subkeys.values())
            self.pkt = {'private': [bytes(c._key) for c in comps(m)], 'public': [bytes(c._key) for c in comps(m.pubkey)],
                        'locked': [bytes(c._key) for c in comps(ml)]}
            self.pkt['unlocked'] = self.pkt['locked']
            self.uidpkt = [bytes(u._uid) for u in self.muids]
            self.keyids = [str(c.fingerprint)[-16:] for c in comps(m)]
            self.fprs = [str(c.fingerprint) for c in comps(m)]
            # messages addressed to each component (made with enforcement off so that flags do not matter)
            self.enc = []
            raw_encrypt = PGPKey.encrypt.__wrapped__          # below the decorator: encrypt to exactly this component
            self.raw_encrypt = raw_encrypt
            for c in comps(m.pubkey):
                self.enc.append(raw_encrypt(c, PGPMessage.new('secret %s' % str(c.fingerprint)[-8:]), cipher=S.AES128))
            self.enc_foreign = raw_encrypt(f.pubkey, PGPMessage.new('not for you'), cipher=S.AES128)
            self.tap.records.clear()
        self.sigcache = {}

    # -- flag sets
    def fset(self, mask):
        return None if mask == NOFLAGS else {f for f in self.KeyFlags if int(f) & mask}

    @staticmethod
    def mask(flags):
        return sum(int(f) for f in flags)

    # -- cached signature packets
    def selfsig(self, j, mask, t):
        key = ('u', j, mask, t)
        if key not in self.sigcache:
            with warnings.catch_warnings():
                warnings.simplefilter('ignore')
                s = self.master.certify(self.muids[j], self.SignatureType.Positive_Cert, usage=self.fset(mask), hashes=[self.H.SHA256], created=T(t))
            self.sigcache[key] = bytes(s)
        return self.sigcache[key]

    def othersig(self, j, mask, t, kind):
        """kind 'rev': a certification revocation (0x30) by the key on user id j; 'att': an attestation (0x16); both may carry a (hashed)
        KeyFlags subpacket of their own (mask != NOFLAGS) - PGPUID.selfsig must not read them.  'uflags': a Positive_Cert whose KeyFlags
        subpacket sits in the UNHASHED area only (not covered by the signature: it grants nothing)"""
        key = (kind, j, mask, t)
        if key not in self.sigcache:
            ST = self.SignatureType
            with warnings.catch_warnings():
                warnings.simplefilter('ignore')
                if kind == 'uflags':
                    s = self.master.certify(self.muids[j], ST.Positive_Cert, usage=None, hashes=[self.H.SHA256], created=T(t))
                    if mask != NOFLAGS:
                        s._signature.subpackets.addnew('KeyFlags', hashed=False, flags=self.fset(mask))
                        s._signature.update_hlen()
                elif kind == 'rev':
                    s = self.master.certify(self.muids[j], ST.CertRevocation, usage=self.fset(mask), hash=self.H.SHA256, created=T(t))
                elif kind == 'att':
                    s = self.master.certify(self.muids[j], ST.Attestation, usage=self.fset(mask), attested_certifications=[], hash=self.H.SHA256, created=T(t))
                else:
                    raise ValueError(kind)
            self.sigcache[key] = bytes(s)
        return self.sigcache[key]

    def bindsig(self, i, mask, t, expired=False):
        key = ('b', i, mask, t, expired)
        if key not in self.sigcache:
            with warnings.catch_warnings():
                warnings.simplefilter('ignore')
                kw = {'expires': timedelta(days=1)} if expired else {}
                s = self.master.bind(self.msubs[i - 1], usage=self.fset(mask), created=T(t), **kw)
            self.sigcache[key] = bytes(s)
        return self.sigcache[key]

    def assemble(self, form, uids, subs, shuffle=None):
        """uids: [[j, [[mask, t] or [mask, t, kind], ...]], ...] (j = IMAGE: the user attribute; kind: see othersig; absent = a Positive_Cert
        with hashed key flags); subs: [[[mask, t] or [mask, t, 'exp'], ...], ...] (subkey i+1 of the pool; 'exp' = a binding signature that
        expired a day after it was made).  form: uniform or mixed (see comp_forms).  A real PGPKey."""
        pform = {'private': 'private', 'public': 'public', 'locked': 'locked', 'unlocked': 'locked'}
        cf = [pform[f] for f in comp_forms(form, 1 + len(subs))]
        blob = bytearray(self.pkt[cf[0]][0])
        for j, sigs in uids:
            blob += self.uidpkt[j]
            sigs = list(sigs)
            if shuffle is not None: shuffle.shuffle(sigs)
            for sg in sigs:
                blob += self.selfsig(j, sg[0], sg[1]) if len(sg) == 2 else self.othersig(j, sg[0], sg[1], sg[2])
        for i, sigs in enumerate(subs):
            blob += self.pkt[cf[i + 1]][i + 1]
            sigs = list(sigs)
            if shuffle is not None: shuffle.shuffle(sigs)
            for sg in sigs:
                blob += self.bindsig(i + 1, sg[0], sg[1], expired=(len(sg) == 3))
        with warnings.catch_warnings():
            warnings.simplefilter('ignore')
            k, others = self.PGPKey.from_blob(bytes(blob))
        assert len(others) <= 1
        return k


# ------------------------------------------------------------------------------------------------ reading a key back
def describe(w, k, form, enforce, tok):
    """the model's input, read off the real key object (`form` is not used: the lock state of every component is read from the object)"""
    ST = w.SignatureType
    CERTS = (ST.Generic_Cert, ST.Persona_Cert, ST.Casual_Cert, ST.Positive_Cert)

    def sig_s(s, qual):
        # s_flags of the model: the flags of the KeyFlags subpacket in the HASHED area (read from the subpacket itself, not through
        # PGPSignature.key_flags, which is part of what the correspondence checks)
        sp = next(iter(s._signature.subpackets['h_KeyFlags']), None)
        return '%x/%x/%d/%d' % (int(s.created.timestamp()), 0 if sp is None else World.mask(sp.flags), int(qual), int(s.type in CERTS))

    def attr_s(c):
        # packet class, keymaterial.s2k set, secret material present - below is_public / is_protected / is_unlocked
        from pgpy.packet import Private
        pub = not isinstance(c._key, Private)
        prot = (not pub) and bool(c._key.keymaterial.s2k)
        unl = prot and 0 not in list(c._key.keymaterial)
        return '%d%d%d' % (int(pub), int(prot), int(unl))
    holder = k if k.is_primary else k.parent            # a subkey receiver: get_uid searches the parent's identities
    kid = str(holder.fingerprint)[-16:]
    uids = []
    for u in holder._uids:
        ids = [x for x in (u.name, u.comment, u.email) if x is not None]
        sigs = [sig_s(s, s.signer == kid) for s in u._signatures]
        uids.append('%s@%s@%d' % (','.join('%x' % tok(x) for x in ids) or '-', ','.join(sigs) or '-', int(bool(u.is_uid))))

    def bind_s(c, parentid):
        return ','.join(sig_s(s, s.type == ST.Subkey_Binding and s.signer == parentid and not s.is_expired) for s in c._signatures) or '-'
    subs = ['%s@%s' % (bind_s(c, kid), attr_s(c)) for c in k.subkeys.values()]
    own = '-' if k.is_primary else bind_s(k, kid)
    bits = '1%d%s%d' % (int(k.is_primary), attr_s(k), int(enforce))
    return '%s %s %s %s' % (bits, ';'.join(uids) or '_', own, ';'.join(subs) or '_')


# ------------------------------------------------------------------------------------------------ running an operation
def classify(ex):
    name, msg = type(ex).__name__, str(ex)
    if name == 'PGPError':
        if msg == 'No key!': return 'nokey'
        if msg.startswith('Key is not complete'): return 'incomplete'
        if 'has no user id matching' in msg: return 'nouser'
        if 'does not have the required usage flag' in msg: return 'nousage'
        if msg.startswith('Expected: is_unlocked'): return 'attr:is_unlocked'
        if msg.startswith('Expected: is_public'): return 'attr:is_public'
        return 'pgperror:' + msg[:60]
    if name == 'AttributeError' and "'NoneType' object has no attribute 'selfsig'" in msg: return 'crash:user'
    if name == 'RuntimeError' and 'StopIteration' in msg: return 'crash:stopiteration'
    return 'exc:%s:%s' % (name, msg[:80])


def do_op(w, k, op, user, comps_ids=None):
    """returns (outcome string, produced object or None).  comps_ids: key ids of the receiver and its subkeys"""
    ids = comps_ids or ([str(k.fingerprint)[-16:]] + list(k.subkeys))
    kw = {} if user is None else {'user': user}
    w.tap.records.clear()
    try:
        with warnings.catch_warnings():
            warnings.simplefilter('ignore')
            if op == 'sign':
                r = k.sign('signed text', created=T(40), **kw); named = r.signer
            elif op == 'certify':
                r = k.certify(w.foreign.userids[0], created=T(40), hash=w.H.SHA256, **kw); named = r.signer
            elif op == 'revoke':
                r = k.revoke(w.foreign.userids[0], created=T(40), hash=w.H.SHA256, **kw); named = r.signer
            elif op == 'revoker':
                r = k.revoker(w.foreign.pubkey, created=T(40), hash=w.H.SHA256); named = r.signer
            elif op == 'bind':
                # bind() hashes the subkey together with its primary and cross-signs: the target must be registered as a child.
                # A spare private subkey is attached for the duration of the call (bind carries no usage flags, so no scan sees it).
                sp = w.spare_sub
                sid = str(sp.fingerprint)[-16:]
                k._children[sid] = sp; sp._parent = k
                try:
                    r = k.bind(sp, usage={w.KeyFlags.Authentication}, created=T(40), hash=w.H.SHA256); named = r.signer
                finally:
                    del k._children[sid]; sp._parent = w.foreign
            elif op == 'encrypt':
                r = k.encrypt(w.PGPMessage.new('to be encrypted'), **kw)
                e = list(r.encrypters)
                named = e[0] if len(e) == 1 else None
            elif op == 'decrypt':
                r = k.decrypt(w.enc[w.keyids.index(ids[0])] if ids[0] in w.keyids else w.enc[0])
                named = ids[0]
            else:
                raise ValueError(op)
    except Exception as ex:
        return classify(ex), None
    warned = any(lv >= logging.WARNING and 'does not have the required usage flag' in m for lv, m in w.tap.records)
    if named not in ids:
        return 'run:?%s:%d' % (named, warned), r
    return 'run:%d:%d' % (ids.index(named), warned), r


def names_used_key(w, k, op, out, r, ids):
    """the output names exactly the component that produced it: it verifies / decrypts under that component and carries its
    fingerprint.  Returns an error string or None."""
    if not out.startswith('run:') or '?' in out:
        return None if not out.startswith('run:') else 'output names a key that is not a component of the receiver'
    idx = int(out.split(':')[1])
    with warnings.catch_warnings():
        warnings.simplefilter('ignore')
        if op in ('sign', 'certify', 'revoke', 'revoker', 'bind'):
            if r.signer_fingerprint != w.fprs[w.keyids.index(ids[idx])]:
                return 'IssuerFingerprint is not the fingerprint of the component named by Issuer'
            subject = {'sign': 'signed text', 'certify': w.foreign.userids[0], 'revoke': w.foreign.userids[0]}.get(op)
            if subject is not None:
                lone, _ = w.PGPKey.from_blob(w.bare[w.keyids.index(ids[idx])])     # that component's key material alone
                try:
                    ok = bool(lone.pubkey.verify(subject, r))
                except Exception as ex:
                    return 'verification under the named component failed: %s' % type(ex).__name__
                if not ok:
                    return 'signature does not verify under the component it names'
        elif op == 'encrypt':
            lone, _ = w.PGPKey.from_blob(w.bare[w.keyids.index(ids[idx])])
            lone._require_usage_flags = False
            try:
                # a bare key has no identity: go below the decorator, to the component's own decrypt
                pt = w.PGPKey.decrypt.__wrapped__(lone, r)
                if pt.message != 'to be encrypted':
                    return 'session key packet names a component that does not decrypt it'
            except Exception as ex:
                return 'decryption under the named component failed: %s %s' % (type(ex).__name__, ex)
        elif op == 'decrypt':
            if r.message != 'secret %s' % w.fprs[w.keyids.index(ids[0])][-8:]:
                return 'wrong plaintext'
    return None


def oracle(req, flags, enforce, form, op, has_uid):
    """the property text.  flags: most recent flag mask per component (primary already includes Certify); form: uniform or mixed.
    The conditions (private + unlocked for everything but encrypt, public for encrypt) are those of the component that does the work.
    -> 'refuse' | ('use', idx) | 'any'"""
    if not has_uid and op != 'certify':
        return 'refuse'
    cf = comp_forms(form, len(flags))
    choice, free = 0, False
    if req:
        cap = [i for i, f in enumerate(flags) if f & req]
        if cap: choice = cap[0]
        elif enforce: return 'refuse'
        else: choice, free = len(flags) - 1, True            # the loop variable still holds the last component
    if op == 'encrypt':
        if cf[choice] != 'public': return 'refuse'
    elif cf[choice] in ('public', 'locked'):
        return 'refuse'
    return 'any' if free else ('use', choice)


REFUSALS = ('nokey', 'incomplete', 'nouser', 'nousage', 'attr:is_unlocked', 'attr:is_public')


class Runner:
    def __init__(self, ctx, w, d):
        self.ctx, self.w, self.d = ctx, w, d
        self.toks = {}
        self.bt = Batch(ctx, d, 'policy', 'outcome of the operation differs from the model')

    def set_suite(self, suite):
        if self.bt.suite != suite:
            self.bt.flush()
            self.bt.suite = suite

    def tok(self, s):
        return self.toks.setdefault(s, len(self.toks) + 0x61)

    def one(self, suite, k, form, enforce, op, user, case, flags=None, has_uid=True, verify=True):
        """one operation on one real key: model correspondence + property oracle"""
        ctx, w = self.ctx, self.w
        # the switch that counts is the one on the key the operation is CALLED ON; its subkey objects carry the opposite value here,
        # so that reading it from another component shows
        k._require_usage_flags = enforce
        for c in k.subkeys.values():
            c._require_usage_flags = not enforce
        ids = [str(k.fingerprint)[-16:]] + list(k.subkeys)
        out, r = do_op(w, k, op, user, ids)
        desc = describe(w, k, form, enforce, self.tok)
        ut = '-' if user is None else '%x' % self.tok(user)
        self.set_suite(suite)
        self.bt.add('perform %s %s %s' % (desc, op, ut), out, case)
        ctx.case(suite, (suite, desc, op, ut), nontrivial=out.startswith('run:'), sample=dict(case, impl=out))
        if flags is not None:
            want = oracle(REQ[op], flags, enforce, form, op, has_uid)
            if want == 'refuse':
                if out not in REFUSALS:
                    ctx.fail(suite, 'operation must refuse but did not', dict(case, impl=out))
            elif want == 'any':
                if not out.startswith('run:'):
                    ctx.fail(suite, 'enforcement is off and the preconditions hold, yet the operation refused', dict(case, impl=out))
            elif out != 'run:%d:0' % want[1]:
                ctx.fail(suite, 'not the first capable component in the order primary, subkeys', dict(case, impl=out, want=want[1]))
        if verify and r is not None:
            err = names_used_key(w, k, op, out, r, ids)
            if err:
                ctx.fail(suite, err, dict(case, impl=out))
        return out

    def with_form(self, form, k, fn):
        if inside_unlock(form):
            with warnings.catch_warnings():
                warnings.simplefilter('ignore')
                with k.unlock('pw'):
                    return fn()
        return fn()


def recent(sigs):
    """the flag mask in force for a list [[mask, t] or [mask, t, kind], ...] with distinct t: that of the most recent CERTIFICATION
    (entries of kind 'rev' / 'att' are not certifications; kind 'uflags' is a certification whose flags are not signed: none)"""
    certs = [s for s in sigs if len(s) == 2 or s[2] == 'uflags']       # (for a subkey: 'exp' = an expired binding, not in effect)
    if not certs:
        return 0
    s = max(certs, key=lambda s: s[1])
    return 0 if (s[0] == NOFLAGS or len(s) == 3) else s[0]


def sweep_vectors(ctx, run, family, max_subs, forms, ops, suite, verify_every=1):
    """every assignment of a flag set of `family` to the primary's only user id and to 0..max_subs subkeys"""
    w = run.w
    n = 0

    def vectors(nsub):
        if nsub == 0:
            yield []
        else:
            for rest in vectors(nsub - 1):
                for f in family:
                    yield rest + [f]
    for nsub in range(0, max_subs + 1):
        for pf in family:
            for sv in vectors(nsub):
                uids = [[0, [[pf, 0]]]]
                subs = [[[f, 0]] for f in sv]
                flags = [CERTIFY | (0 if pf == NOFLAGS else pf)] + [0 if f == NOFLAGS else f for f in sv]
                for form in forms:
                    k = w.assemble(form, uids, subs)

                    def body():
                        nonlocal n
                        for enforce in (True, False):
                            for op in ops:
                                n += 1
                                case = {'suite': suite, 'form': form, 'uids': uids, 'subs': subs, 'op': op, 'user': None, 'enforce': enforce}
                                run.one(suite, k, form, enforce, op, None, case, flags=flags, verify=(n % verify_every == 0))
                    run.with_form(form, k, body)
    run.bt.flush()
    return n


def sweep_identity(ctx, run, family, suite):
    """two user ids with different flag sets (+ a third without flags subpacket), selection by name / comment / e-mail / unknown"""
    w = run.w
    # (a proper SUBSTRING of a name / comment / e-mail names no identity: 'u', 'c', 'e1', 'example.com', 'u1 ' behave like 'nobody')
    users = [None, 'u1', 'u2', 'c2', 'e1@example.com', 'u3', 'nobody', 'u', 'c', 'e1', 'example.com', 'u1 ']
    n = 0
    for f1 in family:
        for f2 in family:
            for sv in ([], [SIGN], [ENCC | ENCS]):
                uids = [[0, [[f1, 0]]], [1, [[f2, 0]]], [2, [[NOFLAGS, 0]]]]
                subs = [[[f, 0]] for f in sv]
                for form in ('private', 'public'):
                    k = w.assemble(form, uids, subs)
                    for user in users:
                        pf = {None: f1, 'u1': f1, 'e1@example.com': f1, 'u2': f2, 'c2': f2, 'u3': 0}.get(user)
                        for enforce in (True, False):
                            for op in ('sign', 'certify', 'encrypt'):
                                n += 1
                                case = {'suite': suite, 'form': form, 'uids': uids, 'subs': subs, 'op': op, 'user': user, 'enforce': enforce}
                                flags = None if pf is None else [CERTIFY | (0 if pf == NOFLAGS else pf)] + list(sv)
                                out = run.one(suite, k, form, enforce, op, user, case, flags=flags, verify=(n % 4 == 0))
                                if pf is None and out != 'nouser':
                                    ctx.fail(suite, 'an unknown user= is not refused with PGPError before anything else happens', dict(case, impl=out))
    run.bt.flush()
    return n


def sweep_history(ctx, run, family, suite, count):
    """several self-signatures per user id and several bindings per subkey (re-binding), packets in shuffled order"""
    w, rng = run.w, ctx.rng
    for n in range(count):
        nsub = rng.randrange(0, 4)
        uids = [[0, [[rng.choice(family), t] for t in rng.sample(range(0, 9), rng.randrange(1, 4))]]]
        r = rng.random()
        if r < 0.45:
            # the identity is revoked / attested after its newest certification (sometimes with a KeyFlags subpacket of its own)
            uids[0][1].append([rng.choice((NOFLAGS, NOFLAGS, SIGN, ENCC | ENCS)), rng.choice((9, 10, 11)), 'rev' if r < 0.25 else 'att'])
            if r < 0.08:
                uids[0][1].append([NOFLAGS, 12, 'att'])
        elif r < 0.60:
            # the newest certification has its key flags in the unhashed area only
            uids[0][1].append([rng.choice((SIGN, ENCC | ENCS, SIGN | ENCC)), 9, 'uflags'])
        subs = [[[rng.choice(family), t] for t in rng.sample(range(0, 9), rng.randrange(1, 4))] for _ in range(nsub)]
        flags = [CERTIFY | recent(uids[0][1])] + [recent(s) for s in subs]
        form = rng.choice(('private', 'private', 'public', 'unlocked'))
        seed = rng.randrange(1 << 30)
        import random
        k = w.assemble(form, uids, subs, shuffle=random.Random(seed))

        def body():
            for enforce in (True, False):
                for op in ('sign', 'encrypt', 'certify'):
                    case = {'suite': suite, 'form': form, 'uids': uids, 'subs': subs, 'op': op, 'user': None, 'enforce': enforce, 'shuffle': seed}
                    run.one(suite, k, form, enforce, op, None, case, flags=flags, verify=(n % 3 == 0))
        run.with_form(form, k, body)
    run.bt.flush()


def sweep_revoked(ctx, run, family, suite):
    """exhaustive: self-certification with flag set pf at day 0, then a certification revocation / an attestation by the key at day 5
    (without KeyFlags, with Sign, with the encryption flags), or a newer certification whose key flags are unhashed; 0..1 subkeys"""
    w = run.w
    n = 0
    for pf in family:
        for kind in ('rev', 'att', 'uflags'):
            for om in (NOFLAGS, SIGN, ENCC | ENCS):
                for sv in ([], [SIGN], [ENCC | ENCS]):
                    uids = [[0, [[pf, 0], [om, 5, kind]]]]
                    subs = [[[f, 0]] for f in sv]
                    flags = [CERTIFY | recent(uids[0][1])] + list(sv)
                    for form in ('private', 'public'):
                        k = w.assemble(form, uids, subs)
                        for enforce in (True, False):
                            for op in ('sign', 'encrypt', 'certify'):
                                n += 1
                                case = {'suite': suite, 'form': form, 'uids': uids, 'subs': subs, 'op': op, 'user': None, 'enforce': enforce}
                                run.one(suite, k, form, enforce, op, None, case, flags=flags, verify=(n % 4 == 0))
    # revoked through the API, on a live key: key.revoke(uid) / an attestation after add_uid - the key keeps signing
    for kind in ('rev', 'att'):
        k = w.assemble('private', [[0, [[SIGN, 0]]]], [[[ENCC, 0]]])
        u = k.userids[0]
        with warnings.catch_warnings():
            warnings.simplefilter('ignore')
            if kind == 'rev':
                u |= k.revoke(u, created=T(6), hash=w.H.SHA256)
            else:
                u |= k.certify(u, w.SignatureType.Attestation, attested_certifications=[], created=T(6), hash=w.H.SHA256)
        for op in ('sign', 'certify', 'revoke'):
            n += 1
            case = {'suite': suite, 'kind': 'live-' + kind, 'op': op}
            run.one(suite, k, 'private', True, op, None, case, flags=[CERTIFY | SIGN, ENCC], verify=True)
    run.bt.flush()
    return n


def sweep_mixed(ctx, run, suite, thorough):
    """mixed protection (repair cab6d36): every assignment of {no passphrase, passphrase} to the primary key and 1..2 subkeys, outside and
    inside `with key.unlock()`, x which component carries the flag the operation needs: the conditions are those of the component chosen"""
    import itertools
    w = run.w
    n = 0
    pfs = (AUTH, SIGN) if not thorough else (AUTH, SIGN, ENCC | ENCS, 0)
    for nsub in (1, 2):
        svs = ([[SIGN], [ENCC | ENCS], [AUTH]] if nsub == 1 else [[AUTH, SIGN], [SIGN, SIGN], [ENCC, SIGN | ENCS]])
        if thorough and nsub == 2:
            svs += [[SIGN, AUTH], [0, 0], [CERTIFY, ENCC]]
        for letters in itertools.product('pl', repeat=1 + nsub):
            letters = ''.join(letters)
            for unl in ((False, True) if 'l' in letters else (False,)):
                form = 'm:' + letters + (':u' if unl else '')
                for pf in pfs:
                    for sv in svs:
                        uids = [[0, [[pf, 0]]]]
                        subs = [[[f, 0]] for f in sv]
                        flags = [CERTIFY | pf] + list(sv)
                        k = w.assemble(form, uids, subs)

                        def body():
                            nonlocal n
                            for enforce in (True, False):
                                for op in ('sign', 'certify', 'revoke', 'bind', 'revoker', 'decrypt', 'encrypt'):
                                    n += 1
                                    case = {'suite': suite, 'form': form, 'uids': uids, 'subs': subs, 'op': op, 'user': None, 'enforce': enforce}
                                    run.one(suite, k, form, enforce, op, None, case, flags=flags, verify=(n % 5 == 0))
                        run.with_form(form, k, body)
    run.bt.flush()
    return n


def sweep_identity_kinds(ctx, run, suite):
    """repair 1d6dbd1: the default identity is the first user id, or the first user attribute when the key has no user id; repair a0cb78f:
    an unknown user= is refused (PGPError) for every operation, key form and flag assignment"""
    w = run.w
    n = 0
    for uids, pf in (([[IMAGE, [[SIGN, 0]]]], SIGN), ([[IMAGE, [[ENCC | ENCS, 0]]]], ENCC | ENCS), ([[IMAGE, [[NOFLAGS, 0]]]], 0),
                     ([[IMAGE, [[SIGN, 0]]], [0, [[ENCC, 1]]]], ENCC), ([[IMAGE, [[SIGN, 5]]], [1, [[AUTH, 0]]], [0, [[ENCS, 0]]]], None),
                     ([[IMAGE, [[SIGN, 0], [NOFLAGS, 5, 'rev']]]], SIGN)):
        for sv in ([], [SIGN], [ENCC]):
            subs = [[[f, 0]] for f in sv]
            for form in ('private', 'public'):
                k = w.assemble(form, uids, subs)
                if pf is None:          # two user ids: whichever PGPUID.__lt__ puts first (read from the key; the model is given the same order)
                    first = next(u for u in k._uids if u.is_uid)
                    pfk = World.mask(first.selfsig.key_flags)
                else:
                    pfk = pf
                for enforce in (True, False):
                    for op in ('sign', 'encrypt', 'certify', 'revoke'):
                        n += 1
                        case = {'suite': suite, 'form': form, 'uids': uids, 'subs': subs, 'op': op, 'user': None, 'enforce': enforce}
                        out = run.one(suite, k, form, enforce, op, None, case, flags=[CERTIFY | pfk] + list(sv), verify=(n % 3 == 0))
                        if out.startswith(('crash', 'exc')):
                            ctx.fail(suite, 'a key whose identities include / are a user attribute makes the operation raise', dict(case, impl=out))
    for uids in ([[0, [[SIGN, 0]]]], [[0, [[SIGN, 0]]], [1, [[ENCC, 0]]]], [[IMAGE, [[SIGN, 0]]]]):
        for sv in ([], [SIGN | ENCC]):
            subs = [[[f, 0]] for f in sv]
            for form in ('private', 'public', 'locked') + (('m:pl', 'm:lp:u') if sv else ()):
                k = w.assemble(form, uids, subs)
                for enforce in (True, False):
                    for op in OPS:
                        if op in ('revoker', 'bind', 'decrypt'):
                            continue                     # these methods take no user= argument
                        for user in ('nobody', 'u', 'u1 ', 'e1@example.co'):
                            n += 1
                            case = {'suite': suite, 'form': form, 'uids': uids, 'subs': subs, 'op': op, 'user': user, 'enforce': enforce}
                            out = run.one(suite, k, form, enforce, op, user, case)
                            if out != 'nouser':
                                ctx.fail(suite, 'an unknown user= is not refused with PGPError before anything else happens', dict(case, impl=out))
    run.bt.flush()
    return n


def rebind_live(ctx, run, suite, count):
    """through the API: bind a subkey again with other flags -> what is selected changes with the newest binding"""
    w, rng = run.w, ctx.rng
    fam = [SIGN, ENCC, AUTH, ENCS | ENCC, SIGN | ENCC, 0]
    for n in range(count):
        pf = rng.choice([AUTH, 0, CERTIFY])
        first = rng.choice(fam)
        sf2 = rng.choice(fam)
        k = w.assemble('private', [[0, [[pf, 0]]]], [[[first, 0]], [[sf2, 0]]])
        sk = list(k.subkeys.values())[0]
        hist = [first]
        for step in range(3):
            nf = rng.choice(fam)
            with warnings.catch_warnings():
                warnings.simplefilter('ignore')
                b = k.bind(sk, usage=w.fset(nf), created=T(10 + step))
            sk |= b
            hist.append(nf)
            flags = [CERTIFY | pf, nf, sf2]
            for op in ('sign', 'encrypt'):
                case = {'suite': suite, 'pf': pf, 'hist': list(hist), 'op': op}
                form = 'private' if op == 'sign' else 'public'
                kk = k if op == 'sign' else k.pubkey
                if op == 'encrypt':
                    # the public half is derived from a re-import of the exported private key
                    with warnings.catch_warnings():
                        warnings.simplefilter('ignore')
                        kk, _ = w.PGPKey.from_blob(bytes(k))
                        kk = kk.pubkey
                run.one(suite, kk, form, True, op, None, case, flags=flags, verify=True)
    run.bt.flush()


def special_receivers(ctx, run, suite):
    """no key material, no identity, a subkey as receiver, subkeys without usable binding"""
    w = run.w
    bt = run.bt
    # PGPKey() : every operation says "No key!"
    e = w.PGPKey()
    for op in OPS:
        out, _ = do_op(w, e, op, None, ['-'])
        ctx.case(suite, ('empty', op), nontrivial=False)
        run.set_suite(suite)
        bt.add('perform 010001 _ - _ %s -' % op, out, {'suite': suite, 'kind': 'empty', 'op': op})
        if out != 'nokey':
            ctx.fail(suite, 'an empty PGPKey did not refuse', {'suite': suite, 'kind': 'empty', 'op': op, 'impl': out})
    # a primary key without any identity (with and without subkeys): everything but certify refuses
    for subs in ([], [[[SIGN, 0]]], [[[SIGN, 0]], [[ENCC, 0]]]):
        for form in FORMS:
            k = w.assemble(form, [], subs)

            def body():
                for enforce in (True, False):
                    for op in OPS:
                        case = {'suite': suite, 'form': form, 'uids': [], 'subs': subs, 'op': op, 'user': None, 'enforce': enforce}
                        if op == 'certify':
                            # the first self-certification: add_uid on a copy
                            k2 = w.assemble(form, [], subs)
                            k2._require_usage_flags = enforce
                            u = w.PGPUID.new('first identity')
                            try:
                                with warnings.catch_warnings():
                                    warnings.simplefilter('ignore')
                                    if form == 'unlocked':
                                        with k2.unlock('pw'):
                                            k2.add_uid(u, usage={w.KeyFlags.Sign}, hashes=[w.H.SHA256], created=T(40))
                                    else:
                                        k2.add_uid(u, usage={w.KeyFlags.Sign}, hashes=[w.H.SHA256], created=T(40))
                                out = 'run:%d:0' % ([str(k2.fingerprint)[-16:]] + list(k2.subkeys)).index(u.selfsig.signer)
                            except Exception as ex:
                                out = classify(ex)
                            desc = describe(w, k, form, enforce, run.tok)
                            ctx.case(suite, ('nouid', desc, op), nontrivial=out.startswith('run'), sample=dict(case, impl=out))
                            bt.add('perform %s certify -' % desc, out, case)
                            want = oracle(1, [CERTIFY] + [s[0][0] for s in subs], enforce, form, 'certify', False)
                            if (want == 'refuse') != (out in REFUSALS) or (want != 'refuse' and out != 'run:0:0'):
                                ctx.fail(suite, 'first self-certification of a key without identity', dict(case, impl=out))
                        else:
                            out = run.one(suite, k, form, enforce, op, None, case, flags=[CERTIFY] + [s[0][0] for s in subs], has_uid=False)
                            if out != 'incomplete':
                                ctx.fail(suite, 'a key without identity did not refuse with "Key is not complete"', dict(case, impl=out))
            run.with_form(form, k, body)
    # a subkey object as the receiver (this is what PGPKey.decrypt delegates to)
    for sf in (SIGN, ENCC, AUTH, 0):
        for form in ('private', 'public'):
            k = w.assemble(form, [[0, [[AUTH, 0]]]], [[[sf, 0], [AUTH, -1]], [[ENCC, 0]]])
            sk = list(k.subkeys.values())[0]
            for enforce in (True, False):
                for op in ('sign', 'encrypt', 'decrypt', 'certify'):
                    case = {'suite': suite, 'kind': 'subkey-receiver', 'form': form, 'sf': sf, 'op': op, 'enforce': enforce}
                    sk._require_usage_flags = enforce
                    ids = [str(sk.fingerprint)[-16:]]
                    out, r = do_op(w, sk, op, None, ids)
                    desc = describe(w, sk, form, enforce, run.tok)
                    ctx.case(suite, ('subrecv', desc, op), nontrivial=out.startswith('run'), sample=dict(case, impl=out))
                    bt.add('perform %s %s -' % (desc, op), out, case)
                    want = oracle(REQ[op], [sf], enforce, form, op, True)
                    if (want == 'refuse') != (out in REFUSALS):
                        ctx.fail(suite, 'subkey as receiver: refusal differs from the policy', dict(case, impl=out))
    # a subkey without binding signature in effect (none at all / only an expired one) grants nothing and is passed over (repair a0cb78f)
    for first in ([], [[SIGN | ENCC, 0, 'exp']], [[SIGN | ENCC, 0, 'exp'], [AUTH, 1]]):
        for last in ([[SIGN, 0]], [[ENCC, 0]], [[SIGN, 0, 'exp']]):
            subs = [first, last]
            flags = [CERTIFY | AUTH] + [0 if (not sg or all(len(x) == 3 for x in sg)) else max((x for x in sg if len(x) == 2), key=lambda x: x[1])[0] for sg in subs]
            for op in ('sign', 'encrypt', 'decrypt', 'certify'):
                form = 'public' if op == 'encrypt' else 'private'
                for enforce in (True, False):
                    case = {'suite': suite, 'kind': 'unbound-subkey', 'form': form, 'uids': [[0, [[AUTH, 0]]]], 'subs': subs, 'op': op, 'user': None, 'enforce': enforce}
                    kk = w.assemble(form, case['uids'], subs)
                    out = run.one(suite, kk, form, enforce, op, None, case, flags=flags)
                    if out.startswith(('crash', 'exc')):
                        ctx.fail(suite, 'a subkey without binding signature in effect makes the operation raise', dict(case, impl=out))
    bt.flush()


def decrypt_routing(ctx, run, suite):
    """messages addressed to the primary, to each subkey, to two subkeys, to a stranger"""
    w = run.w
    from pgpy.constants import SymmetricKeyAlgorithm as S
    pub = w.master.pubkey
    pcomps = [pub] + list(pub.subkeys.values())
    msgs = [('to-%d' % i, [i], w.enc[i]) for i in range(4)]
    with warnings.catch_warnings():
        warnings.simplefilter('ignore')
        sk = S.AES128.gen_key()
        for a, b in ((1, 2), (2, 3), (0, 2)):
            m = w.raw_encrypt(pcomps[a], w.PGPMessage.new('secret for two'), sessionkey=sk, cipher=S.AES128)
            m = w.raw_encrypt(pcomps[b], m, sessionkey=sk, cipher=S.AES128)
            msgs.append(('to-%d-%d' % (a, b), [a, b], m))
    msgs.append(('to-stranger', [], w.enc_foreign))
    for nsub in range(0, 4):
        for form in ('private', 'unlocked', 'locked', 'public') + (('m:p' + 'l' * nsub, 'm:l' + 'p' * nsub, 'm:p' + 'l' * nsub + ':u', 'm:pl' + 'p' * (nsub - 1)) if nsub else ()):
            k = w.assemble(form, [[0, [[SIGN, 0]]]], [[[AUTH, 0]]] * nsub)      # flags play no part in decryption

            def body():
                for name, to, m in msgs:
                    case = {'suite': suite, 'form': form, 'nsub': nsub, 'msg': name}
                    w.tap.records.clear()
                    try:
                        with warnings.catch_warnings():
                            warnings.simplefilter('ignore')
                            pt = k.decrypt(m)
                        out = 'ok' if pt.message in ['secret %s' % w.fprs[i][-8:] for i in to] + ['secret for two'] else 'wrong-plaintext'
                    except Exception as ex:
                        out = classify(ex)
                        if out.startswith('pgperror:Cannot decrypt'): out = 'cannot'
                    addressed = [i for i in to if i <= nsub]
                    # property: an addressed component of a usable private key decrypts; nothing addressed -> refusal
                    cf = comp_forms(form, 1 + nsub)
                    if cf[0] in ('public', 'locked'):
                        want = ('attr:is_public', 'attr:is_unlocked')          # the receiver itself must be a usable private key
                    elif addressed and 0 not in addressed and any(cf[i] == 'locked' for i in addressed):
                        # delegated to an addressed subkey (one of them): that subkey's own lock state decides
                        want = ('attr:is_unlocked',) if all(cf[i] == 'locked' for i in addressed) else ('attr:is_unlocked', 'ok')
                    elif addressed:
                        want = ('ok',)
                    else:
                        want = ('cannot',)
                    ctx.case(suite, (form, nsub, name), nontrivial=(out == 'ok'), sample=dict(case, impl=out))
                    if out not in want:
                        ctx.fail(suite, 'decryption does not find the addressed subkey / does not refuse', dict(case, impl=out, want=list(want)))
                    # the routing decision against the model
                    ids = [str(k.fingerprint)[-16:]] + list(k.subkeys)
                    enc = sorted(m.encrypters)
                    route = run.d.call('route', ids[0], ','.join(ids[1:]) or '-', ','.join(enc) or '-')
                    if form in ('private', 'unlocked'):
                        exp = 'ok' if route != 'cannot' else 'cannot'
                        ctx.expect_eq(suite, 'decrypt routing differs from the model', dict(case, route=route), out, exp)
                        if route.startswith('sub:') and not {int(x, 16) for x in route[4:].split(',')} <= {int(x, 16) for x in set(enc) & set(ids[1:])}:
                            ctx.fail(suite, 'model routes to a subkey that is not addressed', dict(case, route=route))
            run.with_form(form, k, body)


def precondition_forms(ctx, run, suite):
    w = run.w
    # every component of a mixed key has its own is_public / is_protected / is_unlocked
    for form in ('m:pl', 'm:lp', 'm:ll', 'm:pl:u', 'm:lp:u', 'm:lpl:u'):
        k = w.assemble(form, [[0, [[SIGN, 0]]]], [[[SIGN, 0]]] * (len(form.split(':')[1]) - 1))

        def mbody():
            want = {'private': '0 0 1', 'locked': '0 1 0', 'unlocked': '0 1 1'}
            comps = [k] + list(k.subkeys.values())
            for i, (c, f) in enumerate(zip(comps, comp_forms(form, len(comps)))):
                got = '%d %d %d' % (int(c.is_public), int(c.is_protected), int(c.is_unlocked))
                bits = '11%d%d%d1' % (0, int(f in ('locked', 'unlocked')), int(f == 'unlocked'))
                ctx.case(suite, (form, i), sample={'form': form, 'component': i, 'impl': got})
                ctx.expect_eq(suite, 'is_public / is_protected / is_unlocked of a component of a mixed key differ from the model',
                              {'suite': suite, 'form': form, 'component': i}, got, run.d.call('forms', bits))
                if got != want[f]:
                    ctx.fail(suite, 'a component of a mixed-protection key does not report its own lock state', {'suite': suite, 'form': form, 'component': i, 'impl': got})
        run.with_form(form, k, mbody)
    for form in FORMS:
        k = w.assemble(form, [[0, [[SIGN, 0]]]], [])

        def body():
            bits = '11%d%d%d1' % (int(form == 'public'), int(form in ('locked', 'unlocked')), int(form == 'unlocked'))
            got = '%d %d %d' % (int(k.is_public), int(k.is_protected), int(k.is_unlocked))
            ctx.case(suite, form, sample={'form': form, 'impl': got})
            ctx.expect_eq(suite, 'is_public / is_protected / is_unlocked differ from the model', {'suite': suite, 'form': form}, got, run.d.call('forms', bits))
        run.with_form(form, k, body)


F7_WITNESS = {'uids': [[0, [[AUTH, 0]]]], 'subs': [[[AUTH, 1], [SIGN, 5]]]}
# repair 812bc0f (Props/C16.v C16_selfsig_old_refuted): certified for signing then revoked -> still signs; a revocation / attestation that
# carries KeyFlags {Sign} over a certification without it -> refuses.  Repair df70557: key flags in the unhashed area only -> as without flags
SELFSIG_WITNESSES = [
    ('revoked-after-certification', {'uids': [[0, [[SIGN, 0], [NOFLAGS, 5, 'rev']]]], 'subs': []}, [CERTIFY | SIGN]),
    ('attested-after-certification', {'uids': [[0, [[SIGN, 0], [NOFLAGS, 5, 'att']]]], 'subs': []}, [CERTIFY | SIGN]),
    ('revocation-with-sign-flag', {'uids': [[0, [[0, 0], [SIGN, 5, 'rev']]]], 'subs': []}, [CERTIFY]),
    ('attestation-with-sign-flag', {'uids': [[0, [[0, 0], [SIGN, 5, 'att']]]], 'subs': []}, [CERTIFY]),
]
UNHASHED_WITNESSES = [
    ('unhashed-sign-flag-only', {'uids': [[0, [[SIGN, 0, 'uflags']]]], 'subs': []}, [CERTIFY]),
    ('unhashed-sign-flag-subkey-signs', {'uids': [[0, [[SIGN, 0, 'uflags']]]], 'subs': [[[SIGN, 0]]]}, [CERTIFY, SIGN]),
    ('unhashed-flags-over-hashed-certification', {'uids': [[0, [[SIGN, 0], [ENCC, 5, 'uflags']]]], 'subs': []}, [CERTIFY]),
]


def unlock_escapes(ctx, run, suite):
    """a protected key whose unlock scope is LEFT BY AN EXCEPTION (the policy itself refusing an operation inside the scope, or an
    unrelated error) is locked again: every private operation afterwards is refused for is_unlocked, on the key and on its subkeys"""
    w = run.w
    for how in ('policy-refusal-inside', 'value-error-inside', 'normal-exit'):
        for subs in ([], [[[SIGN, 0]]]):
            k = w.assemble('locked', [[0, [[ENCC, 0]]]], subs)
            case = {'suite': suite, 'how': how, 'subs': len(subs)}
            inside = None
            try:
                with warnings.catch_warnings():
                    warnings.simplefilter('ignore')
                    with k.unlock('pw'):
                        inside = bool(k.is_unlocked)
                        if how == 'policy-refusal-inside' and not subs:
                            k.sign('refused: the primary may only encrypt')       # PGPError out of the scope
                        elif how != 'normal-exit':
                            raise ValueError('unrelated error inside the scope')
            except Exception:
                pass
            comps = [k] + list(k.subkeys.values())
            state = [bool(c.is_unlocked) for c in comps]
            outs = []
            for op in ('sign', 'certify', 'decrypt'):
                outs.append(do_op(w, k, op, None)[0])
            sub_out = [classify_call(lambda c=c: c.sign('by the subkey directly')) for c in comps[1:]]
            ctx.case(suite, (how, len(subs)), sample=dict(case, unlocked_after=state, outcomes=outs + sub_out))
            if inside is not True:
                ctx.fail(suite, 'harness: the key was not unlocked inside the scope', dict(case, inside=inside)); continue
            if any(state):
                ctx.fail(suite, 'key material is still unlocked after the unlock scope was left (%s)' % how, dict(case, unlocked_after=state))
            if any(o.startswith('run') for o in outs + sub_out):
                ctx.fail(suite, 'a private operation was performed after the unlock scope was left (%s)' % how, dict(case, outcomes=outs + sub_out))


def classify_call(fn):
    try:
        with warnings.catch_warnings():
            warnings.simplefilter('ignore')
            fn()
        return 'run'
    except Exception as ex:
        return classify(ex)


def _run(ctx, pgpy, d):
    w = World(pgpy, ctx.rng)
    run = Runner(ctx, w, d)
    precondition_forms(ctx, run, 'forms')
    unlock_escapes(ctx, run, 'unlock-escape')
    # F7 regression: Authentication binding, later re-bound for signing -> the subkey signs; the model of the old code refuses
    k = w.assemble('private', F7_WITNESS['uids'], F7_WITNESS['subs'])
    out = run.one('regress-F7', k, 'private', True, 'sign', None, dict(F7_WITNESS, suite='regress-F7', op='sign'), flags=[CERTIFY | AUTH, SIGN])
    old = d.call('performp', *describe(w, k, 'private', True, run.tok).split(' '), 'sign', '-')
    ctx.notes.append('F7 witness: implementation %s, model of the pre-480b116 code %s' % (out, old))
    if out == old:
        ctx.fail('regress-F7', 'implementation behaves like the oldest-binding model on the F7 witness', dict(F7_WITNESS, op='sign', impl=out))
    for name, wit, flags in SELFSIG_WITNESSES:
        k = w.assemble('private', wit['uids'], wit['subs'])
        case = dict(wit, suite='regress-selfsig', op='sign', name=name)
        out = run.one('regress-selfsig', k, 'private', True, 'sign', None, case, flags=flags)
        old = d.call('performo', *describe(w, k, 'private', True, run.tok).split(' '), 'sign', '-')
        ctx.notes.append('selfsig witness %s: implementation %s, model of the pre-812bc0f code %s' % (name, out, old))
        if out == old:
            ctx.fail('regress-selfsig', 'implementation behaves like the model of PGPUID.selfsig before repair 812bc0f (newest signature of any type)', dict(case, impl=out))
    for name, wit, flags in UNHASHED_WITNESSES:
        for op in ('sign', 'certify', 'encrypt'):
            form = 'public' if op == 'encrypt' else 'private'
            k = w.assemble(form, wit['uids'], wit['subs'])
            case = dict(wit, suite='unhashed-flags', op=op, form=form, name=name)
            out = run.one('unhashed-flags', k, form, True, op, None, case, flags=flags)
            if out.startswith(('crash', 'exc')):
                ctx.fail('unhashed-flags', 'key flags in the unhashed area of the self-certification crash the operation (PGPSignature.key_flags before repair df70557)',
                         dict(case, impl=out))
    # repairs cab6d36 / a0cb78f / 1d6dbd1: the witnesses of Props/C16.v (C16_lockcheck_old_refuted, C16_crash_old_refuted, C16_identity_old_refuted);
    # the implementation must follow the repaired model and differ from the model of the rule before
    for name, cmd, form, wit, op, user, flags in (
            ('locked-subkey-refuses', 'performl', 'm:pl', {'uids': [[0, [[AUTH, 0]]]], 'subs': [[[SIGN, 0]]]}, 'sign', None, [CERTIFY | AUTH, SIGN]),
            ('locked-primary-usable-subkey', 'performl', 'm:lp', {'uids': [[0, [[AUTH, 0]]]], 'subs': [[[SIGN, 0]]]}, 'sign', None, [CERTIFY | AUTH, SIGN]),
            ('unknown-user', 'performc', 'private', {'uids': [[0, [[AUTH, 0]]]], 'subs': [[[SIGN, 0]]]}, 'sign', 'nobody', None),
            ('unbound-subkey-passed-over', 'performc', 'private', {'uids': [[0, [[AUTH, 0]]]], 'subs': [[], [[SIGN, 0]]]}, 'sign', None, [CERTIFY | AUTH, 0, SIGN]),
            ('expired-binding-passed-over', 'performc', 'private', {'uids': [[0, [[AUTH, 0]]]], 'subs': [[[SIGN, 0, 'exp']], [[SIGN, 0]]]}, 'sign', None, [CERTIFY | AUTH, 0, SIGN]),
            ('image-only-identity', 'performi', 'private', {'uids': [[IMAGE, [[SIGN, 0]]]], 'subs': []}, 'sign', None, [CERTIFY | SIGN])):
        k = w.assemble(form, wit['uids'], wit['subs'])
        case = dict(wit, suite='regress-policy', op=op, form=form, name=name, user=user, enforce=True)
        out = run.one('regress-policy', k, form, True, op, user, case, flags=flags)
        ut = '-' if user is None else '%x' % run.tok(user)
        old = d.call(cmd, *describe(w, k, form, True, run.tok).split(' '), op, ut)
        ctx.notes.append('policy witness %s: implementation %s, model of the rule before the repair (%s) %s' % (name, out, cmd, old))
        if out == old or out.startswith(('crash', 'exc')):
            ctx.fail('regress-policy', 'implementation behaves like the model of the rule before the repair (%s)' % name, dict(case, impl=out, before_repair=old))
    special_receivers(ctx, run, 'special')
    decrypt_routing(ctx, run, 'decrypt-route')
    if ctx.quick:
        fam = [0, SIGN, ENCC | ENCS, CERTIFY | AUTH]
        n = sweep_vectors(ctx, run, fam, 2, FORMS, OPS, 'matrix', verify_every=3)
        ctx.exhaustive.append('%d operations: flag sets %s on primary + 0..2 subkeys x 7 operations x enforcement x 4 key forms' % (n, fam))
        n = sweep_vectors(ctx, run, [0, SIGN, ENCS], 3, ('private', 'public'), ('sign', 'encrypt'), 'matrix-3sub', verify_every=5)
        ctx.exhaustive.append('%d operations: flag sets [0, Sign, EncryptStorage] on primary + 0..3 subkeys x {sign, encrypt} x enforcement x {private, public}' % n)
        n = sweep_identity(ctx, run, [0, SIGN, ENCC], 'identity')
        ctx.exhaustive.append('%d operations: identity choice (None / name / comment / e-mail / third uid / unknown) over two uids with flag sets from [0, Sign, EncC]' % n)
        n = sweep_mixed(ctx, run, 'mixed', False)
        ctx.exhaustive.append('%d operations: mixed protection - {no passphrase, passphrase} on the primary and on each of 1..2 subkeys, outside / inside unlock(), x flag '
                              'placement x 7 operations x enforcement' % n)
        n = sweep_identity_kinds(ctx, run, 'identity-kinds')
        ctx.exhaustive.append('%d operations: image-only identity / image before user ids as default identity; unknown user= (4 strings incl. proper substrings) x operations x forms' % n)
        n = sweep_revoked(ctx, run, [0, SIGN, ENCC | ENCS], 'revoked')
        ctx.exhaustive.append('%d operations: certification with flag set from [0, Sign, EncC|EncS], then a revocation / attestation by the key (no flags, Sign, '
                              'EncC|EncS) or a newer certification with unhashed key flags x 0..1 subkeys x {sign, encrypt, certify} x enforcement x {private, public}' % n)
        sweep_history(ctx, run, [0, SIGN, ENCC, AUTH, NOFLAGS, SIGN | ENCS], 'history', 150)
        rebind_live(ctx, run, 'rebind', 12)
    else:
        fam = [0, SIGN, CERTIFY, ENCC, ENCS, AUTH, SIGN | ENCS, NOFLAGS]
        n = sweep_vectors(ctx, run, fam, 2, FORMS, OPS, 'matrix', verify_every=2)
        ctx.exhaustive.append('%d operations: flag sets %s on primary + 0..2 subkeys x 7 operations x enforcement x 4 key forms' % (n, fam))
        fam3 = [0, SIGN, ENCC, ENCS, AUTH | CERTIFY]
        n = sweep_vectors(ctx, run, fam3, 3, FORMS, ('sign', 'certify', 'encrypt', 'decrypt'), 'matrix-3sub', verify_every=4)
        ctx.exhaustive.append('%d operations: flag sets %s on primary + 0..3 subkeys x {sign, certify, encrypt, decrypt} x enforcement x 4 key forms' % (n, fam3))
        n = sweep_identity(ctx, run, [0, SIGN, ENCC, ENCS, AUTH, NOFLAGS], 'identity')
        ctx.exhaustive.append('%d operations: identity choice over two uids with flag sets from 6 values' % n)
        n = sweep_mixed(ctx, run, 'mixed', True)
        ctx.exhaustive.append('%d operations: mixed protection - {no passphrase, passphrase} on the primary and on each of 1..2 subkeys, outside / inside unlock(), x flag '
                              'placement (4 primary flag sets, 3-6 subkey vectors) x 7 operations x enforcement' % n)
        n = sweep_identity_kinds(ctx, run, 'identity-kinds')
        ctx.exhaustive.append('%d operations: image-only identity / image before user ids as default identity; unknown user= (4 strings incl. proper substrings) x operations x forms' % n)
        n = sweep_revoked(ctx, run, [0, SIGN, ENCC, ENCS, AUTH, NOFLAGS, SIGN | ENCS], 'revoked')
        ctx.exhaustive.append('%d operations: certification with one of 7 flag sets, then a revocation / attestation by the key (no flags, Sign, EncC|EncS) or a newer '
                              'certification with unhashed key flags x 0..1 subkeys x {sign, encrypt, certify} x enforcement x {private, public}' % n)
        sweep_history(ctx, run, [0, SIGN, ENCC, ENCS, AUTH, NOFLAGS, SIGN | ENCS, CERTIFY], 'history', 3000)
        rebind_live(ctx, run, 'rebind', 150)
    run.bt.flush()


def run(ctx):
    pgpy = load_repo()
    check_pins(ctx, pgpy)
    d = Driver('c16')
    try:
        with RsaMemo():
            _run(ctx, pgpy, d)
    finally:
        d.close()
        for h in list(logging.getLogger().handlers):
            if isinstance(h, LogTap):
                logging.getLogger().removeHandler(h)


def replay(ctx, case):
    """re-run one recorded case (flag-set specification + operation) on freshly generated key material; True if it still fails"""
    pgpy = load_repo()
    ctx.broken = []
    d = Driver('c16')
    try:
        w = World(pgpy, ctx.rng)
        run = Runner(ctx, w, d)
        before = len(ctx.violations)
        for h in list(logging.getLogger().handlers[:-1]):
            if isinstance(h, LogTap): logging.getLogger().removeHandler(h)
        if 'uids' in case and 'subs' in case and 'op' in case:
            import random
            form = case.get('form', 'private')
            sh = random.Random(case['shuffle']) if 'shuffle' in case else None
            k = w.assemble(form, case['uids'], case['subs'], shuffle=sh)
            uids = case['uids']
            flags = None
            if uids and case.get('user') is None and not (len(uids) > 1 and any(u[0] == IMAGE for u in uids)):
                flags = [CERTIFY | recent(uids[0][1])] + [recent(s) if s else 0 for s in case['subs']]
            run.with_form(form, k, lambda: run.one('replay', k, form, case.get('enforce', True), case['op'], case.get('user'), case,
                                                   flags=flags, has_uid=bool(uids)))
            run.bt.flush()
        else:
            # suites without a per-case specification are re-run whole
            suite = case.get('suite')
            if suite == 'decrypt-route': decrypt_routing(ctx, run, suite)
            elif suite == 'rebind': rebind_live(ctx, run, suite, 20)
            elif suite == 'revoked': sweep_revoked(ctx, run, [0, SIGN, ENCC | ENCS], suite)
            elif suite == 'mixed': sweep_mixed(ctx, run, suite, False)
            elif suite == 'identity-kinds': sweep_identity_kinds(ctx, run, suite)
            elif suite == 'forms': precondition_forms(ctx, run, suite)
            else: special_receivers(ctx, run, 'special')
            run.bt.flush()
        return len(ctx.violations) > before
    finally:
        d.close()
