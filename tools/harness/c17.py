"""C17 correspondence + direct oracles: SecurityIssues.causes_signature_verify_to_fail, the three views of
SignatureVerification, PubKeyAlgorithm.validate_params and the issue aggregation of PGPKey.verify against the
extracted model (Model/Verdict.v), plus the property itself run on real keys (disqualified => falsy, wrong => bad,
every entry listed exactly once, truthy iff none bad)."""
import itertools, warnings
from datetime import timedelta

from .common import Driver, Batch, hn, outcome, load_repo
from . import keys as K

FAIL_MASK = (1 << 0) | (1 << 1) | (1 << 2) | (1 << 4) | (1 << 10)   # RFC-independent reading of the property: the five disqualifying bits
ALG = {'RSAEncryptOrSign': 1, 'DSA': 17, 'ECDH': 18, 'ECDSA': 19, 'EdDSA': 22}
TEXT = 'C17 subject text\n'


def zl(vals):
    vals = list(vals)
    return ','.join(hn(int(v)) for v in vals) if vals else '-'


def b01(x):
    return '1' if x else '0'


def show_sv(sv):
    """canonical form of a SignatureVerification: entries, good, bad, truthy"""
    return ' '.join([zl(s.issues for s in sv._subjects), zl(s.issues for s in sv.good_signatures),
                     zl(s.issues for s in sv.bad_signatures), b01(bool(sv))])


def coherent(sv):
    """the object-level clauses of the property, checked on the implementation directly (identity based)"""
    allids = [id(s) for s in sv._subjects]
    good = [id(s) for s in sv.good_signatures]
    bad = [id(s) for s in sv.bad_signatures]
    if sorted(good + bad) != sorted(allids):
        return 'entries are not listed exactly once as good or bad'
    if bool(sv) != (len(bad) == 0):
        return 'truthy is not "no bad entry"'
    for s in sv._subjects:
        if int(s.issues) & 1 and id(s) not in bad:
            return 'a WrongSig entry is not bad'
    return None


def mk_result(pgpy, entries):
    from pgpy.types import SignatureVerification
    from pgpy.constants import SecurityIssues
    sv = SignatureVerification()
    for e in entries:
        if e == 'n':
            sv.add_sigsubj(None, None, None)
        else:
            sv.add_sigsubj(None, None, None, SecurityIssues(e))
    return sv


# ------------------------------------------------------------------------------------------------ unit level
def check_cf(ctx, d, pgpy, v, bt=None):
    from pgpy.constants import SecurityIssues
    impl = bool(SecurityIssues(v).causes_signature_verify_to_fail)
    case = {'op': 'cf', 'v': v}
    bad = False
    if impl != bool(v & FAIL_MASK):
        ctx.fail('issues-exhaustive', 'causes_signature_verify_to_fail is not "some disqualifying bit is set"', dict(case, impl=impl))
        bad = True
    if bt is not None:
        bt.add('cf ' + hn(v), '%s %s' % (b01(impl), b01(impl)), case)
    elif d is not None:
        bad |= not ctx.expect_eq('issues-exhaustive', 'causes_fail differs from model', case, '%s %s' % (b01(impl), b01(impl)), d.call('cf', hn(v)))
    return bad


def check_pred(ctx, d, pgpy, v, bt=None):
    sv = mk_result(pgpy, [v])
    impl = '%s %s %s' % (b01(len(list(sv.good_signatures)) == 1), b01(len(list(sv.bad_signatures)) == 1), b01(bool(sv)))
    case = {'op': 'pred', 'v': v}
    bad = False
    msg = coherent(sv)
    if msg:
        ctx.fail('entry-exhaustive', msg, dict(case, impl=impl)); bad = True
    if bt is not None:
        bt.add('pred ' + hn(v), impl, case)
    elif d is not None:
        bad |= not ctx.expect_eq('entry-exhaustive', 'entry predicates differ from model', case, impl, d.call('pred', hn(v)))
    return bad


def check_result(ctx, d, pgpy, entries, entries2=None, bt=None):
    sv = mk_result(pgpy, entries)
    case = {'op': 'result', 'entries': list(entries), 'and': None if entries2 is None else list(entries2)}
    if entries2 is not None:
        sv2 = mk_result(pgpy, entries2)
        if (len(entries) + len(entries2)) % 2:
            # the verdict and the views were READ before the merge: they must follow the merged entries afterwards
            _ = (bool(sv), bool(sv2), list(sv.good_signatures), list(sv.bad_signatures), repr(sv))
        sv &= sv2
        cmd = 'and %s %s' % (','.join(hn(e) if e != 'n' else 'n' for e in entries) or '-', ','.join(hn(e) if e != 'n' else 'n' for e in entries2) or '-')
    else:
        cmd = 'result ' + (','.join(hn(e) if e != 'n' else 'n' for e in entries) or '-')
    impl = show_sv(sv)
    bad = False
    msg = coherent(sv)
    if msg:
        ctx.fail('entry-lists', msg, dict(case, impl=impl)); bad = True
    if 'n' in list(entries) + list(entries2 or []) and bool(sv):
        ctx.fail('entry-lists', 'an entry added without issues (0xFF) leaves the result truthy', dict(case, impl=impl)); bad = True
    if bt is not None:
        bt.add(cmd, impl, case)
    elif d is not None:
        bad |= not ctx.expect_eq('entry-lists', 'result views differ from model', case, impl, d.call(*cmd.split(' ')))
    return bad


def check_vparams(ctx, d, pgpy, algv, kind, size, bt=None):
    from pgpy.constants import PubKeyAlgorithm, EllipticCurveOID
    alg = PubKeyAlgorithm(algv)
    sz = int(size) if kind == 'b' else getattr(EllipticCurveOID, size)
    o = outcome(lambda: int(alg.validate_params(sz)))
    impl = hn(o[1]) if o[0] == 'ok' else 'ERR'
    case = {'op': 'vparams', 'alg': algv, 'kind': kind, 'size': size}
    bad = False
    if o[0] == 'ok' and (o[1] & FAIL_MASK):
        ctx.fail('validate-params', 'a parameter weakness is reported with a disqualifying bit', dict(case, impl=impl)); bad = True
    cmd = 'vparams %s %s %s' % (hn(algv), kind, hn(int(size)) if kind == 'b' else size)
    if bt is not None:
        bt.add(cmd, impl, case)
    elif d is not None:
        bad |= not ctx.expect_eq('validate-params', 'validate_params differs from model', case, impl, d.call(*cmd.split(' ')))
    return bad


# ------------------------------------------------------------------------------------------------ end to end
def kinfo(alg, size):
    a = ALG[alg]
    return '%s:%s:%s' % (hn(a), 'c' if isinstance(size, str) else 'b', size if isinstance(size, str) else hn(size))


def sign_subkey(pgpy, k, name):
    """(PGPKey, 'alg:kind:size') of the first signing subkey of pool key `name`, or None"""
    subs = K.SPECS[name][2]
    for (salg, ssize, usage), sk in zip(subs, k.subkeys.values()):
        if usage == 'sign':
            return sk, kinfo(salg, ssize)
    return None


def e2e(ctx, d, pgpy, case):
    """Build the scenario of `case` from the key pool, verify, compare with the model and with the property.
    case: key, hash, expiry ('none'|'far'|'past'), revoked, good, signer ('primary'|'subkey'|'both'), subject ('text'|'msg'|'selfkey'|'uid3p')
    returns True when something failed"""
    from pgpy.constants import HashAlgorithm, KeyFlags
    name = case['key']
    alg, size, subs, _ = K.SPECS[name]
    H = getattr(HashAlgorithm, case['hash'])
    with warnings.catch_warnings():
        warnings.simplefilter('ignore')
        k = K.get(name)
        prim_id = k.fingerprint.keyid
        ss = sign_subkey(pgpy, k, name)
        signers = []
        if case['signer'] in ('primary', 'both'):
            signers.append(k)
        if case['signer'] in ('subkey', 'both'):
            if ss is None:
                return None
            signers.append(ss[0])
        t1 = K.T0 + timedelta(seconds=10)
        subject, signature = None, None
        try:
            if case['subject'] == 'text':
                signature = signers[0].sign(TEXT, hash=H, created=t1)
                subject = TEXT if case['good'] else TEXT + 'x'
            elif case['subject'] == 'msg':
                msg = pgpy.PGPMessage.new(TEXT)
                sigs = [sk.sign(msg, hash=H, created=t1) for sk in signers]
                tgt = msg if case['good'] else pgpy.PGPMessage.new(TEXT + 'x')
                for s in sigs:
                    tgt |= s
                subject = tgt
            elif case['subject'] == 'uid3p':
                other = K.get('ed25519b' if name != 'ed25519b' else 'ed25519')
                ouid = other.userids[0]
                signature = k.certify(ouid, hash=H, created=t1)
                if case['good']:
                    subject = ouid
                else:
                    subject = pgpy.PGPUID.new('Mallory', email='mallory@example.com')   # another user id of the same key
                    other.add_uid(subject, usage={KeyFlags.Sign}, created=K.T0 + timedelta(seconds=5))
        except Exception as ex:   # this key cannot sign with this hash here (e.g. digest too short for the group)
            return ('skip', '%s cannot sign with %s: %s' % (name, case['hash'], type(ex).__name__))
        # key state AFTER the signature was made
        uid = k.userids[0]
        if case['expiry'] != 'none':
            days = {'past': 30, 'far': 36500, 'zero': 0}[case['expiry']]        # zero: the key never expires
            uid |= k.certify(uid, key_expiration=timedelta(days=days), created=K.T0 + timedelta(seconds=20),
                             usage={KeyFlags.Sign, KeyFlags.Certify})
        if case.get('subexpiry', 'none') != 'none' and ss is not None:
            # a NEWER binding signature of the signing subkey with a key expiration time (what gpg writes for a subkey with a validity
            # period; PGPKey.bind has no option for it): 30 days (long over), 100 years, or zero (= never, RFC 4880 5.2.3.6)
            from pgpy.constants import SignatureType
            sub = ss[0]
            exp = {'past': timedelta(days=30), 'far': timedelta(days=36500), 'zero': timedelta(0)}[case['subexpiry']]
            b = pgpy.PGPSignature.new(SignatureType.Subkey_Binding, k.key_algorithm, None, k.fingerprint.keyid, created=K.T0 + timedelta(seconds=25))
            b._signature.subpackets.addnew('KeyFlags', hashed=True, flags={KeyFlags.Sign})
            b._signature.subpackets.addnew('KeyExpirationTime', hashed=True, expires=exp)
            b._signature.subpackets.addnew('EmbeddedSignature', hashed=False, _sig=sub.bind(k)._signature)
            sub |= k._sign(sub, b)
        if case['revoked']:
            k |= k.revoke(k, created=K.T0 + timedelta(seconds=30))
        pub = k.pubkey
        if case['subject'] == 'selfkey':
            subject = pub
        o = outcome(lambda: pub.verify(subject, signature) if signature is not None else pub.verify(subject))
        selfv = int(pub.self_verified)
    expired = case['expiry'] == 'past'
    sub_expired = case.get('subexpiry', 'none') == 'past' and ss is not None
    if o[0] != 'ok':
        ctx.fail('e2e', 'verify raised', dict(case, impl=repr(o)))
        return True
    sv = o[1]
    impl = show_sv(sv)
    failed = False
    # model input: one pair per examined signature, attributed to the key that made it
    pk = '%s:%s:0:%s:%s' % (kinfo(alg, size), b01(expired), b01(case['revoked']), hn(selfv))
    pairs, by_primary = [], []
    for s in sv._subjects:
        is_prim = (s.signature.signer == prim_id)
        by_primary.append(is_prim)
        if is_prim:
            info = pk
        else:
            sub = [(sa, sz) for (sa, sz, us), skid in zip(subs, k.subkeys) if skid == s.signature.signer]
            # subkeys: expired by their own newest binding signature (repair 96d5157) or with their primary; not revoked here
            own = sub_expired and s.signature.signer == ss[0].fingerprint.keyid
            info = '%s:%s:%s:0:%s' % (kinfo(*sub[0]), b01(own), b01(expired), hn(selfv))
        selfver = case['subject'] == 'selfkey' and is_prim and type(s.subject).__name__ == 'PGPKey' and s.subject.is_primary
        good_here = True if case['subject'] == 'selfkey' else case['good']
        pairs.append('%s:%s:%s' % (info, b01(selfver), b01(good_here)))
    if d is not None:
        m = d.call('verify', ';'.join(pairs) or '-')
        failed |= not ctx.expect_eq('e2e', 'PGPKey.verify result differs from model', case, impl, m)
    # the property, directly
    msg = coherent(sv)
    if msg:
        ctx.fail('e2e', msg, dict(case, impl=impl)); failed = True
    if case['subject'] != 'selfkey' and not case['good'] and bool(sv):
        ctx.fail('e2e', 'a cryptographically wrong signature leaves the result truthy', dict(case, impl=impl)); failed = True
    by_exp_sub = [sub_expired and s.signature.signer == ss[0].fingerprint.keyid for s in sv._subjects]
    if (expired or any(by_exp_sub)) and bool(sv):
        ctx.fail('e2e', 'disqualified (expired) key yields a truthy verification' +
                 (' (signature made by an expired subkey)' if any(by_exp_sub) and not expired else '' if any(by_primary) else ' (signature made by a subkey of the expired primary)'), dict(case, impl=impl))
        failed = True
    for s, es in zip(sv._subjects, by_exp_sub):
        if (expired or es) and not (int(s.issues) & FAIL_MASK):
            ctx.fail('e2e', 'entry examined with an expired key (an expired subkey, or a subkey of an expired key) is not disqualified', dict(case, impl=impl)); failed = True
    if sub_expired and case['signer'] in ('subkey', 'both') and case['subject'] != 'selfkey' and not any(by_exp_sub):
        ctx.fail('e2e', 'the signature of the expired subkey was not examined at all', dict(case, impl=impl)); failed = True
    if not expired and not any(by_exp_sub) and (case['good'] or case['subject'] == 'selfkey') and not bool(sv):
        ctx.fail('e2e', 'sound key and correct signature, yet falsy (an advisory weakness disqualified)', dict(case, impl=impl)); failed = True
    return failed


def e2e_cases(ctx, names):
    hashes = ['SHA256', 'SHA1', 'MD5', 'SHA512']
    out = []
    i = 0
    for name in names:
        for expiry in ('none', 'past', 'far', 'zero'):
            for revoked in (False, True):
                hs = hashes if not ctx.quick else [hashes[i % 3]]
                i += 1
                for h in hs:
                    for good in (True, False):
                        out.append({'op': 'e2e', 'key': name, 'hash': h, 'expiry': expiry, 'revoked': revoked, 'good': good,
                                    'signer': 'primary', 'subject': 'text'})
                if expiry == 'far' and ctx.quick:
                    continue
                h = hashes[i % 2]
                # the signing subkey with a validity period of its own (newest binding signature), the primary as it is
                if not revoked and any(u == 'sign' for (_, _, u) in K.SPECS[name][2]):
                    for subexpiry in (('past', 'zero') if ctx.quick else ('past', 'far', 'zero')):
                        for subject, signer in (('text', 'subkey'), ('msg', 'both'), ('msg', 'subkey'), ('selfkey', 'primary')):
                            for good in ((True,) if ctx.quick or subject == 'selfkey' else (True, False)):
                                out.append({'op': 'e2e', 'key': name, 'hash': h, 'expiry': expiry, 'revoked': False, 'good': good,
                                            'signer': signer, 'subject': subject, 'subexpiry': subexpiry})
                for subject, signer in (('msg', 'primary'), ('msg', 'both'), ('msg', 'subkey'), ('text', 'subkey'),
                                        ('selfkey', 'primary'), ('uid3p', 'primary')):
                    if signer != 'primary' and not any(u == 'sign' for (_, _, u) in K.SPECS[name][2]):
                        continue
                    for good in (True, False):
                        if subject == 'selfkey' and not good:
                            continue
                        if ctx.quick and not good and subject != 'msg':
                            continue
                        out.append({'op': 'e2e', 'key': name, 'hash': h, 'expiry': expiry, 'revoked': revoked, 'good': good,
                                    'signer': signer, 'subject': subject})
    return out


def run(ctx):
    pgpy = load_repo()
    d = Driver('c17')
    try:
        _run(ctx, d, pgpy)
    finally:
        d.close()


def _run(ctx, d, pgpy):
    from pgpy.constants import SecurityIssues, PubKeyAlgorithm, EllipticCurveOID
    import inspect
    # pinned shapes the model was written against (ties without a failing input)
    members = {n: int(m) for n, m in SecurityIssues.__members__.items()}
    want = {'OK': 0, 'WrongSig': 1, 'Expired': 2, 'Disabled': 4, 'Revoked': 8, 'Invalid': 16, 'BrokenAsymmetricFunc': 32,
            'HashFunctionNotCollisionResistant': 64, 'HashFunctionNotSecondPreimageResistant': 128,
            'AsymmetricKeyLengthIsTooShort': 256, 'InsecureCurve': 512, 'NoSelfSignature': 1024}
    if members != want:
        ctx.broken.append('pinned constant SecurityIssues members changed: %r' % members)
    for fn, frag in ((pgpy.PGPKey.check_management, "res = self.self_verified\n        if self.is_expired or (self.parent is not None and self.parent.is_expired):"),
                     (pgpy.PGPKey.check_management, "res |= int(bool(list(self.revocation_signatures))) * SecurityIssues.Revoked"),
                     (pgpy.PGPKey.check_soundness, "return self.check_management(self_verifying) | self.check_primitives()"),
                     # where k_expired of the model comes from: is_expired reads expires_at; a subkey's comes from its newest binding signature (repair 96d5157)
                     (pgpy.PGPKey.expires_at.fget, "if not self.is_primary:"),
                     (pgpy.PGPKey.expires_at.fget, "if sig.type == SignatureType.Subkey_Binding and \\\n                        (self.parent is None or sig.signer == self.parent.fingerprint.keyid):\n                    expires = sig.key_expiration"),
                     (pgpy.PGPKey.expires_at.fget, "if expires:\n            return self.created + expires"),
                     (pgpy.PGPKey.verify, "subkey_issues = self.check_soundness(self_verifying)\n                signature_issues = self.check_primitives()"),
                     (pgpy.PGPKey.verify, "if issues and issues.causes_signature_verify_to_fail:\n                    sigv.add_sigsubj(sig, self, subj, issues)"),
                     (pgpy.PGPKey.verify, "sigv.add_sigsubj(sig, self, subj, SecurityIssues.WrongSig if not verified else SecurityIssues.OK)")):
        if frag not in inspect.getsource(fn):
            ctx.broken.append('pinned source text of PGPKey.%s changed (model/Verdict.v was written against: %r)' % (fn.__name__, frag[:60]))

    # ---- 1. all 2^11 issue values: the failing test and the three views ----
    bt = Batch(ctx, d, 'issues-exhaustive', 'causes_fail (mask / bit reading) differs from model')
    bt2 = Batch(ctx, d, 'entry-exhaustive', 'entry predicates differ from model')
    for v in range(2048):
        check_cf(ctx, d, pgpy, v, bt)
        check_pred(ctx, d, pgpy, v, bt2)
        ctx.case('issues-exhaustive', v, sample={'v': v, 'fails': bool(SecurityIssues(v).causes_signature_verify_to_fail)})
        ctx.case('entry-exhaustive', v)
    bt.flush(); bt2.flush()
    ctx.exhaustive.append('all 2^11 SecurityIssues values: causes_signature_verify_to_fail, good/bad/bool of a one-entry result')
    # monotonicity on the implementation itself: every disqualifying d or-ed with every a (2^22 pairs thorough, 2^11 x 64 quick)
    cf = [bool(SecurityIssues(v).causes_signature_verify_to_fail) for v in range(2048)]
    others = range(2048) if not ctx.quick else [ctx.rng.randrange(2048) for _ in range(64)]
    for dv in range(2048):
        if cf[dv]:
            for a in others:
                if not cf[dv | a]:
                    ctx.fail('monotone', 'a disqualifying issue set stops failing when another issue is added', {'op': 'mono', 'd': dv, 'a': a})
    ctx.case('monotone', ('sweep', len(list(others))), sample={'pairs': sum(cf) * len(list(others))})
    # regression witness of F1 through the model's copy of the old definition
    old = d.call('cf', hn(2 | 512)).split(' ') + [d.call('cfold', hn(2 | 512)), d.call('verify_old', '13:c:NIST_P256:1:0:0:0:0:1'),
                                                   d.call('verify', '13:c:NIST_P256:1:0:0:0:0:1'),
                                                   d.call('verify_oldmg', '16:c:Ed25519:0:1:0:0:0:1'), d.call('verify', '16:c:Ed25519:0:1:0:0:0:1')]
    if old != ['1', '1', '0', '0 0 - 1', '202 - 202 0', '0 0 - 1', '2 - 2 0']:
        ctx.fail('regression', 'F1 witness Expired|InsecureCurve: expected (current fails, old did not)', {'op': 'cf', 'v': 514, 'model': old})

    # ---- 2. every entry list up to length 3 over 6 representative values (+ the no-issues default), and merges ----
    reps = [0, 1, 2 | 512, 512, 8, 'n']
    bt3 = Batch(ctx, d, 'entry-lists', 'result views differ from model')
    for n in range(0, 4):
        for es in itertools.product(reps, repeat=n):
            check_result(ctx, d, pgpy, es, None, bt3)
            ctx.case('entry-lists', es, sample={'entries': [str(e) for e in es], 'impl': show_sv(mk_result(pgpy, es))})
    for n1 in range(0, 3):
        for n2 in range(0, 3):
            for a in itertools.product(reps, repeat=n1):
                for b in itertools.product(reps, repeat=n2):
                    check_result(ctx, d, pgpy, a, b, bt3)
                    ctx.case('entry-merge', (a, b))
    bt3.flush()
    # random longer lists over arbitrary values
    for _ in range(ctx.n(300, 5000)):
        es = tuple(ctx.rng.choice([0, 0, 1, 'n', ctx.rng.randrange(2048)]) for _ in range(ctx.rng.randrange(4, 12)))
        check_result(ctx, d, pgpy, es, None, bt3)
        ctx.case('entry-lists-random', es)
    bt3.flush()
    ctx.exhaustive.append('all entry lists of length <= 3 over {OK, WrongSig, Expired|InsecureCurve, InsecureCurve, Revoked, default 0xFF}; all merges of two lists of length <= 2')

    # ---- 3. validate_params: every algorithm x sizes / curves ----
    bt4 = Batch(ctx, d, 'validate-params', 'validate_params differs from model')
    curves = [c.name for c in EllipticCurveOID]
    for alg in PubKeyAlgorithm:
        for bits in [0, 1, 512, 1023, 1024, 2047, 2048, 2049, 3072, 4096, 8192] + [ctx.rng.randrange(0, 5000) for _ in range(ctx.n(5, 100))]:
            check_vparams(ctx, d, pgpy, int(alg), 'b', bits, bt4)
            ctx.case('validate-params', (int(alg), bits), sample={'alg': alg.name, 'bits': bits})
        for c in curves:
            check_vparams(ctx, d, pgpy, int(alg), 'c', c, bt4)
            ctx.case('validate-params', (int(alg), c))
    bt4.flush()
    ctx.exhaustive.append('validate_params: every PubKeyAlgorithm member x every EllipticCurveOID member')

    # ---- 4. end to end with real keys ----
    names = K.available(['rsa2048', 'rsa1024', 'dsa2048', 'dsa1024', 'ed25519', 'ed25519b', 'p256', 'p384', 'secp256k1'] +
                        ([] if ctx.quick else ['rsa3072', 'p521']))
    for n in K.SPECS:
        if n not in names and (not ctx.quick or n not in ('rsa3072', 'p521')):
            ctx.skipped.append('key %s unavailable with the local OpenSSL' % n)
    for case in e2e_cases(ctx, names):
        r = e2e(ctx, d, pgpy, case)
        if r is None:
            continue
        if isinstance(r, tuple):
            if r[1] not in ctx.skipped:
                ctx.skipped.append(r[1])
            continue
        ctx.case('e2e-' + case['subject'], tuple(sorted(case.items())), sample=case)
    same_object_histories(ctx, pgpy, [n for n in ('ed25519', 'p256', 'rsa2048') if n in names])
    issuer_cannot_sign(ctx, pgpy, [n for n in ('ed25519', 'p256') if n in names])


def issuer_cannot_sign(ctx, pgpy, names):
    """a signature made by a FOREIGN key, relabelled so that its issuer is the key id of the verifying key's ENCRYPTION subkey (a component
    with no verify operation): detached, in a message next to an honest signature, and as a certification: it is never reported good and the
    result is never truthy because of it (raising is a refusal)"""
    import warnings
    from datetime import timedelta
    for name in names:
        with warnings.catch_warnings():
            warnings.simplefilter('ignore')
            k = K.get(name)
            encs = [sk for sk in k.subkeys.values() if int(sk.key_algorithm) in (18, 16)]
            if not encs:
                continue
            forger = K.get('ed25519b' if name != 'ed25519b' else 'ed25519')
            doc = 'forged under the encryption subkey'
            fs = forger.sign(doc, created=K.T0 + timedelta(seconds=70))
            raw = bytearray(bytes(fs))
            kid_f = bytes.fromhex(str(forger.fingerprint.keyid)); kid_e = bytes.fromhex(str(encs[0].fingerprint.keyid))
            fpr_f = bytes.fromhex(str(forger.fingerprint).replace(' ', '')); fpr_e = bytes.fromhex(str(encs[0].fingerprint).replace(' ', ''))
            # the issuer key id sits in the UNHASHED area (relabelling it keeps the packet well-formed); the hashed issuer fingerprint is left
            i = bytes(raw).rfind(kid_f)
            if i < 0:
                continue
            raw[i:i + 8] = kid_e
            pub = k.pubkey
            honest = k.sign(doc, created=K.T0 + timedelta(seconds=71))
            def detached():
                r = pub.verify(doc, pgpy.PGPSignature.from_blob(bytes(raw)))
                return bool(r), len(list(r.good_signatures))
            def in_message():
                m = pgpy.PGPMessage.new(doc, compression=pgpy.constants.CompressionAlgorithm.Uncompressed)
                m |= honest
                m |= pgpy.PGPSignature.from_blob(bytes(raw))
                r = pub.verify(pgpy.PGPMessage.from_blob(bytes(m)))
                return bool(r), len(list(r.good_signatures))
            for what, fn in (('detached', detached), ('in a message beside an honest signature', in_message)):
                try:
                    o = ('ok', fn())
                except Exception as ex:
                    o = ('raise', type(ex).__name__)
                ctx.case('issuer-cannot-sign', (name, what), sample={'key': name, 'what': what, 'impl': repr(o)})
                if o[0] == 'ok' and (o[1][0] and (what == 'detached' or o[1][1] > 1) or (what == 'detached' and o[1][1] > 0) or o[1][1] > 1):
                    ctx.fail('issuer-cannot-sign', 'a signature relabelled to the encryption subkey (no verify operation) is reported good (%s)' % what,
                             {'op': 'nosign', 'key': name, 'what': what, 'impl': repr(o)})


def same_object_histories(ctx, pgpy, names):
    """one key OBJECT verifies before and after it becomes disqualified (and after a wrong signature): the verdict must follow
    the state of the key at the time of the call, never an earlier verification on the same object"""
    import warnings
    from datetime import timedelta
    from pgpy.constants import KeyFlags as F
    for name in names:
        with warnings.catch_warnings():
            warnings.simplefilter('ignore')
            k = K.get(name)
            pub = k.pubkey
            sig = k.sign('history text', created=K.T0 + timedelta(seconds=50))
            bad = k.sign('other text', created=K.T0 + timedelta(seconds=51))
            steps = []
            steps.append(('good-before', bool(pub.verify('history text', sig)), True))
            steps.append(('wrong-before', bool(pub.verify('history text', bad)), False))
            steps.append(('good-again', bool(pub.verify('history text', sig)), True))
            # the SAME signature object, after it verified well, over other data (and under a key that did not make it)
            steps.append(('same-sig-other-text', bool(pub.verify('history text.', sig)), False))
            steps.append(('same-sig-other-bytes', bool(pub.verify(b'History text', sig)), False))
            steps.append(('same-sig-right-text-again', bool(pub.verify('history text', sig)), True))
            # a result object that was READ (bool / repr), then merged with a failing one, then read again
            r1 = pub.verify('history text', sig)
            seen1 = (bool(r1), repr(r1) is not None)
            r1 &= pub.verify('history text', bad)
            steps.append(('read-then-merge-bad', bool(r1), False))
            steps.append(('read-then-merge-bad-lists', len(list(r1.bad_signatures)) == 1 and len(list(r1.good_signatures)) == 1, True))
            r2 = pub.verify('history text', bad)
            seen2 = bool(r2)
            r2 &= pub.verify('history text', sig)
            steps.append(('bad-read-then-merge-good', bool(r2), False))
            # the key expires: a newer self-certification with an expiry in the past is merged into the SAME objects
            uid = k.userids[0]
            newsig = k.certify(uid, key_expiration=timedelta(seconds=5), usage={F.Sign, F.Certify}, created=K.T0 + timedelta(seconds=60))
            uid |= newsig
            pub.userids[0] |= pgpy.PGPSignature.from_blob(bytes(newsig))
            expired = bool(pub.is_expired) and bool(k.is_expired)
            steps.append(('expired-pub', bool(pub.verify('history text', sig)), False))
            steps.append(('expired-priv', bool(k.verify('history text', sig)), False))
            fresh = pgpy.PGPKey.from_blob(bytes(pub))[0]
            steps.append(('expired-fresh-copy', bool(fresh.verify('history text', sig)), False))
        case = {'op': 'history', 'key': name, 'steps': [[a, b] for a, b, c in steps]}
        ctx.case('same-object-history', name, sample=case)
        if not expired:
            ctx.fail('same-object-history', 'harness: key did not become expired', case); continue
        for what, got, want in steps:
            if got != want:
                ctx.fail('same-object-history', 'verdict of step %s is %s: it does not follow the state of the key at the time of the call' % (what, got), case)
                break


def replay(ctx, case):
    pgpy = load_repo()
    ctx.broken = getattr(ctx, 'broken', [])
    try:
        d = Driver('c17')
    except Exception:
        d = None
    before = len(ctx.violations) + len(ctx.known_hit)
    try:
        op = case.get('op')
        if op == 'cf':
            check_cf(ctx, d, pgpy, case['v'])
        elif op == 'pred':
            check_pred(ctx, d, pgpy, case['v'])
        elif op == 'result':
            check_result(ctx, d, pgpy, tuple(case['entries']), None if case.get('and') is None else tuple(case['and']))
        elif op == 'vparams':
            check_vparams(ctx, d, pgpy, case['alg'], case['kind'], case['size'])
        elif op == 'mono':
            from pgpy.constants import SecurityIssues
            if SecurityIssues(case['d']).causes_signature_verify_to_fail and not SecurityIssues(case['d'] | case['a']).causes_signature_verify_to_fail:
                return True
        elif op == 'e2e':
            c = {k: v for k, v in case.items() if k not in ('impl', 'model')}
            e2e(ctx, d, pgpy, c)
    finally:
        if d is not None:
            d.close()
    return len(ctx.violations) + len(ctx.known_hit) > before
