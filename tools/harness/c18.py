"""C18 correspondence + direct oracles: fingerprints / key ids of PGPy against the extracted model
(Model/KeyPackets.v, Model/Fingerprint.v: the fingerprint AS THE CODE computes it, the packet-body encoder, the parser)
and against the RFC transcription (Spec/Rfc4880_keys.v), with SHA-1 answered by hashlib through the primitive oracle.

Two comparisons throughout: (a) implementation vs model on the same fields, (b) the RFC 4880 12.2 law computed
directly on what the implementation exports (independent Python splitter + hashlib), so a change in glue the model
does not cover is still seen."""
import calendar, copy, hashlib, inspect, json, os, subprocess, sys, warnings
from datetime import datetime, timedelta, timezone

from .common import Driver, hx, unhx, hn, unhn, outcome, load_repo, REPO

# dotted OIDs in the order of Model/KeyPackets.v `all_curves`
CURVES = ['1.3.6.1.4.1.3029.1.5.1', '1.3.6.1.4.1.11591.15.1', '1.2.840.10045.3.1.7', '1.3.132.0.34', '1.3.132.0.35',
          '1.3.36.3.3.2.8.1.1.7', '1.3.36.3.3.2.8.1.1.11', '1.3.36.3.3.2.8.1.1.13', '1.3.132.0.10']

# source text the model was written against (sha256 prefix of inspect.getsource)
PINS = {
    'PubKeyV4.fingerprint': 'b9a66ce211304a2a',
    'PrivKeyV4.pubkey': '4612486ea4ab27ef',      # repair 3c1c8c6: refuses OpaquePrivKey material (Model/KeyPackets.v pubkey_pkt = None)
}

EPOCH = datetime(1970, 1, 1)


def src_hash(f):
    return hashlib.sha256(inspect.getsource(f).encode()).hexdigest()[:16]


def wallclock(dt):
    """the integer the model calls k_created, computed without calendar/utctimetuple: the instant of an aware datetime
    (repair ceba52c), the fields as they stand read as UTC for a naive one"""
    if dt.tzinfo is not None:
        return (dt - EPOCH.replace(tzinfo=timezone.utc)) // timedelta(seconds=1)
    return (dt - EPOCH) // timedelta(seconds=1)


# ---------------------------------------------------------------- fields of a PGPy key packet -> model tokens
def point_tokens(p):
    f = int(p.format)
    if f == 0x04:
        return 'std %s %s %s' % (hn(int(p.bytelen)), hn(int(p.x)), hn(int(p.y)))
    if f == 0x40:
        return 'nat ' + hx(bytes(p.x))
    raise ValueError('point format %r' % f)


def curve_idx(oid):
    return CURVES.index(str(oid.value))


def mat_tokens(alg, km):
    a = int(alg)
    if a in (1, 2, 3):
        return 'rsa %s %s' % (hn(int(km.n)), hn(int(km.e)))
    if a == 17:
        return 'dsa %s %s %s %s' % (hn(int(km.p)), hn(int(km.q)), hn(int(km.g)), hn(int(km.y)))
    if a in (16, 20):
        return 'elg %s %s %s' % (hn(int(km.p)), hn(int(km.g)), hn(int(km.y)))
    if a == 19:
        return 'ecdsa %d %s' % (curve_idx(km.oid), point_tokens(km.p))
    if a == 22:
        return 'eddsa %d %s' % (curve_idx(km.oid), point_tokens(km.p))
    if a == 18:
        return 'ecdh %d %s %s %s' % (curve_idx(km.oid), point_tokens(km.p), hn(int(km.kdf.halg)), hn(int(km.kdf.encalg)))
    return 'opaque ' + hx(bytes(km.data))


def sec_tokens(km):
    if not hasattr(km, 's2k'):
        return 'pub'
    s2k = bytes(km.s2k.__bytearray__())
    privs = [int(getattr(km, f)) for f in km.__privfields__]
    return ' '.join(['sec', hn(s2k[0]), hx(s2k[1:]), hx(bytes(km.encbytes)), hx(bytes(km.chksum)), '%d' % len(privs)] + [hn(v) for v in privs])


def key_tokens(pkt, created=None, public=False):
    """model input for a PubKeyV4/PrivKeyV4/…SubKeyV4 packet object, read from its FIELDS (never from its bytes)"""
    sub = '1' if 'Sub' in type(pkt).__name__ else '0'
    cr = wallclock(pkt.created) if created is None else created
    return ' '.join([sub, hn(cr), hn(int(pkt.pkalg)), mat_tokens(pkt.pkalg, pkt.keymaterial),
                     'pub' if public else sec_tokens(pkt.keymaterial)]).strip()


# ---------------------------------------------------------------- independent Python packet splitter (direct oracles)
def split_packets(data):
    """[(tag, body)] of a sequence of OpenPGP packets (no partial lengths); raises ValueError on malformed input"""
    data = bytes(data)
    out, i = [], 0
    while i < len(data):
        o = data[i]
        if not o & 0x80:
            raise ValueError('not a packet header')
        if o & 0x40:
            tag = o & 0x3f
            l0 = data[i + 1]
            if l0 < 192:
                n, i = l0, i + 2
            elif l0 < 224:
                n, i = ((l0 - 192) << 8) + data[i + 2] + 192, i + 3
            elif l0 == 255:
                n, i = int.from_bytes(data[i + 2:i + 6], 'big'), i + 6
            else:
                raise ValueError('partial length')
        else:
            tag = (o >> 2) & 0xf
            w = {0: 1, 1: 2, 2: 4}.get(o & 3)
            if w is None:
                raise ValueError('indeterminate length')
            n, i = int.from_bytes(data[i + 1:i + 1 + w], 'big'), i + 1 + w
        if i + n > len(data):
            raise ValueError('truncated')
        out.append((tag, data[i:i + n]))
        i += n
    return out


def rfc_fp(body):
    return hashlib.sha1(b'\x99' + len(body).to_bytes(2, 'big') + body).hexdigest()


def model_fp(d, toks, kid=False):
    """(the extracted model is slow on 2048-bit numbers: ~25 ms per MPI encoding, so the key id is a separate command)"""
    r = cached(d, 'fp ' + toks).split(' ')
    # 'body' is the word REFUSED when the model's pubkey() refuses (private packet with opaque material)
    m = {'fp': r[0], 'rfc': r[1], 'publen': unhn(r[2]), 'body': r[3], 'rfcbody': r[4]}
    if kid:
        k = cached(d, 'kid ' + toks).split(' ')
        m['keyid'], m['keyidval'] = k[0], unhn(k[1])
    return m


def cached(d, line):
    """the model is a function: identical command lines (same key fields under another time zone / datetime flavour) are asked once"""
    c = d.__dict__.setdefault('_memo', {})
    if line not in c:
        if len(c) > 20000:
            c.clear()
        c[line] = d.call(line)
    return c[line]


def exported_pub_body(pkt):
    """the public-key packet body AS EXPORTED for this key packet (through pubkey() when it is a secret packet)"""
    pub = pkt.pubkey() if hasattr(pkt.keymaterial, 's2k') else pkt
    (tag, body), = split_packets(bytes(pub.__bytearray__()))
    return tag, body


def check_packet(ctx, d, suite, pkt, case, created=None, nontrivial=True, kid=True):
    """one key packet: implementation vs model vs RFC law.  Returns the model record."""
    toks = key_tokens(pkt, created)
    m = model_fp(d, toks, kid)
    o = outcome(lambda: (str(pkt.fingerprint).lower(), bytes(pkt.__bytearray__()).hex()))
    if o[0] != 'ok':
        ctx.case(suite, (toks,), nontrivial=False)
        ctx.fail(suite, 'fingerprint / emission of a well-formed key raises', dict(case, tokens=toks[:600], impl=repr(o)))
        return m
    impl = o[1][0]
    case = dict(case, pkt=bytes(pkt.__bytearray__()).hex(), tokens=toks if len(toks) < 600 else toks[:600] + '...')
    ctx.case(suite, (toks,), nontrivial=nontrivial, sample={'tokens': toks[:200], 'impl_fp': impl})
    ctx.expect_eq(suite, 'fingerprint differs from the model of PubKeyV4.fingerprint', case, impl, m['fp'])
    if int(pkt.pkalg) in (0, 21) and hasattr(pkt.keymaterial, 's2k'):
        # PRIVATE key of an algorithm PGPy has no class for: the whole stored material is hashed and pubkey() refuses (theorem
        # C18_fp_opaque_private_characterised) - no public body to hold the fingerprint against; the correspondence with the model of
        # the code is checked, and (repair c516614, theorem C18_opaque_private_reemit) the packet is written back as received:
        # version, time, algorithm, the opaque octets, under a header that counts them
        sp = outcome(lambda: split_packets(bytes(pkt.__bytearray__())))
        mt, mb = cached(d, 'body ' + toks).split(' ')
        ctx.expect_eq(suite, 'emitted opaque private key packet (tag, body) differs from model', case,
                      (sp[0], [(t, b.hex()) for t, b in sp[1]] if sp[0] == 'ok' else sp[1]), ('ok', [(unhn(mt), mb)]))
        want = (b'\x04' + wallclock(pkt.created).to_bytes(4, 'big') + bytes([int(pkt.pkalg)]) + bytes(pkt.keymaterial.data)).hex()
        if mb != want:
            ctx.fail(suite, 'model: body of an opaque private key is not version, time, algorithm, opaque octets', dict(case, model=mb, want=want))
        return m
    if m['fp'] != m['rfc'] or m['body'] != m['rfcbody']:
        ctx.fail(suite, 'model: code fingerprint/body differs from the RFC transcription on a well-formed key (theorem premises violated?)', case)
    ctx.expect_eq(suite, 'publen() differs from model', case, pkt.keymaterial.publen(), m['publen'])
    # emitted octets of this very packet: ONE packet whose header counts the octets written
    sp = outcome(lambda: split_packets(bytes(pkt.__bytearray__())))
    if sp[0] != 'ok' or len(sp[1]) != 1:
        ctx.fail(suite, 'emitted key packet is not one well-formed packet (header length does not count the octets written?)', dict(case, impl=repr(sp)[:300]))
        return m
    (tag, body), = sp[1]
    mt, mb = cached(d, 'body ' + toks).split(' ')
    ctx.expect_eq(suite, 'emitted key packet (tag, body) differs from model', case, (tag, body.hex()), (unhn(mt), mb))
    if body[:6 + m['publen']].hex() != m['body']:
        ctx.fail(suite, 'public body is not the first 6+publen octets of the emitted body', case)
    # direct law on what the implementation exports
    ex = outcome(exported_pub_body, pkt)
    if ex[0] != 'ok':
        ctx.fail(suite, 'public half of a well-formed key of a supported algorithm is not produced / not exported', dict(case, impl=repr(ex)))
        return m
    ptag, pbody = ex[1]
    if rfc_fp(pbody) != impl:
        ctx.fail(suite, 'fingerprint is not SHA-1(0x99 || len || public packet body as exported)', dict(case, exported=pbody.hex(), rfc=rfc_fp(pbody), impl=impl))
    if pbody.hex() != m['rfcbody']:
        ctx.fail(suite, 'exported public body differs from the RFC 5.5.2 body written from the fields', dict(case, exported=pbody.hex(), rfc=m['rfcbody']))
    kidv = str(pkt.fingerprint.keyid).lower()
    if not (kidv == impl[-16:] and int(kidv, 16) == int(impl, 16) % 2 ** 64):
        ctx.fail(suite, 'key id is not the low 64 bits of the fingerprint', dict(case, keyid=kidv, impl=impl))
    if kid and not (kidv == m['keyid'] and int(kidv, 16) == m['keyidval']):
        ctx.fail(suite, 'key id differs from model / RFC number', dict(case, keyid=kidv, impl=impl, model=m['keyid']))
    return m


def packets_of_key(key):
    return [key._key] + [sk._key for sk in key.subkeys.values()]


# ---------------------------------------------------------------- suites
def suite_pins(ctx, pgpy):
    from pgpy.packet.packets import PubKeyV4, PrivKeyV4
    from pgpy.constants import EllipticCurveOID
    cur = {'PubKeyV4.fingerprint': src_hash(PubKeyV4.fingerprint.fget), 'PrivKeyV4.pubkey': src_hash(PrivKeyV4.pubkey)}
    for k, v in PINS.items():
        ctx.case('pins', k, nontrivial=False)
        if cur[k] != v:
            ctx.broken.append('pinned source text of %s changed (%s, model written against %s)' % (k, cur[k], v))


def suite_oids(ctx, d, pgpy):
    from pgpy.constants import EllipticCurveOID
    from pyasn1.codec.der import encoder
    seen = set()
    for mbr in EllipticCurveOID:
        if mbr is EllipticCurveOID.Invalid:
            continue
        dotted = str(mbr.value)
        if dotted not in CURVES:
            ctx.broken.append('EllipticCurveOID.%s = %s is not in the model curve table' % (mbr.name, dotted))
            continue
        i = CURVES.index(dotted)
        seen.add(i)
        impl = bytes(encoder.encode(mbr.value)[1:])
        mo, ro = d.call('oid', i).split(' ')
        ctx.case('oid', dotted, sample={'oid': dotted, 'impl': impl.hex()})
        ctx.expect_eq('oid', 'curve OID field differs from model DER encoder', {'op': 'oid', 'oid': dotted}, impl.hex(), mo)
        ctx.expect_eq('oid', 'curve OID field differs from the RFC 6637 / 4880bis table', {'op': 'oid', 'oid': dotted}, impl.hex(), ro)
    if seen != set(range(len(CURVES))):
        ctx.broken.append('model curves without an EllipticCurveOID member: %s' % sorted(set(range(len(CURVES))) - seen))
    ctx.exhaustive.append('all %d EllipticCurveOID members: DER OID field vs model encoder vs RFC table' % len(seen))


TIMES = [0, 1, 2 ** 31 - 1, 2 ** 31, 2 ** 31 + 1, 2 ** 32 - 2, 2 ** 32 - 1, 86399, 86400, 951782400, 1582934400]
ZONES = [timezone.utc, timezone(timedelta(hours=5, minutes=30)), timezone(timedelta(hours=-8)), timezone(timedelta(hours=14)),
         timezone(timedelta(hours=-12)), None]


def reparse_packet(pgpy, pkt):
    from pgpy.packet import Packet
    return Packet(bytearray(bytes(pkt.__bytearray__()) + b'\xde\xad'))


def suite_times(ctx, d, pgpy, names):
    """creation instants 0 .. 2^32-1 given as UTC-aware, offset-aware (rendering differs from UTC) and naive datetimes and as
    integers; direct oracle: the four stored octets are int(dt.timestamp()); export + import"""
    from .keys import get
    extra = [ctx.rng.randrange(2 ** 32) for _ in range(ctx.n(4, 24))]
    for name in names:
        key = get(name)
        big = name.startswith(('rsa', 'dsa'))      # the extracted model needs ~25 ms per 2048-bit MPI: fewer cases, public packet only (quick)
        for pkt0 in packets_of_key(key):
            if big and ctx.quick:
                pkt0 = pkt0.pubkey()
            for t in (TIMES[:7] if big and ctx.quick else TIMES + extra[:6] if big else TIMES + extra):
                for tz in (ZONES if (ctx.quick is False or (t in (0, 2 ** 31, 2 ** 32 - 1) and not big)) else
                           [timezone.utc, ZONES[1], None] if t in TIMES[:7] else [timezone.utc, ZONES[2]]):
                    pkt = copy.copy(pkt0)
                    # the instant t rendered in zone tz (its wall clock differs from UTC's); naive: the UTC fields without a zone
                    dt = datetime.fromtimestamp(t, tz) if tz is not None else EPOCH + timedelta(seconds=t)
                    with warnings.catch_warnings():
                        warnings.simplefilter('ignore')
                        pkt.created = dt
                    case = {'op': 'time', 'key': name, 'w': t, 'tz': str(tz)}
                    m = check_packet(ctx, d, 'creation-time', pkt, case, created=t, kid=not big)
                    # direct oracle: the four octets after the version octet are the instant
                    o = outcome(lambda: split_packets(bytes(pkt.__bytearray__()))[0][1])
                    stamp = int(dt.timestamp()) if tz is not None else t
                    if o[0] != 'ok' or o[1][0] != 4 or int.from_bytes(o[1][1:5], 'big') != stamp:
                        ctx.fail('creation-time', 'stored creation time is not int(dt.timestamp())', dict(case, stamp=stamp, impl=repr(o)[:80]))
                    # export + import: same fingerprint, same instant
                    o = outcome(reparse_packet, pgpy, pkt)
                    if o[0] != 'ok':
                        ctx.fail('creation-time', 'emitted key packet is not read back', dict(case, impl=repr(o)))
                        continue
                    q = o[1]
                    if outcome(lambda: str(q.fingerprint).lower())[1] != m['fp'] or wallclock(q.created) != t or int(q.created.timestamp()) != t:
                        ctx.fail('creation-time', 'fingerprint / creation time changes over export + import',
                                 dict(case, pkt=bytes(pkt.__bytearray__()).hex(), after=str(q.fingerprint), created=str(q.created)))
                    # assigning the integer directly
                    pkt2 = copy.copy(pkt0)
                    pkt2.created = t
                    if outcome(lambda: str(pkt2.fingerprint).lower())[1] != m['fp']:
                        ctx.fail('creation-time', 'created=<int> gives another fingerprint than the datetime', case)
    # PGPKey.new with an offset-aware created=: the key packet stores the instant
    from pgpy.constants import PubKeyAlgorithm as A, EllipticCurveOID as C
    for t in [0, 1622529000, 2 ** 31 + 1, 2 ** 32 - 1]:
        for tz in ZONES[1:5]:
            dt = datetime.fromtimestamp(t, tz)
            with warnings.catch_warnings():
                warnings.simplefilter('ignore')
                o = outcome(lambda: pgpy.PGPKey.new(A.EdDSA, C.Ed25519, created=dt))
            case = {'op': 'time-new', 'w': t, 'tz': str(tz)}
            ctx.case('creation-time', ('new', t, str(tz)))
            if o[0] != 'ok':
                ctx.fail('creation-time', 'PGPKey.new refuses an offset-aware creation time', dict(case, impl=repr(o))); continue
            body = split_packets(bytes(o[1]._key.__bytearray__()))[0][1]
            re = pgpy.PGPKey.from_blob(bytes(o[1]))[0]
            if int.from_bytes(body[1:5], 'big') != int(dt.timestamp()) or re.created != dt or str(re.fingerprint) != str(o[1].fingerprint):
                ctx.fail('creation-time', 'offset-aware creation time is not stored as the instant', dict(case, pkt=bytes(o[1]._key.__bytearray__()).hex()))
            check_packet(ctx, d, 'creation-time', o[1]._key, case, created=t)


TZ_CHILD = r'''
import sys, json, warnings
warnings.simplefilter('ignore')
sys.path.insert(0, %r)
from datetime import datetime, timezone, timedelta
from pgpy.packet import Packet
import time
out = []
for pkthex, w in json.load(sys.stdin):
    p = Packet(bytearray.fromhex(pkthex))
    fp_parsed = str(p.fingerprint)
    p.created = datetime.fromtimestamp(w, timezone.utc)
    fp_utc = str(p.fingerprint)
    p.created = w
    fp_int = str(p.fingerprint)
    loc = datetime.fromtimestamp(w)            # naive local rendering of the same instant
    wl = (loc - datetime(1970, 1, 1)) // timedelta(seconds=1)
    if 0 <= wl < 2 ** 32:
        p.created = loc
    out.append([fp_parsed, fp_utc, fp_int, str(p.fingerprint), [loc.year, loc.month, loc.day, loc.hour, loc.minute, loc.second], bytes(p.__bytearray__()).hex(), time.tzname[0]])
json.dump(out, sys.stdout)
'''


def suite_tzenv(ctx, d, pgpy, names):
    """the same computations in a process whose local time zone is not UTC"""
    from .keys import get
    jobs, meta = [], []
    for name in names:
        pkt0 = get(name)._key.pubkey()
        for w in [0, 1, 2 ** 31 - 1, 2 ** 31 + 1, 1616898600, 1635640200, 2 ** 32 - 1 - 50400]:
            jobs.append([bytes(pkt0.__bytearray__()).hex(), w]); meta.append((name, w, pkt0))
    for tzname in ['Asia/Kolkata', 'America/Los_Angeles'] + ([] if ctx.quick else ['Pacific/Kiritimati', 'Europe/London']):
        env = dict(os.environ, TZ=tzname, PYTHONPATH=REPO)
        p = subprocess.run([sys.executable, '-c', TZ_CHILD % REPO], input=json.dumps(jobs), capture_output=True, text=True, env=env, timeout=120)
        if p.returncode != 0:
            ctx.fail('tz-env', 'child process failed', {'op': 'tzenv', 'tz': tzname, 'err': p.stderr[-300:]})
            continue
        for (name, w, pkt0), (fp_parsed, fp_utc, fp_int, fp_loc, lt, pkthex, zn) in zip(meta, json.loads(p.stdout)):
            case = {'op': 'tzenv', 'tz': tzname, 'key': name, 'w': w, 'pkt': bytes(pkt0.__bytearray__()).hex()}
            ctx.case('tz-env', (tzname, name, w), sample={'tz': tzname, 'zone_seen_by_child': zn, 'w': w, 'local': lt})
            ctx.expect_eq('tz-env', 'fingerprint of a parsed key depends on TZ', case, fp_parsed.lower(), str(pkt0.fingerprint).lower())
            mu = model_fp(d, key_tokens(pkt0, created=w))
            ctx.expect_eq('tz-env', 'fingerprint (UTC-aware datetime) under TZ differs from model', case, fp_utc.lower(), mu['fp'])
            ctx.expect_eq('tz-env', 'fingerprint (created=int) under TZ differs from model', case, fp_int.lower(), mu['fp'])
            # naive local datetime: the code reads its wall-clock fields as UTC; the model gets that integer
            wl = wallclock(datetime(*lt))
            if 0 <= wl < 2 ** 32:
                ml = model_fp(d, key_tokens(pkt0, created=wl))
                ctx.expect_eq('tz-env', 'fingerprint (naive local datetime) differs from model', case, fp_loc.lower(), ml['fp'])
                (tag, body), = split_packets(bytes.fromhex(pkthex))
                if rfc_fp(body) != fp_loc.lower():
                    ctx.fail('tz-env', 'fingerprint is not the hash of the exported body', case)


def mk_pub(pgpy, alg, sub=False, created=1000, **f):
    """a public key packet built from raw numbers through PGPy's field setters"""
    from pgpy.packet.packets import PubKeyV4, PubSubKeyV4
    from pgpy.packet.types import MPI
    from pgpy.packet.fields import ECPoint
    from pgpy.constants import EllipticCurveOID, ECPointFormat
    pk = PubSubKeyV4() if sub else PubKeyV4()
    pk.created = created
    pk.pkalg = alg
    km = pk.keymaterial
    for name in ('n', 'e', 'q', 'g', 'y') + (('p',) if alg in (17, 16, 20) else ()):
        if name in f:
            setattr(km, name, MPI(f[name]))
    if alg in (18, 19, 22):
        km.oid = [m for m in EllipticCurveOID if m is not EllipticCurveOID.Invalid and str(m.value) == CURVES[f['curve']]][0]
        if 'native' in f:
            km.p = ECPoint.from_values(8 * len(f['native']), ECPointFormat.Native, f['native'])
        else:
            km.p = ECPoint.from_values(8 * f['bl'], ECPointFormat.Standard, MPI(f['x']), MPI(f['px']))
        if alg == 18:
            km.kdf.halg = f['kh']; km.kdf.encalg = f['ke']
    pk.update_hlen()
    return pk


def suite_leading_zero(ctx, d, pgpy):
    """public integers with leading zero bits / octets, tiny values, coordinates shorter than the field"""
    rng = ctx.rng
    specs = []
    sizes = [1, 2, 7, 8, 9, 15, 16, 17, 63, 64, 65, 1023, 1024, 1025, 2047] + [rng.randrange(1, 600) for _ in range(6)] if ctx.quick else \
            [1, 2, 7, 8, 9, 15, 16, 17, 63, 64, 65, 1023, 1024, 1025, 2041, 2047, 2048, 2049, 4095, 4096] + [rng.randrange(1, 4100) for _ in range(24)]
    for bits in sizes:
        n = (1 << (bits - 1)) | rng.getrandbits(bits - 1) if bits > 1 else 1
        specs.append((1, dict(n=n, e=rng.choice([3, 17, 65537, 0x100000001]))))
        specs.append((17, dict(p=n, q=rng.getrandbits(160) | 1, g=rng.choice([1, 2, rng.getrandbits(max(bits - 9, 1)) + 1]), y=rng.getrandbits(max(bits - rng.randrange(1, 20), 1)) + 1)))
        specs.append((16, dict(p=n, g=rng.choice([2, 5]), y=rng.getrandbits(max(bits - 8, 1)) + 1)))
    for ci, bl in [(2, 32), (3, 48), (4, 66), (8, 32)]:
        for _ in range(ctx.n(3, 20)):
            zx, zy = rng.choice([0, 1, 2, 9, 20]), rng.choice([0, 1, 7, 30])
            x = rng.getrandbits(8 * bl - zx) if rng.random() < .9 else 0
            y = rng.getrandbits(8 * bl - zy) if rng.random() < .9 else rng.choice([0, 1])
            specs.append((19, dict(curve=ci, bl=bl, x=x, px=y)))
            specs.append((18, dict(curve=ci, bl=bl, x=x, px=y, kh=rng.choice([8, 9, 10]), ke=rng.choice([7, 8, 9]))))
    for _ in range(ctx.n(6, 40)):
        nz = rng.choice([0, 1, 2, 5])
        raw = bytes(nz) + bytes(rng.getrandbits(8) for _ in range(32 - nz))
        specs.append((22, dict(curve=1, native=raw)))
        specs.append((18, dict(curve=0, native=raw, kh=8, ke=7)))
    for alg, f in specs:
        for sub in ((False, True) if alg in (18, 19, 22) or not ctx.quick else (rng.random() < .3,)):
            created = rng.choice(TIMES)
            o = outcome(mk_pub, pgpy, alg, sub, created, **f)
            case = {'op': 'fields', 'alg': alg, 'sub': sub, 'created': created, 'fields': {k: (v.hex() if isinstance(v, bytes) else hn(v) if isinstance(v, int) else v) for k, v in f.items()}}
            if o[0] != 'ok':
                ctx.fail('leading-zero', 'cannot build the packet', dict(case, impl=repr(o))); continue
            pkt = o[1]
            m = check_packet(ctx, d, 'leading-zero', pkt, case, kid=alg in (18, 19, 22))
            # the model parser and PGPy's parser read the emitted packet to the same fields
            raw = bytes(pkt.__bytearray__())
            (tag, body), = split_packets(raw)
            q = outcome(reparse_packet, pgpy, pkt)
            if q[0] != 'ok':
                ctx.fail('leading-zero', 'emitted key packet is not read back', dict(case, impl=repr(q))); continue
            want = '%s %s %s | -' % (hn(wallclock(q[1].created)), hn(int(q[1].pkalg)), mat_tokens(q[1].pkalg, q[1].keymaterial))
            ctx.expect_eq('leading-zero', 'PGPy parse differs from model parse', dict(case, pkt=raw.hex()), want, d.call('parse', hx(body)))
            if str(q[1].fingerprint).lower() != m['fp']:
                ctx.fail('leading-zero', 'fingerprint changes over export + import', dict(case, pkt=raw.hex()))


def suite_model_encoded(ctx, d, pgpy, names):
    """keys ENCODED BY THE MODEL (numbers of existing keys, another creation time / role) and read by PGPy"""
    from .keys import get
    from pgpy.packet import Packet
    for name in names:
        key = get(name)
        pubbytes = bytes(key.pubkey)
        others = split_packets(pubbytes)[1:]
        for pkt0 in packets_of_key(key):
            for w in [0, 2 ** 31 + 1, 2 ** 32 - 1] + [ctx.rng.randrange(2 ** 32) for _ in range(ctx.n(1, 4))]:
                toks = key_tokens(pkt0, created=w, public=True)
                m = model_fp(d, toks)
                tag, body = d.call('body ' + toks).split(' ')
                raw = unhx(d.call('pkt', tag, body))
                case = {'op': 'model-encoded', 'key': name, 'w': w, 'pkt': raw.hex()}
                ctx.case('model-encoded', (toks,), sample={'pkt': raw.hex()[:120], 'model_fp': m['fp']})
                o = outcome(lambda: Packet(bytearray(raw)))
                if o[0] != 'ok':
                    ctx.fail('model-encoded', 'PGPy cannot read a key packet written by the independent encoder', dict(case, impl=repr(o))); continue
                p = o[1]
                ctx.expect_eq('model-encoded', 'PGPy fingerprint of a model-encoded key differs from the model fingerprint', case, str(p.fingerprint).lower(), m['fp'])
                ctx.expect_eq('model-encoded', 'PGPy re-emits a model-encoded key differently', case, bytes(p.__bytearray__()).hex(), raw.hex())
                ctx.expect_eq('model-encoded', 'fields read by PGPy differ from the fields encoded', case, key_tokens(p), toks)
                if rfc_fp(unhx(body)) != m['fp']:
                    ctx.fail('model-encoded', 'model fingerprint is not the RFC hash of the model body', case)
        # whole transferable key whose primary packet is model-encoded, through PGPKey.from_blob
        toks = key_tokens(key._key, created=12345, public=True)
        tag, body = d.call('body ' + toks).split(' ')
        blob = unhx(d.call('pkt', tag, body)) + b''.join(unhx(d.call('pkt', hn(t), hx(b))) for t, b in others)
        o = outcome(lambda: pgpy.PGPKey.from_blob(blob)[0])
        case = {'op': 'model-encoded-key', 'key': name, 'blob': blob.hex()}
        ctx.case('model-encoded', ('blob', toks))
        if o[0] != 'ok':
            ctx.fail('model-encoded', 'PGPKey.from_blob cannot read a model-encoded key', dict(case, impl=repr(o)))
        else:
            ctx.expect_eq('model-encoded', 'PGPKey fingerprint of model-encoded key', case, str(o[1].fingerprint).lower(), model_fp(d, toks)['fp'])
            ctx.expect_eq('model-encoded', 'subkey ids of model-encoded key', case, [str(s.fingerprint) for s in o[1].subkeys.values()],
                          [str(s.fingerprint) for s in key.subkeys.values()])


def fps(key):
    return [str(key.fingerprint)] + [str(s.fingerprint) for s in key.subkeys.values()]


def model_ops(d, ops, toks):
    """the model after a history: (tag, body hex, fingerprint) or ('REFUSED',) when a step (pubkey() of opaque private material) refuses"""
    r = d.call('ops ' + ' '.join(list(ops) + ['--', toks])).split(' ')
    return (unhn(r[0]), r[1], r[2]) if len(r) == 3 else tuple(r)


def suite_history(ctx, d, pgpy, names, random_walks):
    """protect / unlock / pubkey / copy / export+import: the fingerprint never moves; the secret packet body the
    implementation emits at each point equals the model's after the same operations"""
    from .keys import get
    from pgpy.constants import SymmetricKeyAlgorithm as S, HashAlgorithm as H

    def observe(step, key, label, base, toks0, ops):
        got = fps(key)
        case = {'op': 'history', 'key': label, 'steps': step}
        ctx.case('history', (label, tuple(step)), sample={'key': label, 'steps': step})
        if got != base:
            ctx.fail('history', 'fingerprint changed along a history', dict(case, before=base, after=got))
        for i, pkt in enumerate(packets_of_key(key)):
            (tag, body), = split_packets(bytes(pkt.__bytearray__()))
            ctx.expect_eq('history', 'emitted key packet after the history differs from model', dict(case, idx=i, pkt=bytes(pkt.__bytearray__()).hex()),
                          (tag, body.hex(), base[i].lower()), model_ops(d, ops[i], toks0[i]))

    for name in names:
        for walk in range(1 + (random_walks if not name.startswith(('rsa', 'dsa')) else min(random_walks, 1))):
            key = get(name)
            base = fps(key)
            toks0 = [key_tokens(p) for p in packets_of_key(key)]
            ops = [[] for _ in toks0]
            steps = []

            def did(step, op=None, key=None):
                steps.append(step)
                if op is not None:
                    for i, pkt in enumerate(packets_of_key(key)):
                        ops[i].append(op(pkt))

            def op_protect(pkt):
                s2k = bytes(pkt.keymaterial.s2k.__bytearray__())
                return 'P:%s:%s' % (hx(s2k[1:]), hx(bytes(pkt.keymaterial.encbytes)))

            def op_unlock(pkt):
                return 'U:' + ','.join(hn(int(getattr(pkt.keymaterial, f))) for f in pkt.keymaterial.__privfields__)

            if walk == 0:
                plan = ['copy', 'pubkey', 'protect', 'pubkey', 'reimport-bin', 'unlock', 'reimport-asc', 'copy']
            else:
                plan = [ctx.rng.choice(['copy', 'pubkey', 'protect', 'unlock', 'reimport-bin', 'reimport-asc']) for _ in range(6)]
            with warnings.catch_warnings():
                warnings.simplefilter('ignore')
                for st in plan:
                    if st == 'copy':
                        key = copy.copy(key); did('copy', lambda p: 'C', key)
                        observe(list(steps), key, name, base, toks0, ops)
                    elif st == 'pubkey':
                        pub = key.pubkey
                        ctx.case('history', (name, tuple(steps), 'pubkey'))
                        if fps(pub) != base:
                            ctx.fail('history', 'public twin has another fingerprint', {'op': 'history', 'key': name, 'steps': steps + ['pubkey'], 'before': base, 'after': fps(pub)})
                        for i, pkt in enumerate(packets_of_key(pub)):
                            (tag, body), = split_packets(bytes(pkt.__bytearray__()))
                            ctx.expect_eq('history', 'public twin packet differs from model', {'op': 'history', 'key': name, 'steps': steps + ['pubkey'], 'idx': i},
                                          (tag, body.hex(), base[i].lower()), model_ops(d, ops[i] + ['K'], toks0[i]))
                    elif st == 'protect':
                        if key.is_protected and not key.is_unlocked:
                            continue
                        key.protect('pw %d' % len(steps), ctx.rng.choice([S.AES256, S.AES128, S.CAST5]), ctx.rng.choice([H.SHA256, H.SHA1, H.SHA512]))
                        did('protect', op_protect, key)
                        observe(list(steps), key, name, base, toks0, ops)
                    elif st == 'unlock':
                        if not key.is_protected:
                            continue
                        pw = 'pw %d' % max(i for i, s in enumerate(steps) if s == 'protect')
                        with key.unlock(pw):
                            did('unlock', op_unlock, key)
                            observe(list(steps), key, name, base, toks0, ops)
                            inner = copy.copy(key)
                            if fps(inner) != base or fps(key.pubkey) != base:
                                ctx.fail('history', 'copy / twin taken while unlocked has another fingerprint', {'op': 'history', 'key': name, 'steps': steps + ['copy-inside']})
                        did('lock', lambda p: 'L', key)
                        observe(list(steps), key, name, base, toks0, ops)
                    elif st == 'reimport-bin':
                        key = pgpy.PGPKey.from_blob(bytes(key))[0]; did('reimport-bin', lambda p: 'R', key)
                        observe(list(steps), key, name, base, toks0, ops)
                    elif st == 'reimport-asc':
                        key = pgpy.PGPKey.from_blob(str(key))[0]; did('reimport-asc', lambda p: 'R', key)
                        observe(list(steps), key, name, base, toks0, ops)


def suite_emitted_ids(ctx, d, pgpy, names):
    """Issuer / IssuerFingerprint subpackets and PKESK key ids PGPy writes = key id of the key that made them"""
    from .keys import get
    from pgpy.constants import SignatureType, KeyFlags
    with warnings.catch_warnings():
        warnings.simplefilter('ignore')
        for name in names:
            key = get(name)
            idmap = {}
            for pkt in packets_of_key(key):
                m = model_fp(d, key_tokens(pkt, public=True), kid=True)
                isub, ifpr, pk = d.call('ids ' + key_tokens(pkt, public=True)).split(' ')
                idmap[m['keyid']] = (m, isub, ifpr, pk, pkt)
            sigs = []
            # signatures already on the key (self-certifications, binding signatures made by PGPy at generation time)
            for t, b in split_packets(bytes(key)):
                if t == 2:
                    sigs.append(('stored', b))
            o = outcome(lambda: key.sign('fingerprint check %s' % name))
            if o[0] == 'ok':
                sigs.append(('sign', split_packets(bytes(o[1].__bytearray__()))[0][1]))
            o = outcome(lambda: key.certify(key.userids[0], SignatureType.Casual_Cert))
            if o[0] == 'ok':
                sigs.append(('certify', split_packets(bytes(o[1].__bytearray__()))[0][1]))
            # signatures issued by a SUBKEY: made directly by a signing subkey, and the primary-key-binding signatures that
            # signing subkeys embed in their binding signature
            for skid, sk in key.subkeys.items():
                if sk.key_algorithm.can_sign and int(sk.key_algorithm) != 18:
                    o = outcome(lambda: sk.sign('subkey-issued %s' % name))
                    if o[0] == 'ok':
                        sigs.append(('subkey-sign', split_packets(bytes(o[1].__bytearray__()))[0][1]))
                for bs in sk.__sig__:
                    for emb in bs._signature.subpackets['EmbeddedSignature']:
                        eb = bytes(emb.__bytearray__())[len(emb.header):]
                        sigs.append(('embedded-xsig', eb))
            for what, sb in sigs:
                case = {'op': 'sig-ids', 'key': name, 'what': what, 'sig': sb.hex()}
                r = d.call('sigsub', hx(sb))
                if r == 'ERR':
                    ctx.fail('emitted-ids', 'model cannot read the signature subpackets', case); continue
                hs, us = r.split(' ')
                subs = [x.split(':') for area in (hs, us) if area != '-' for x in area.split(',')]
                issuers = [b for t, b in subs if t == '10']
                fprs = [b for t, b in subs if t == '21']
                ctx.case('emitted-ids', (name, what, sb.hex()[:40]), sample={'key': name, 'what': what, 'issuer': issuers, 'issuer_fpr': fprs})
                if not issuers or not fprs:
                    ctx.fail('emitted-ids', 'signature without issuer / issuer fingerprint subpacket', case); continue
                for iss in issuers:
                    if iss not in idmap:
                        ctx.fail('emitted-ids', 'Issuer subpacket is not the key id of the key or one of its subkeys', dict(case, issuer=iss, ids=sorted(idmap))); continue
                    m, isub, ifpr, pk, pkt = idmap[iss]
                    if isub not in sb.hex():
                        ctx.fail('emitted-ids', 'Issuer subpacket octets differ from model', dict(case, model=isub))
                    for f in fprs:
                        if f != '04' + m['fp']:
                            ctx.fail('emitted-ids', 'IssuerFingerprint subpacket is not 04 || fingerprint of the issuer', dict(case, fpr=f, model=m['fp']))
                    if ifpr not in sb.hex():
                        ctx.fail('emitted-ids', 'IssuerFingerprint subpacket octets differ from model', dict(case, model=ifpr))
            # the signing (sub)key named by the issuer really is the one that verifies
            # recipients
            pub = key.pubkey
            msg = pgpy.PGPMessage.new('to %s' % name)
            o = outcome(lambda: pub.encrypt(msg))
            if o[0] == 'ok':
                enc = o[1]
                for t, b in split_packets(bytes(enc)):
                    if t != 1:
                        continue
                    kid = d.call('pkesk', hx(b))
                    case = {'op': 'pkesk', 'key': name, 'pkesk': b.hex()}
                    ctx.case('emitted-ids', (name, 'pkesk', b.hex()[:40]), sample={'key': name, 'pkesk_keyid': kid})
                    if kid not in idmap:
                        ctx.fail('emitted-ids', 'PKESK key id is not a key id of the recipient key', dict(case, keyid=kid, ids=sorted(idmap))); continue
                    m, isub, ifpr, pk, pkt = idmap[kid]
                    if not b.hex().startswith(pk):
                        ctx.fail('emitted-ids', 'PKESK prefix (version, key id, algorithm) differs from model', dict(case, model=pk))
                    flags = key._get_key_flags() if pkt is key._key else [s for s in key.subkeys.values() if s._key is pkt][0]._get_key_flags()
                    if not ({KeyFlags.EncryptCommunications, KeyFlags.EncryptStorage} & set(flags)):
                        ctx.fail('emitted-ids', 'PKESK names a key without encryption usage', case)
                dec = outcome(lambda: key.decrypt(enc).message)
                if dec != ('ok', 'to %s' % name):
                    ctx.fail('emitted-ids', 'message encrypted to the public twin is not decrypted by the key', {'op': 'pkesk', 'key': name, 'impl': repr(dec)})


# KDF parameters that are NOT what EllipticCurveOID.kdf_halg / kek_alg would pick for the curve (hash id, cipher id)
NONDEFAULT_KDF = {256: (10, 9), 384: (9, 9), 521: (10, 7)}


def nondefault_kdf_blob(key):
    """bytes(private key) with the KDF block (03 01 hash cipher) of every ECDH key packet rewritten to non-default parameters.
    The block lies at the end of the public material; secret checksums do not cover it; loading does not verify bindings.
    Returns (blob, [(index of the key packet, kh, ke)])"""
    out, changed, idx = b'', [], -1
    pkts = packets_of_key(key)
    for tag, body in split_packets(bytes(key)):
        if tag in (5, 7, 6, 14):
            idx += 1
            pkt = pkts[idx]
            if int(pkt.pkalg) == 18:
                end = 6 + pkt.keymaterial.publen()
                assert body[end - 4:end - 2] == b'\x03\x01', 'KDF block not where publen says'
                kh, ke = NONDEFAULT_KDF[pkt.keymaterial.oid.key_size]
                assert (kh, ke) != (int(pkt.keymaterial.kdf.halg), int(pkt.keymaterial.kdf.encalg))
                body = body[:end - 2] + bytes([kh, ke]) + body[end:]
                changed.append((idx, kh, ke))
        n = len(body)
        out += bytes([0xc0 | tag]) + (bytes([n]) if n < 192 else bytes([192 + ((n - 192) >> 8), (n - 192) & 0xff]) if n < 8384 else b'\xff' + n.to_bytes(4, 'big')) + body
    return out, changed


def suite_kdf(ctx, d, pgpy, names):
    """ECDH secret (sub)keys whose KDF parameters are NOT the per-curve defaults: written by the model encoder (and, equal octets, by
    editing the KDF block of the exported packet), loaded by PGPy; private key, its packets' pubkey() and PGPKey.pubkey must agree on
    fingerprint / key id / exported public body, which must be the RFC values"""
    from .keys import get
    from pgpy.packet import Packet
    with warnings.catch_warnings():
        warnings.simplefilter('ignore')
        for name in names:
            key0 = get(name)
            blob, changed = nondefault_kdf_blob(key0)
            if not changed:
                continue
            o = outcome(lambda: pgpy.PGPKey.from_blob(blob)[0])
            if o[0] != 'ok':
                ctx.fail('kdf', 'private key with non-default ECDH KDF parameters is not loaded', {'op': 'kdf', 'key': name, 'blob': blob.hex(), 'impl': repr(o)}); continue
            key = o[1]
            pk0, pk = packets_of_key(key0), packets_of_key(key)
            pub = key.pubkey
            ppk = packets_of_key(pub)
            for idx, kh, ke in changed:
                case = {'op': 'kdf', 'key': name, 'idx': idx, 'kdf': [kh, ke]}
                # the model encoder writes the same secret packet from the ORIGINAL fields + the new parameters
                toks = key_tokens(pk0[idx]).replace(' %s %s sec ' % (hn(int(pk0[idx].keymaterial.kdf.halg)), hn(int(pk0[idx].keymaterial.kdf.encalg))), ' %s %s sec ' % (hn(kh), hn(ke)))
                mt, mb = d.call('body ' + toks).split(' ')
                (tag, body), = split_packets(bytes(pk[idx].__bytearray__()))
                ctx.expect_eq('kdf', 'model-encoded secret ECDH packet differs from the edited / re-emitted one', case, (tag, body.hex()), (unhn(mt), mb))
                q = outcome(lambda: Packet(bytearray(unhx(d.call('pkt', mt, mb)))))
                if q[0] != 'ok' or (int(q[1].keymaterial.kdf.halg), int(q[1].keymaterial.kdf.encalg)) != (kh, ke):
                    ctx.fail('kdf', 'PGPy does not read the KDF parameters the model encoder wrote', dict(case, impl=repr(q)[:200])); continue
                ctx.expect_eq('kdf', 'fields read by PGPy differ from the fields encoded', case, key_tokens(q[1]), toks)
                # private packet (loaded from the blob and read from the model-encoded packet): fingerprint, publen, bodies, RFC law through pubkey()
                m = check_packet(ctx, d, 'kdf', pk[idx], case)
                check_packet(ctx, d, 'kdf', q[1], dict(case, source='model-encoded'))
                # PGPKey level: twin
                tw = ppk[idx] if idx < len(ppk) else None
                (ttag, tbody), = split_packets(bytes(tw.__bytearray__())) if tw is not None else ((None, b''),)
                got = (str(tw.fingerprint).lower(), str(tw.fingerprint.keyid).lower(), tbody.hex()) if tw is not None else None
                ctx.expect_eq('kdf', 'public twin of an ECDH key with non-default KDF parameters: fingerprint / key id / exported body differ from the private key\'s (RFC values)',
                              dict(case, pkt=bytes(pk[idx].__bytearray__()).hex()), got, (m['fp'], m['keyid'], m['rfcbody']))
                if str(pk[idx].fingerprint) == str(pk0[idx].fingerprint):
                    ctx.fail('kdf', 'harness: KDF parameters did not change the fingerprint', case)
            # stability of the whole key
            ctx.case('kdf', (name, 'whole'))
            if fps(pub) != fps(key) or fps(pgpy.PGPKey.from_blob(bytes(pub))[0]) != fps(key) or fps(pgpy.PGPKey.from_blob(bytes(key))[0]) != fps(key):
                ctx.fail('kdf', 'fingerprints of twin / re-imported twin / re-imported key differ from the private key\'s',
                         {'op': 'kdf', 'key': name, 'blob': blob.hex(), 'priv': fps(key), 'pub': fps(pub)})


def suite_fresh(ctx, d, pgpy, specs):
    from pgpy.constants import PubKeyAlgorithm as A, EllipticCurveOID as C
    for alg, size in specs:
        created = datetime.fromtimestamp(ctx.rng.choice(TIMES + [ctx.rng.randrange(2 ** 32)]), timezone.utc)
        with warnings.catch_warnings():
            warnings.simplefilter('ignore')
            o = outcome(lambda: pgpy.PGPKey.new(getattr(A, alg), getattr(C, size) if isinstance(size, str) else size, created=created))
        if o[0] != 'ok':
            ctx.skipped.append('fresh key %s/%s: %s' % (alg, size, o[1])); continue
        k = o[1]
        check_packet(ctx, d, 'fresh-keys', k._key, {'op': 'fresh', 'alg': alg, 'size': str(size)})
        if str(k.pubkey.fingerprint) != str(k.fingerprint):
            ctx.fail('fresh-keys', 'public twin has another fingerprint', {'op': 'fresh', 'alg': alg, 'pkt': bytes(k._key.__bytearray__()).hex()})
        # the same instant given as an offset-aware datetime (+05:30 / -08:00): copies, twins and copies of copies keep the fingerprint
        for off in (330, -480):
            ts = int(calendar.timegm(created.utctimetuple()))
            if not (86400 <= ts < 2 ** 32 - 86400): continue
            local = datetime.fromtimestamp(ts, timezone(timedelta(minutes=off)))
            with warnings.catch_warnings():
                warnings.simplefilter('ignore')
                o2 = outcome(lambda: pgpy.PGPKey.new(getattr(A, alg), getattr(C, size) if isinstance(size, str) else size, created=local))
            if o2[0] != 'ok': continue
            k2 = o2[1]
            (tg, bd), = split_packets(bytes(k2._key.pubkey().__bytearray__()))
            want = rfc_fp(bd)
            forms = outcome(lambda: {'key': str(k2.fingerprint), 'copy': str(copy.copy(k2).fingerprint), 'twin': str(k2.pubkey.fingerprint),
                                     'copy of twin': str(copy.copy(k2.pubkey).fingerprint), 'copy of copy': str(copy.copy(copy.copy(k2)).fingerprint),
                                     're-import of copy': str(pgpy.PGPKey.from_blob(bytes(copy.copy(k2)))[0].fingerprint)})
            ctx.case('fresh-keys', (alg, str(size), ts, off), sample={'alg': alg, 'created': ts, 'utc_offset_minutes': off})
            if forms[0] != 'ok' or any(v.replace(' ', '').lower() != want for v in forms[1].values()) or bd[1:5] != ts.to_bytes(4, 'big'):
                ctx.fail('fresh-keys', 'fingerprint / creation time of a key created with an offset-aware datetime changes under copy / twin',
                         {'op': 'fresh-tz', 'alg': alg, 'size': str(size), 'created': ts, 'off': off, 'rfc': want, 'impl': repr(forms)[:400]})


def suite_rsa_ids(ctx, d, pgpy, names):
    """RSA key packets carrying the deprecated algorithm ids 2 (encrypt-only) and 3 (sign-only) beside 1, written by an independent
    encoder from corpus key numbers: the fingerprint covers the octets as they are (RFC 4880 12.2), and they are re-exported as they are"""
    from .keys import get
    from pgpy.packet import Packet
    for n in names:
        key = get(n)
        for pkt in packets_of_key(key)[:1]:
            (stag, sbody), = split_packets(bytes(pkt.__bytearray__()))
            (ptag, pbody), = split_packets(bytes(pkt.pubkey().__bytearray__()))
            for alg in (1, 2, 3):
                for created in ((0, 1136073600, 2 ** 32 - 1) if alg != 1 else (1136073600,)):
                    for secret in (False, True):
                        tag, body = (stag, sbody) if secret else (ptag, pbody)
                        b2 = bytearray(body); b2[1:5] = created.to_bytes(4, 'big'); b2[5] = alg; b2 = bytes(b2)
                        pb2 = bytearray(pbody); pb2[1:5] = created.to_bytes(4, 'big'); pb2[5] = alg; pb2 = bytes(pb2)
                        raw = bytes([0xc0 | tag]) + (b'\xff' + len(b2).to_bytes(4, 'big')) + b2
                        want = rfc_fp(pb2)
                        case = {'op': 'rsaid', 'key': n, 'alg': alg, 'created': created, 'secret': secret, 'pkt': raw.hex()}
                        ctx.case('rsa-alg-ids', (n, alg, created, secret), sample={'key': n, 'alg': alg, 'created': created, 'secret': secret})
                        def obs():
                            p = Packet(bytearray(raw))
                            k = pgpy.PGPKey.from_blob(raw)[0]
                            out = bytes(p.__bytearray__())
                            return (str(p.fingerprint).lower(), str(k.fingerprint).lower(), str(k.pubkey.fingerprint).lower() if secret else str(k.fingerprint).lower(),
                                    str(p.fingerprint.keyid).lower(), split_packets(out), split_packets(bytes(k)))
                        with warnings.catch_warnings():
                            warnings.simplefilter('ignore')
                            o = outcome(obs)
                        if o[0] != 'ok':
                            ctx.fail('rsa-alg-ids', 'RSA key packet with algorithm id %d cannot be loaded / fingerprinted' % alg, dict(case, impl=repr(o)[:200])); continue
                        fp1, fp2, fp3, kid, out, kout = o[1]
                        if not (fp1 == fp2 == fp3 == want):
                            ctx.fail('rsa-alg-ids', 'fingerprint is not SHA-1(0x99 || len || public body) of the key packet as received (algorithm id %d)' % alg,
                                     dict(case, rfc=want, impl=[fp1, fp2, fp3]))
                        if kid != want[-16:]:
                            ctx.fail('rsa-alg-ids', 'key id is not the low 64 bits of the RFC fingerprint (algorithm id %d)' % alg, dict(case, rfc=want, impl=kid))
                        if out != [(tag, b2)] or kout[:1] != [(tag, b2)]:
                            ctx.fail('rsa-alg-ids', 'key packet with algorithm id %d is not re-exported with the octets it was read from' % alg, dict(case, out=out[0][1][:12].hex() if out else None))


def suite_attach(ctx, d, pgpy, specs):
    """a stand-alone key generated with an explicit (past) creation time keeps fingerprint and key id when it is attached as a subkey:
    the value seen before add_subkey is the one in primary.subkeys, in the public twin and after export / import"""
    from pgpy.constants import PubKeyAlgorithm as A, EllipticCurveOID as C, KeyFlags as F
    for alg, size in specs:
        for created_s in (86400 * 365 * 30, 1136073600):
            created = datetime.fromtimestamp(created_s, timezone.utc)
            with warnings.catch_warnings():
                warnings.simplefilter('ignore')
                o = outcome(lambda: (pgpy.PGPKey.new(A.EdDSA, C.Ed25519, created=created), pgpy.PGPKey.new(getattr(A, alg), getattr(C, size) if isinstance(size, str) else size, created=created)))
                if o[0] != 'ok':
                    ctx.skipped.append('attach %s/%s: %s' % (alg, size, o[1])); continue
                prim, cand = o[1]
                prim.add_uid(pgpy.PGPUID.new('Attach %s' % alg), usage={F.Sign, F.Certify}, created=created)
                fp0, kid0 = str(cand.fingerprint).lower(), str(cand.fingerprint.keyid).lower()
                m0 = check_packet(ctx, d, 'attach', cand._key, {'op': 'attach', 'alg': alg, 'size': str(size), 'stage': 'stand-alone'})
                usage = {F.Sign} if alg in ('EdDSA', 'ECDSA', 'RSAEncryptOrSign', 'DSA') else {F.EncryptCommunications}
                a = outcome(lambda: prim.add_subkey(cand, usage=usage, created=created))
                case = {'op': 'attach', 'alg': alg, 'size': str(size), 'created': created_s, 'fp_before': fp0}
                ctx.case('attach', (alg, str(size), created_s), sample=case)
                if a[0] != 'ok':
                    ctx.fail('attach', 'add_subkey raised', dict(case, impl=repr(a))); continue
                def views():
                    re = pgpy.PGPKey.from_blob(bytes(prim))[0]
                    rp = pgpy.PGPKey.from_blob(str(prim.pubkey))[0]
                    return {'subkeys entry': [(str(k).lower(), str(v.fingerprint).lower()) for k, v in prim.subkeys.items()],
                            'public twin': [(str(k).lower(), str(v.fingerprint).lower()) for k, v in prim.pubkey.subkeys.items()],
                            're-imported': [(str(k).lower(), str(v.fingerprint).lower()) for k, v in re.subkeys.items()],
                            're-imported twin (armor)': [(str(k).lower(), str(v.fingerprint).lower()) for k, v in rp.subkeys.items()]}
                v = outcome(views)
                if v[0] != 'ok':
                    ctx.fail('attach', 'key with the attached subkey cannot be exported / re-imported', dict(case, impl=repr(v)[:200])); continue
                for where, got in v[1].items():
                    if got != [(kid0, fp0)]:
                        ctx.fail('attach', 'fingerprint / key id of a key changed when it was attached as a subkey (%s)' % where, dict(case, where=where, got=got))
                for sk in prim.subkeys.values():
                    check_packet(ctx, d, 'attach', sk._key, {'op': 'attach', 'alg': alg, 'size': str(size), 'stage': 'attached'})


SHORT_P256 = 91361591590547194785196119551896254182830373032931431425859153704913422683124      # k with x(kG), y(kG) < 2^248 on NIST P-256


def suite_short_coordinates(ctx, d, pgpy):
    """EC keys whose affine coordinates start with zero octets (both, for the scalar above; the point is still written at full width,
    RFC 6637 6): secret packet written by an independent encoder; fingerprint of the key, its twin, copies and re-imports = RFC value,
    exported public body = the encoder's body"""
    from cryptography.hazmat.primitives.asymmetric import ec
    def mpi(i): return i.bit_length().to_bytes(2, 'big') + i.to_bytes((i.bit_length() + 7) // 8, 'big')
    oid = bytes.fromhex('2a8648ce3d030107')
    for alg, extra in ((19, b''), (18, bytes([3, 1, 8, 7]))):
        for scalar in (SHORT_P256, int.from_bytes(hashlib.sha256(b'c18-control').digest(), 'big')):
            pn = ec.derive_private_key(scalar, ec.SECP256R1()).public_key().public_numbers()
            point = b'\x04' + pn.x.to_bytes(32, 'big') + pn.y.to_bytes(32, 'big')
            pub = b'\x04' + (1500000000).to_bytes(4, 'big') + bytes([alg, len(oid)]) + oid + mpi(int.from_bytes(point, 'big')) + extra
            sec = mpi(scalar)
            secbody = pub + b'\x00' + sec + (sum(sec) % 65536).to_bytes(2, 'big')
            pkt = bytes([0xc5, len(secbody)]) + secbody
            want = rfc_fp(pub)
            case = {'op': 'shortxy', 'alg': alg, 'pkt': pkt.hex(), 'x_octets': (pn.x.bit_length() + 7) // 8, 'y_octets': (pn.y.bit_length() + 7) // 8}
            ctx.case('short-coordinates', (alg, scalar), sample={'alg': alg, 'x_octets': case['x_octets'], 'y_octets': case['y_octets']})
            def forms():
                k = pgpy.PGPKey.from_blob(pkt)[0]
                tw = k.pubkey
                out = {'key': k, 'copy': copy.copy(k), 'twin': tw, 'copy of twin': copy.copy(tw), 'copy of copy': copy.copy(copy.copy(k)),
                       're-import of twin': pgpy.PGPKey.from_blob(bytes(tw))[0], 're-import of copy': pgpy.PGPKey.from_blob(bytes(copy.copy(k)))[0]}
                return {n: (str(o.fingerprint).replace(' ', '').lower(), split_packets(bytes(o.pubkey if not o.is_public else o))[0][1].hex()) for n, o in out.items()}
            with warnings.catch_warnings():
                warnings.simplefilter('ignore')
                o = outcome(forms)
            if o[0] != 'ok':
                ctx.fail('short-coordinates', 'EC key with short coordinates cannot be loaded / copied / exported', dict(case, impl=repr(o)[:300])); continue
            badf = {n: v[0] for n, v in o[1].items() if v[0] != want}
            badb = [n for n, v in o[1].items() if v[1] != pub.hex()]
            if badf or badb:
                ctx.fail('short-coordinates', 'fingerprint / exported public body of an EC key with short coordinates changes under copy / twin / re-import',
                         dict(case, rfc=want, wrong_fingerprints=badf, wrong_bodies=badb))


def suite_opaque(ctx, d, pgpy):
    """algorithm ids PGPy has no material class for (0, 21).  PUBLIC keys: full property (RFC fingerprint of the whole body, repair
    e03112d; fingerprint and export octets unchanged by copy.copy / export + import / PGPKey.pubkey, repair 3c1c8c6).
    PRIVATE keys: the whole stored material is hashed (outside the property) and pubkey() REFUSES with NotImplementedError
    (repair 3c1c8c6; before: an empty twin with another fingerprint) - the model predicts both."""
    from pgpy.packet import Packet
    for alg in (21, 0):
        for data in (b'\x00\x09\x01\xff', bytes(range(40)), b''):
            for tag in (6, 14, 5, 7):
                body = b'\x04' + (1000).to_bytes(4, 'big') + bytes([alg]) + data
                raw = unhx(d.call('pkt', hn(tag), hx(body)))
                o = outcome(lambda: Packet(bytearray(raw)))
                if o[0] != 'ok':
                    ctx.case('opaque', (alg, tag, data.hex()), nontrivial=False)
                    ctx.notes.append('opaque algorithm %d tag %d no longer parsed: %r' % (alg, tag, o)); continue
                p = o[1]
                case = {'op': 'opaque', 'pkt': raw.hex()}
                m = check_packet(ctx, d, 'opaque', p, case, nontrivial=tag in (6, 14), kid=True)
                toks = key_tokens(p)
                fp0 = outcome(lambda: str(p.fingerprint).lower())
                out0 = outcome(lambda: bytes(p.__bytearray__()).hex())
                # copy.copy keeps the opaque octets: same fingerprint, same emitted octets (public AND private packets)
                ctx.case('opaque', (alg, tag, data.hex(), 'copy'), sample={'alg': alg, 'tag': tag, 'data': data.hex()})
                c = outcome(lambda: (lambda q: (str(q.fingerprint).lower(), bytes(q.__bytearray__()).hex(), type(q).__name__,
                                                bytes(q.keymaterial.data).hex()))(copy.copy(p)))
                ctx.expect_eq('opaque', 'copy.copy of a key packet with opaque material: fingerprint / emitted octets / class / material differ from the original',
                              dict(case, step='copy'), c, ('ok', (fp0[1], out0[1], type(p).__name__, data.hex())) if fp0[0] == out0[0] == 'ok' else ('harness', fp0, out0))
                if tag in (6, 14):
                    if fp0 != ('ok', rfc_fp(body)) or out0 != ('ok', raw.hex()):
                        ctx.fail('opaque', 'public key of an unknown algorithm: fingerprint is not the RFC value of its body / body not re-emitted', case)
                    # model history copy, export + import, pubkey, copy: never refused, (tag, body, fingerprint) unchanged
                    # (theorem C18_fp_opaque_public_invariant); the implementation along the same steps
                    want = model_ops(d, ['C', 'R', 'K', 'C'], toks)
                    ctx.expect_eq('opaque', 'model: history of an opaque public key moves its body / fingerprint', dict(case, step='model-history'),
                                  want, (tag, body.hex(), rfc_fp(body)))
                    def walk():
                        q = copy.copy(p)
                        q = Packet(bytearray(bytes(q.__bytearray__())))
                        q = copy.copy(q)
                        (t, b), = split_packets(bytes(q.__bytearray__()))
                        return (t, b.hex(), str(q.fingerprint).lower())
                    ctx.case('opaque', (alg, tag, data.hex(), 'history'))
                    ctx.expect_eq('opaque', 'opaque public key after copy / export + import / copy differs from the model', dict(case, step='history'),
                                  outcome(walk), ('ok', want))
                    if tag == 6:
                        # the transferable-key level: load, copy, pubkey (a public key is its own twin), re-import
                        def keylevel():
                            k = pgpy.PGPKey.from_blob(raw)[0]
                            ck = copy.copy(k)
                            rk = pgpy.PGPKey.from_blob(bytes(ck))[0]
                            return (k.pubkey is k, [str(x.fingerprint).lower() for x in (k, ck, rk)], [bytes(x).hex() for x in (k, ck, rk)])
                        ctx.case('opaque', (alg, tag, data.hex(), 'pgpkey'))
                        ctx.expect_eq('opaque', 'PGPKey with an opaque public key: copy / pubkey / re-import change fingerprint or export octets', dict(case, step='pgpkey'),
                                      outcome(keylevel), ('ok', (True, [rfc_fp(body)] * 3, [raw.hex()] * 3)))
                else:
                    # pubkey() of an opaque private key: the model refuses (pubkey_pkt = None), the implementation raises NotImplementedError
                    ctx.case('opaque', (alg, tag, data.hex(), 'twin'), sample={'alg': alg, 'tag': tag, 'model_twin': cached(d, 'twin ' + toks)})
                    tw = outcome(lambda: str(p.pubkey().fingerprint).lower())
                    mt = cached(d, 'twin ' + toks).split(' ')
                    ctx.expect_eq('opaque', 'pubkey() of an opaque private key differs from the model (refusal: NotImplementedError)', dict(case, step='twin'),
                                  tw, ('raise', 'NotImplementedError') if mt == ['REFUSED'] else ('ok', mt[-1]))
                    if tw[0] == 'ok' and tw[1] != m['fp']:
                        ctx.fail('opaque', 'a public twin was produced for an opaque private key and has another fingerprint than the key', dict(case, step='twin', twin=tw[1], key=m['fp']))
                    if m['body'] != 'REFUSED':
                        ctx.fail('opaque', 'model: public body of an opaque private key is not refused', dict(case, step='twin', model=m['body'][:80]))
                    # the refusal leaves the packet as it was, also after a copy
                    ctx.expect_eq('opaque', 'a refused pubkey() changed the key packet', dict(case, step='twin'),
                                  (outcome(lambda: str(p.fingerprint).lower()), outcome(lambda: bytes(p.__bytearray__()).hex())), (fp0, out0))
                    ctx.expect_eq('opaque', 'model: history copy, pubkey of an opaque private key is not refused', dict(case, step='model-history'),
                                  model_ops(d, ['C', 'K'], toks), ('REFUSED',))
                    # copy, export + import, copy: written back as received (repair c516614), same fingerprint; model: C18_opaque_private_steps
                    wantp = model_ops(d, ['C', 'R', 'C'], toks)
                    ctx.expect_eq('opaque', 'model: history of an opaque private key moves its body / fingerprint', dict(case, step='model-history'),
                                  wantp, (tag, body.hex(), m['fp']))
                    def walkp():
                        q = copy.copy(p)
                        q = Packet(bytearray(bytes(q.__bytearray__()) + b'\xde\xad'))
                        q = copy.copy(q)
                        (t, b), = split_packets(bytes(q.__bytearray__()))
                        return (t, b.hex(), str(q.fingerprint).lower(), bytes(q.__bytearray__()).hex())
                    ctx.case('opaque', (alg, tag, data.hex(), 'history'))
                    ctx.expect_eq('opaque', 'opaque private key after copy / export + import / copy is not the packet as received', dict(case, step='history'),
                                  outcome(walkp), ('ok', wantp + (raw.hex(),)))
                    if tag == 5:
                        def keylevel():
                            k = pgpy.PGPKey.from_blob(raw)[0]
                            return (k.is_public, str(k.fingerprint).lower(), outcome(lambda: k.pubkey), outcome(lambda: copy.copy(k).pubkey), str(k.fingerprint).lower())
                        ctx.case('opaque', (alg, tag, data.hex(), 'pgpkey'))
                        ctx.expect_eq('opaque', 'PGPKey.pubkey of an opaque private key is not refused with NotImplementedError', dict(case, step='pgpkey'),
                                      outcome(keylevel), ('ok', (False, m['fp'], ('raise', 'NotImplementedError'), ('raise', 'NotImplementedError'), m['fp'])))
    ctx.notes.append('outside the property (theorem C18_fp_opaque_private_characterised): a PRIVATE key with algorithm id 0 / 21 hashes its whole stored material (no public '
                     'body can be told apart); its pubkey() refuses (NotImplementedError, repair 3c1c8c6: no twin with another fingerprint, C18_fp_twin_preserved has no exception); '
                     'it is written back as received (repair c516614, C18_opaque_private_reemit; the composition with an extra usage octet is C18_opaque_private_reemit_old_refuted)')


def suite_secret_layout(ctx, d, pgpy, names):
    """secret key packets whose secret part the MODEL encoder writes (Model/KeyPackets.v sec_tail) in the layouts touched by repairs
    7c47922 / 05bf06b / 8563c06: S2K usage 255 (the two checksum octets are the end of the ciphertext) for DSA, ElGamal and RSA, usage 254,
    the legacy form (usage octet = cipher id, String2Key writes the IV only; model s2k_on = usage != 0), and GNU stubs (no secret / smartcard with an EMPTY and a non-empty serial).  PGPy must read the fields the model encoded, re-emit the same
    octets, and report the fingerprint of the public packet (the secret part never reaches the hash)."""
    from .keys import get
    from pgpy.packet import Packet
    rng = ctx.rng
    subjects = []
    for n in names:
        for pkt0 in packets_of_key(get(n)):
            subjects.append((n, pkt0, len(pkt0.keymaterial.__privfields__)))
    # ElGamal has no corpus key: public numbers through the field setters, one secret integer (x)
    o = outcome(mk_pub, pgpy, 16, False, 1136073600, p=(1 << 511) | rng.getrandbits(511) | 1, g=5, y=rng.getrandbits(500) + 2)
    if o[0] == 'ok':
        subjects.append(('elgamal-512', o[1], 1))
    else:
        ctx.skipped.append('secret-layout: ElGamal public packet cannot be built: %r' % (o,))
    salt = bytes(range(0x31, 0x39))
    layouts = [
        ('usage255-aes128', 'ff', bytes([7, 3, 8]) + salt + bytes([96]) + bytes(range(16)), 40),
        ('usage255-cast5', 'ff', bytes([3, 3, 2]) + salt + bytes([238]) + bytes(range(8)), 23),
        ('usage254-aes256', 'fe', bytes([9, 3, 8]) + salt + bytes([96]) + bytes(range(16)), 60),
        # legacy form (repair 8563c06): the usage octet is a cipher id (7 = AES128, 3 = CAST5, 9 = AES256), the IV follows at once, then the ciphertext
        ('legacy-aes128', '7', bytes(range(0x50, 0x60)), 37),
        ('legacy-cast5', '3', bytes(range(0x60, 0x68)), 24),
        ('legacy-aes256', '9', bytes(range(0x70, 0x80)), 52),
        ('gnu-nosecret-255', 'ff', bytes([0, 101]) + b'\x00GNU' + bytes([1]), 0),
        ('gnu-card-empty-serial-255', 'ff', bytes([0, 101]) + b'\x00GNU' + bytes([2, 0]), 0),
        ('gnu-card-empty-serial-254', 'fe', bytes([0, 101]) + b'\x00GNU' + bytes([2, 0]), 0),
        ('gnu-card-serial-254', 'fe', bytes([0, 101]) + b'\x00GNU' + bytes([2, 6]) + b'\xd2\x76\x00\x01\x24\x01', 0),
    ]
    for name, pkt0, npriv in subjects:
        base = key_tokens(pkt0, public=True)
        assert base.endswith(' pub')
        pubfp = model_fp(d, base)['fp']
        for lname, usage, s2k, nenc in layouts:
            enc = bytes(rng.getrandbits(8) for _ in range(nenc))
            toks = ' '.join([base[:-4], 'sec', usage, hx(s2k), hx(enc), '-', '%d' % npriv] + ['0'] * npriv)
            mt, mb = d.call('body ' + toks).split(' ')
            raw = unhx(d.call('pkt', mt, mb))
            case = {'op': 'secret-layout', 'key': name, 'layout': lname, 'pkt': raw.hex()}
            ctx.case('secret-layout', (name, lname, toks), sample={'key': name, 'layout': lname, 'tag': mt, 'secret_tail': mb[-2 * (len(s2k) + nenc + 1):]})
            o = outcome(lambda: Packet(bytearray(raw)))
            if o[0] != 'ok' or not hasattr(o[1].keymaterial, 's2k'):
                ctx.fail('secret-layout', 'PGPy cannot read a secret key packet written by the model encoder', dict(case, impl=repr(o)[:200])); continue
            p = o[1]
            ctx.expect_eq('secret-layout', 'secret-part fields read by PGPy differ from the fields the model encoded', case, outcome(key_tokens, p), ('ok', toks))
            ctx.expect_eq('secret-layout', 'PGPy re-emits a model-encoded secret key packet differently', case, outcome(lambda: bytes(p.__bytearray__()).hex()), ('ok', raw.hex()))
            ctx.expect_eq('secret-layout', 'fingerprint of the secret packet is not the fingerprint of its public packet', case, outcome(lambda: str(p.fingerprint).lower()), ('ok', pubfp))
            tw = outcome(lambda: (lambda q: (str(q.fingerprint).lower(), split_packets(bytes(q.__bytearray__()))[0][1].hex()))(p.pubkey()))
            ctx.expect_eq('secret-layout', 'pubkey() of a model-encoded secret packet: fingerprint / body differ from the model twin', case, tw,
                          ('ok', tuple(cached(d, 'twin ' + toks).split(' ')[:0:-1])))


def loose_mpi(v, style):
    """an MPI as another producer may write it: the declared bit count covers leading zero bits ('bits': rounded up to a whole octet,
    same octets) or leading zero octets ('octets1' / 'octets3': that many zero octets in front, counted); 'exact': the shortest form"""
    n = max((v.bit_length() + 7) // 8, 0)
    raw = v.to_bytes(n, 'big')
    if style == 'exact':
        return v.bit_length().to_bytes(2, 'big') + raw
    if style == 'bits':
        return (8 * n).to_bytes(2, 'big') + raw
    z = {'octets1': 1, 'octets3': 3}[style]
    return (8 * (n + z)).to_bytes(2, 'big') + bytes(z) + raw


def suite_loose_mpi(ctx, d, pgpy, names):
    """key packets from ANOTHER PRODUCER whose public integers are not in shortest form (RSA, DSA, ElGamal; public and secret packets, every
    style on every integer / on one integer only).  PGPy reads the integers and writes shortest forms (repair 298df7b: under a header that
    counts what is written): the fingerprint is SHA-1(0x99 || len || public body AS EXPORTED) for the packet, its copy, its pubkey() twin,
    after export + import and at PGPKey level; the model parser reads the loose body to the same fields, the model encoder writes the
    same exported packet."""
    from .keys import get
    from pgpy.packet import Packet
    rng = ctx.rng
    subjects = []      # (label, alg, [public integers], secret tail or None, created)
    for n in names:
        pkt = get(n)._key
        km = pkt.keymaterial
        (tag, body), = split_packets(bytes(pkt.__bytearray__()))
        tail = body[6 + km.publen():]
        ints = [int(getattr(km, f)) for f in km.__pubfields__]
        subjects.append((n, int(pkt.pkalg), ints, tail, wallclock(pkt.created)))
    # ElGamal: numbers of our own; secret part = usage 0, x, two-octet sum of the octets of x's MPI
    p_ = (1 << 767) | rng.getrandbits(767) | 1
    x_ = rng.getrandbits(250) + 2
    xm = loose_mpi(x_, 'exact')
    subjects.append(('elgamal-768', 16, [p_, 5, rng.getrandbits(760) + 2], b'\x00' + xm + (sum(xm) % 65536).to_bytes(2, 'big'), 1136073600))
    # small integers with many leading zero bits
    subjects.append(('rsa-tiny', 1, [0x1f3, 3], None, 1000))
    subjects.append(('dsa-tiny', 17, [0x0101, 0x11, 2, 1], None, 2 ** 32 - 1))
    styles = ['bits', 'octets1', 'octets3']
    for label, alg, ints, tail, created in subjects:
        plans = [[st] * len(ints) for st in styles] + [['exact'] * i + [rng.choice(styles)] + ['exact'] * (len(ints) - i - 1) for i in range(len(ints))]
        if not ctx.quick:
            plans += [[rng.choice(styles + ['exact']) for _ in ints] for _ in range(4)]
        for plan in plans:
            for secret in ((False, True) if tail is not None else (False,)):
                pub = b''.join(loose_mpi(v, st) for v, st in zip(ints, plan))
                lbody = b'\x04' + created.to_bytes(4, 'big') + bytes([alg]) + pub + (tail if secret else b'')
                xbody = b'\x04' + created.to_bytes(4, 'big') + bytes([alg]) + b''.join(loose_mpi(v, 'exact') for v in ints)     # public body, shortest forms
                tag = 5 if secret else 6
                raw = bytes([0xc0 | tag]) + b'\xff' + len(lbody).to_bytes(4, 'big') + lbody
                case = {'op': 'loose-mpi', 'key': label, 'plan': plan, 'secret': secret, 'pkt': raw.hex()}
                ctx.case('loose-mpi', (label, tuple(plan), secret), sample={'key': label, 'plan': plan, 'secret': secret, 'declared_bits': [int.from_bytes(loose_mpi(v, st)[:2], 'big') for v, st in zip(ints, plan)], 'real_bits': [v.bit_length() for v in ints]})
                if any(st != 'exact' and loose_mpi(v, st) == loose_mpi(v, 'exact') for v, st in zip(ints, plan)) and all(loose_mpi(v, st) == loose_mpi(v, 'exact') for v, st in zip(ints, plan)):
                    if not secret:
                        ctx.notes.append('loose-mpi: plan %s on %s is the shortest form already' % (plan, label))
                o = outcome(lambda: Packet(bytearray(raw)))
                if o[0] != 'ok':
                    ctx.fail('loose-mpi', 'key packet of another producer (integers with declared leading zero bits) is not read', dict(case, impl=repr(o))); continue
                p = o[1]
                want_fp = rfc_fp(xbody)
                m = check_packet(ctx, d, 'loose-mpi', p, case, kid=len(raw) < 400)
                # the model parser reads the loose body to the fields PGPy read
                fields = outcome(lambda: '%s %s %s | %s' % (hn(wallclock(p.created)), hn(int(p.pkalg)), mat_tokens(p.pkalg, p.keymaterial), hx(tail if secret else b'')))
                ctx.expect_eq('loose-mpi', 'PGPy parse of a loose-MPI key body differs from model parse', case, fields, ('ok', d.call('parse', hx(lbody))))
                def views():
                    c = copy.copy(p)
                    q = Packet(bytearray(bytes(p.__bytearray__()) + b'\xde\xad'))
                    k = pgpy.PGPKey.from_blob(raw)[0]
                    k2 = pgpy.PGPKey.from_blob(bytes(k))[0]
                    out = {}
                    for nm, obj, octets in (('packet', p, bytes(p.__bytearray__())), ('copy', c, bytes(c.__bytearray__())), ('export+import', q, bytes(q.__bytearray__())),
                                            ('PGPKey', k, bytes(k)), ('PGPKey export+import', k2, bytes(k2)), ('PGPKey copy', copy.copy(k), bytes(copy.copy(k)))):
                        (t, b), = split_packets(octets)
                        out[nm] = (str(obj.fingerprint).lower(), t, b[:len(xbody)].hex(), b[len(xbody):].hex())
                    if secret:
                        for nm, tw in (('pubkey()', p.pubkey()), ('pubkey() of copy', copy.copy(p).pubkey())):
                            (t, b), = split_packets(bytes(tw.__bytearray__()))
                            out[nm] = (str(tw.fingerprint).lower(), t - 1, b.hex(), tail.hex())
                        (t, b), = split_packets(bytes(k.pubkey))
                        out['PGPKey.pubkey'] = (str(k.pubkey.fingerprint).lower(), t - 1, b.hex(), tail.hex())
                    return out
                v = outcome(views)
                if v[0] != 'ok':
                    ctx.fail('loose-mpi', 'loose-MPI key packet cannot be copied / exported / re-imported / loaded as a key', dict(case, impl=repr(v))); continue
                for nm, got in v[1].items():
                    # fingerprint = SHA-1(0x99 || len || public body AS EXPORTED) = the shortest-form body of the integers that were read
                    ctx.expect_eq('loose-mpi', 'fingerprint / exported body of a loose-MPI key (%s): not SHA-1(0x99 || len || public body as exported) over the shortest forms' % nm,
                                  dict(case, view=nm), got, (want_fp, tag, xbody.hex(), (tail if secret else b'').hex()))
                if m['fp'] != want_fp:
                    ctx.fail('loose-mpi', 'model fingerprint of the fields read from a loose-MPI packet is not the RFC hash of the shortest-form body', dict(case, model=m['fp'], want=want_fp))


def suite_gpg(ctx, d, pgpy, names):
    """optional cross-check sample (never a condition for passing): GnuPG's fingerprint of keys ENCODED BY THE MODEL"""
    import shutil, tempfile
    from .keys import get
    if not shutil.which('gpg'):
        ctx.notes.append('gpg cross-check: gpg not found, skipped'); return
    home = tempfile.mkdtemp(prefix='c18gpg')
    agree = disagree = unreadable = 0
    try:
        for name in names:
            key = get(name)
            w = ctx.rng.choice([1, 12345, 2 ** 31 + 1, 2 ** 32 - 1])
            toks = key_tokens(key._key, created=w, public=True)
            tag, body = d.call('body ' + toks).split(' ')
            blob = unhx(d.call('pkt', tag, body)) + b''.join(unhx(d.call('pkt', hn(t), hx(b))) for t, b in split_packets(bytes(key.pubkey))[1:])
            try:
                p = subprocess.run(['gpg', '--homedir', home, '--batch', '--no-tty', '--with-colons', '--show-keys', '--allow-non-selfsigned-uid',
                                    '--with-subkey-fingerprint'], input=blob, capture_output=True, timeout=60)
                fprs = [l.split(':')[9].lower() for l in p.stdout.decode('latin-1').splitlines() if l.startswith('fpr:')]
            except Exception:
                fprs = []
            want = [model_fp(d, toks)['fp']] + [str(s.fingerprint).lower() for s in key.subkeys.values()]
            if not fprs:
                unreadable += 1
            elif fprs[0] == want[0] and set(fprs[1:]) <= set(want[1:]):     # gpg drops subkeys whose binding no longer verifies
                agree += 1
            else:
                disagree += 1
                ctx.notes.append('gpg cross-check DISAGREES on model-encoded %s (created %d): gpg %s, model %s' % (name, w, fprs, want))
    finally:
        shutil.rmtree(home, ignore_errors=True)
    ctx.notes.append('gpg 2.x cross-check of model-encoded keys (sample, not a pass condition): %d agree, %d disagree, %d not listed by gpg' % (agree, disagree, unreadable))


def run(ctx):
    pgpy = load_repo()
    from .keys import available
    d = Driver('c18', oracles={'sha1': lambda h: hashlib.sha1(unhx(h)).hexdigest()})
    try:
        names = available()
        missing = [n for n in ('rsa2048', 'dsa1024', 'ed25519', 'p256', 'p384', 'p521', 'secp256k1') if n not in names]
        if missing:
            ctx.skipped.append('corpus keys unavailable: %s' % missing)
        ctx.skipped.append('Brainpool P-256/384/512 keys cannot be instantiated with the local OpenSSL (their OID encodings are still checked)')
        suite_pins(ctx, pgpy)
        suite_oids(ctx, d, pgpy)
        # every corpus key, primary and subkeys, as loaded
        from .keys import get
        for n in names:
            for pkt in packets_of_key(get(n)):
                check_packet(ctx, d, 'corpus-keys', pkt, {'op': 'corpus', 'key': n})
        q = ctx.quick
        suite_times(ctx, d, pgpy, [n for n in names if n in ('rsa1024', 'dsa1024', 'ed25519', 'p256')] if q else names)
        suite_tzenv(ctx, d, pgpy, [n for n in names if n in ('rsa1024', 'ed25519', 'p384')] if q else names)
        suite_leading_zero(ctx, d, pgpy)
        suite_model_encoded(ctx, d, pgpy, [n for n in names if n in ('rsa2048', 'dsa1024', 'ed25519', 'p256', 'p521', 'secp256k1')] if q else names)
        suite_history(ctx, d, pgpy, [n for n in names if n in ('rsa1024', 'dsa1024', 'ed25519b', 'p384')] if q else names, 0 if q else 3)
        suite_emitted_ids(ctx, d, pgpy, [n for n in names if not n.startswith('dsa2048')] if q else names)
        fresh = [('EdDSA', 'Ed25519'), ('ECDH', 'Curve25519'), ('ECDSA', 'NIST_P256'), ('ECDSA', 'SECP256K1'), ('ECDH', 'NIST_P384')]
        if not q:
            fresh = fresh * 4 + [('ECDSA', 'NIST_P384'), ('ECDSA', 'NIST_P521'), ('ECDH', 'NIST_P256'), ('ECDH', 'NIST_P521'), ('ECDH', 'SECP256K1'),
                                 ('RSAEncryptOrSign', 2048), ('RSAEncryptOrSign', 2048), ('RSAEncryptOrSign', 3072), ('DSA', 1024), ('DSA', 2048),
                                 ('ECDSA', 'Brainpool_P256'), ('ECDH', 'Brainpool_P384')]
        else:
            fresh.append(('RSAEncryptOrSign', 2048))
        suite_kdf(ctx, d, pgpy, [n for n in names if n in ('ed25519', 'ed25519b', 'p256', 'p384', 'p521', 'secp256k1')])
        suite_fresh(ctx, d, pgpy, fresh)
        suite_opaque(ctx, d, pgpy)
        suite_loose_mpi(ctx, d, pgpy, [n for n in names if n in (('rsa1024', 'dsa1024') if q else ('rsa1024', 'rsa2048', 'dsa1024', 'dsa2048'))])
        suite_secret_layout(ctx, d, pgpy, [n for n in names if n in (('dsa1024', 'rsa1024', 'ed25519') if q else ('dsa1024', 'dsa2048', 'rsa1024', 'rsa2048', 'ed25519', 'p256', 'p384'))])
        suite_short_coordinates(ctx, d, pgpy)
        suite_rsa_ids(ctx, d, pgpy, [n for n in names if n in (('rsa1024',) if q else ('rsa1024', 'rsa2048', 'rsa3072'))])
        suite_attach(ctx, d, pgpy, [('EdDSA', 'Ed25519'), ('ECDH', 'Curve25519'), ('ECDSA', 'NIST_P256')] + ([] if q else [('ECDH', 'NIST_P384'), ('RSAEncryptOrSign', 2048)]))
        suite_gpg(ctx, d, pgpy, [n for n in names if n in ('ed25519', 'p256', 'rsa1024')] if q else names)
        ctx.notes.append('sha1 oracle calls answered by hashlib: %d' % d.oracle_calls)
    finally:
        d.close()


def replay(ctx, case):
    """re-run ONE recorded case on the implementation: the RFC 12.2 law on the recorded key packet"""
    load_repo()
    from pgpy.packet import Packet
    if not case.get('pkt'):
        return False
    try:
        p = Packet(bytearray.fromhex(case['pkt']))
        if case.get('w') is not None and case.get('op') in ('time', 'tzenv'):
            p.created = case['w']
        if int(p.pkalg) in (0, 21):
            # opaque material: a copy keeps fingerprint and octets; a private packet has no public half (NotImplementedError)
            c = copy.copy(p)
            if str(c.fingerprint) != str(p.fingerprint) or bytes(c.__bytearray__()) != bytes(p.__bytearray__()):
                return True
            if hasattr(p.keymaterial, 's2k'):
                return outcome(p.pubkey) != ('raise', 'NotImplementedError')
        tag, body = exported_pub_body(p)
        return rfc_fp(body) != str(p.fingerprint).lower()
    except Exception:
        return True
