"""C19 -- keyring index consistency.

(a) correspondence: after EVERY step of a load / unload history the real PGPKeyring (its `_aliases` layers in dict order,
    `_keys`, `_pubkeys`, `_privkeys`, `in`, `with keyring.key(..)`, `fingerprints(..)` for all 9 filter combinations, `len`)
    is compared with the extracted model (Model/Keyring.v) run on the same history.  Object identities become small labels.
    The order Python's sorted(list(set(..))) gives to keys with equal (created, is_public) is not modelled: the model is
    parametrised by the sort, and the driver asks this process ("?tie") whenever two distinct keys tie.
(b) property oracle, run directly on the implementation after every step, with an independent book-keeping of what is loaded:
    fingerprints() exact; every identifier of a loaded key (also with blanks) is `in` the keyring and selects a loaded key
    carrying it; identifiers of unloaded keys only select nothing; len exact; load() reports what it was given;
    selection by signature / encrypted message yields the issuing / decrypting key (sample).
The source text of the modelled methods is pinned: an edit is reported even when no failing input is found."""
import collections, hashlib, inspect, os, shutil, tempfile, warnings
from datetime import datetime, timezone

from .common import Driver, load_repo

PINNED = {
    'PGPKeyring._add_alias': '04f6210db6487cd7',
    'PGPKeyring._sort_alias': '2eef8b3c2d963545',
    'PGPKeyring._add_key': '506c3a2a400a691c',
    'PGPKeyring.unload': 'c74b6d935511a928',
    'PGPKeyring.__contains__': '89ea0dd964cb8357',
    'PGPKeyring._get_key': 'b949446962536c94',
    'PGPKeyring.key': '5e9f60d9f09a0b3c',
    'PGPKeyring.fingerprints': '15c4aa3cbfe67197',
    'PGPKeyring.load': 'ff959a738336dec6',
}

FORMS = ('object', 'binary', 'armored', 'file', 'binfile')
MODES = ('single', 'list', 'tuple', 'args')


def hexs(s):
    b = str(s).encode('utf-8')
    return b.hex() if b else '-'


def src_digest(obj):
    return hashlib.sha256(inspect.getsource(obj).encode()).hexdigest()[:16]


def check_pins(ctx, pgpy):
    for name, want in PINNED.items():
        cls, meth = name.split('.')
        got = src_digest(getattr(getattr(pgpy, cls), meth))
        if got != want:
            ctx.broken.append('pinned source of %s changed (sha256/16 %s, model written against %s): re-inspect Model/Keyring.v' % (name, got, want))


# ------------------------------------------------------------------------------------------------ universe
def build_universe(pgpy):
    from pgpy import PGPKey, PGPUID
    from pgpy.constants import PubKeyAlgorithm as A, EllipticCurveOID as C, KeyFlags as F, HashAlgorithm as H, SymmetricKeyAlgorithm as S

    def day(n):
        return datetime(2021, 1, n, 3, 4, 5, tzinfo=timezone.utc)

    def mk(uids, d, nsub):
        k = PGPKey.new(A.EdDSA, C.Ed25519, created=day(d))
        for (n, c, e) in uids:
            k.add_uid(PGPUID.new(n, comment=c, email=e), usage={F.Sign, F.Certify}, hashes=[H.SHA256], ciphers=[S.AES256], created=day(d))
        for j in range(nsub):
            sk = PGPKey.new(A.ECDH, C.Curve25519, created=day(d + 10 + j))
            k.add_subkey(sk, usage={F.EncryptCommunications, F.EncryptStorage}, created=day(d + 10 + j))
        return k
    U = collections.OrderedDict()
    U['A'] = mk([('x', '', '')], 1, 1)
    U['B'] = mk([('x', 'shared comment', 'x@example.com'), ('y', '', '')], 2, 0)
    U['C'] = mk([('x y', '', 'x@example.com')], 3, 0)
    U['D'] = mk([('xy', 'shared comment', '')], 4, 1)
    U['Ap'] = U['A'].pubkey
    U['E'] = mk([('y', '', ''), ('x', 'x y', 'e@example.com')], 5, 2)
    U['Bp'] = U['B'].pubkey
    U['F'] = mk([('x', '', 'f  g')], 1, 0)          # same creation time as A: a genuine tie in _sort_alias
    return U


def components(k):
    return [k] + list(k.subkeys.values())


_ALIASES = {}


def aliases_of(k):
    """cached per object (the harness never mutates a key after building the universe; objects are kept alive)"""
    r = _ALIASES.get(id(k))
    if r is None or r[0] is not k:
        r = _ALIASES[id(k)] = (k, _aliases_of(k))
    return r[1]


def _aliases_of(k):
    """the identifiers the property text lists, read off the key object (independent of _add_key)"""
    fp = str(k.fingerprint)
    out = [fp, fp[-16:], fp[-8:]]
    for u in k.userids:
        out.append(u.name)
        if u.comment: out.append(u.comment)
        if u.email: out.append(u.email)
    return out


def spaced(a, rng=None):
    """variants of an identifier with blanks inserted (fingerprints are commonly written in groups of four)"""
    v = [' '.join(a[i:i + 4] for i in range(0, len(a), 4)), ' ' + a, a + ' ']
    if len(a) == 40:
        v.append('  '.join(' '.join(a[i:i + 4] for i in range(h, h + 20, 4)) for h in (0, 20)))
    return [x for x in v if x != a]


# ------------------------------------------------------------------------------------------------ simulation
class Sim:
    def __init__(self, ctx, pgpy, d, U, tmp):
        self.ctx, self.pgpy, self.d, self.U, self.tmp = ctx, pgpy, d, U, tmp
        self.mid = {}            # id(obj) -> model pkid
        self.obj = {}            # model pkid -> obj (kept alive for good: ids are never reused)
        self.blobs = {}
        for lb, k in U.items():
            p1, p2 = os.path.join(tmp, lb + '.asc'), os.path.join(tmp, lb + '.gpg')
            open(p1, 'w').write(str(k)); open(p2, 'wb').write(bytes(k))
            self.blobs[lb] = {'binary': bytes(k), 'armored': str(k), 'file': p1, 'binfile': p2}
            for c in components(k):
                self.pk(c)
        self.d.oracles['tie'] = self.tie
        # probes: every identifier of the universe, blank variants, a few that nobody carries
        pr = []
        for k in U.values():
            for c in components(k):
                for a in aliases_of(c):
                    pr.append(a)
        pr = list(collections.OrderedDict.fromkeys(pr))
        extra = []
        for a in pr:
            if len(a) in (40, 16, 8) and all(ch in '0123456789ABCDEF' for ch in a):
                extra += spaced(a)[:2 if len(a) != 40 else 4]
        extra += ['x  y', ' x', 'x ', 'X', 'nobody', '', ' ', 'sharedcomment', 'shared  comment', 'f g', 'fg',
                  str(U['A'].fingerprint).lower(), str(U['A'].fingerprint)[:-1], '0' * 40]
        self.probes = list(collections.OrderedDict.fromkeys(pr + extra))
        self.d.call('probes', *[hexs(a) for a in self.probes])
        self.reset()

    # -- labels
    def pk(self, o):
        i = id(o)
        if i not in self.mid:
            n = len(self.mid) + 1
            self.mid[i] = n
            self.obj[n] = o
            uids = ';'.join('%s,%s,%s' % (hexs(u.name), hexs(u.comment or ''), hexs(u.email or '')) for u in o.userids) or '_'
            self.d.call('defkey', 'k%d' % n, hexs(o.fingerprint), '%x' % int(o.created.timestamp()), int(o.is_public),
                        int(o.is_primary), int(o.parent is None), uids)
        return self.mid[i]

    def keyspec(self, o):
        return '+'.join('%d:k%d' % (self.pk(c), self.pk(c)) for c in components(o))

    def tie(self, *pkids):
        ids = [id(self.obj[int(p)]) for p in pkids]
        order = sorted(list(set().union(i for i in ids)), key=lambda i: (self.obj[self.mid[i]].created, self.obj[self.mid[i]].is_public))
        self.ties += 1
        return ','.join(str(self.mid[i]) for i in order)

    # -- state
    def reset(self):
        self.kr = self.pgpy.PGPKeyring()
        self.loaded = collections.OrderedDict()     # independent book-keeping: id(component) -> component
        self.live = {lb: [] for lb in self.U}       # label -> loaded top-level objects, oldest first
        self.ties = 0
        self.r = -1
        self.last_model = self.d.call('reset')

    def snapshot(self, slot):
        kr = self.kr
        self.d.call('save', slot)
        return (dict(kr._keys), collections.deque(kr._pubkeys), collections.deque(kr._privkeys),
                collections.deque(dict(m) for m in kr._aliases), collections.OrderedDict(self.loaded),
                {lb: list(v) for lb, v in self.live.items()})

    def restore(self, slot, snap):
        kr = self.kr
        kr._keys = dict(snap[0]); kr._pubkeys = collections.deque(snap[1]); kr._privkeys = collections.deque(snap[2])
        kr._aliases = collections.deque(dict(m) for m in snap[3])
        self.loaded = collections.OrderedDict(snap[4]); self.live = {lb: list(v) for lb, v in snap[5].items()}
        self.d.call('restore', slot)

    # -- book-keeping (the Spec's loaded_after, on objects)
    def note_load(self, o):
        if id(o) not in self.loaded:
            for c in components(o):
                self.loaded.setdefault(id(c), c)

    def note_unload(self, o):
        if id(o) in self.loaded:
            del self.loaded[id(o)]
            if o.is_primary:
                for c in o.subkeys.values():
                    self.loaded.pop(id(c), None)

    # -- operations; every op is a JSON-able list
    def apply(self, op, case, r=-1):
        """run one op on the implementation and on the model; returns False when something failed.
        r = -1: the model answers with every observation; r in 0..2: a third of the probes, no filtered fingerprints()"""
        kind = op[0]
        self.r = r
        if kind == 'L':
            _, items, mode = op
            args, before = [], set(self.kr._keys)
            for lb, form in items:
                args.append(self.U[lb] if form == 'object' else self.blobs[lb][form])
            with warnings.catch_warnings():
                warnings.simplefilter('ignore')
                if mode == 'single': ret = self.kr.load(args[0])
                elif mode == 'list': ret = self.kr.load(list(args))
                elif mode == 'tuple': ret = self.kr.load(tuple(args))
                else: ret = self.kr.load(*args)
            # which objects did it process, in order
            objs, used = [], set()
            for lb, form in items:
                if form == 'object':
                    objs.append(self.U[lb])
                else:
                    fp, pub = aliases_of(self.U[lb])[0], self.U[lb].is_public
                    new = [o for i, o in self.kr._keys.items() if i not in before and i not in used and o.parent is None
                           and o.is_public == pub and aliases_of(o)[0] == fp]
                    if not new:
                        self.ctx.fail('history', 'loading a serialised key registered no new key object', case)
                        return False
                    used.add(id(new[0])); objs.append(new[0])
            want = {aliases_of(c)[0] for o in objs for c in components(o)}
            if {str(f) for f in ret} != want or len(ret) != len(set(ret)):
                self.ctx.fail('history', 'load() does not report the fingerprints it was given', dict(case, ret=sorted(map(str, ret))))
                return False
            for (lb, form), o in zip(items, objs):
                if id(o) not in self.loaded and o not in self.live[lb]:
                    self.live[lb].append(o)
                self.note_load(o)
                self.last_model = self.d.call('L', self.keyspec(o), r)
        elif kind == 'U':
            _, lb, n, how = op
            lst = self.live[lb]
            if lst:
                o = lst[n % len(lst)]
                if how != 'obj':
                    a = aliases_of(o)[{'fp': 0, 'keyid': 1, 'shortid': 2, 'name': 3}[how]]
                    if how == 'fp': a = spaced(a)[0]
                    with self.kr.key(a) as k:
                        o = k
            else:
                o = self.U[lb]          # unloading something that is not loaded: a no-op
            self.kr.unload(o)
            for v in self.live.values():
                if any(x is o for x in v): v[:] = [x for x in v if x is not o]
            self.note_unload(o)
            self.last_model = self.d.call('U', self.keyspec(o), r)
        elif kind == 'LS':               # a subkey object on its own
            _, lb, j = op
            subs = list(self.U[lb].subkeys.values())
            o = subs[j % len(subs)]
            self.kr.load(o)
            self.note_load(o)
            self.last_model = self.d.call('L', self.keyspec(o), r)
        elif kind == 'US':
            _, lb, n, j = op
            lst = self.live[lb] or [self.U[lb]]
            subs = list(lst[n % len(lst)].subkeys.values())
            o = subs[j % len(subs)]
            self.kr.unload(o)
            self.note_unload(o)
            self.last_model = self.d.call('U', self.keyspec(o), r)
        else:
            raise ValueError(op)
        return True

    # -- observation of the implementation in the driver's format
    def observe(self, r=-1):
        kr, mid = self.kr, self.mid
        full = r < 0
        self.sel = self.probes if full else self.probes[r::3]
        ids = lambda l: ','.join(str(mid[i]) for i in l) or '.'
        lay = '/'.join((','.join('%s=%d' % (hexs(a), mid[p]) for a, p in m.items()) or '.') for m in kr._aliases) or 'EMPTY'
        pr = []
        for a in self.sel:
            c = a in kr
            try:
                with kr.key(a) as k:
                    g = str(mid[id(k)])
            except KeyError:
                g = '-'
            pr.append('%d:%s' % (c, g))
        fps = []
        for half in ('any', 'public', 'private'):
            for typ in ('any', 'primary', 'sub'):
                if full:
                    fps.append(','.join(sorted({hexs(f) for f in kr.fingerprints(keyhalf=half, keytype=typ)})) or '.')
        self.pr_cache = pr
        return ' '.join([lay, ids(kr._keys), ids(kr._pubkeys), ids(kr._privkeys), ','.join(pr) or '.', ';'.join(fps), str(len(kr))])

    def oracle(self, case):
        """the property text, on the implementation alone"""
        kr, ctx = self.kr, self.ctx
        comps = list(self.loaded.values())
        ok = True
        want_fp = {aliases_of(c)[0] for c in comps}
        if self.r < 0 and {str(f) for f in kr.fingerprints()} != want_fp:
            ctx.fail('oracle', 'fingerprints() is not exactly the loaded keys and subkeys', case); ok = False
        if len(kr) != len(comps) or set(kr._keys) != set(self.loaded):
            ctx.fail('oracle', 'len(keyring) is not the number of loaded key objects', case); ok = False
        carried = {}
        for c in comps:
            for a in aliases_of(c):
                carried.setdefault(a, set()).add(id(c))
        for a, res in zip(self.sel, self.pr_cache):      # the answers observe() just collected from the implementation
            hits = carried.get(a, set()) | carried.get(a.replace(' ', ''), set())
            isin, g = res.split(':')
            isin, got = isin == '1', (None if g == '-' else id(self.obj[int(g)]))
            if hits:
                if not isin or got not in hits:
                    ctx.fail('oracle', 'an identifier of a loaded key does not select a loaded key carrying it', dict(case, alias=a)); ok = False
            else:
                if isin or got is not None:
                    ctx.fail('oracle', 'an identifier that no loaded key carries selects something', dict(case, alias=a)); ok = False
        return ok

    def check(self, suite, case):
        impl = self.observe(self.r)
        model = self.last_model
        ok = self.ctx.expect_eq(suite, 'keyring state / observations differ from the model', case, impl, model)
        ok = self.oracle(case) and ok
        lays = list(self.kr._aliases)
        if not lays:
            self.ctx.fail(suite, 'alias deque became empty', case); ok = False
        return ok


# ------------------------------------------------------------------------------------------------ suites
def run_history(sim, suite, ops, check_every=True):
    sim.reset()
    for n, op in enumerate(ops):
        case = {'ops': ops[:n + 1]}
        if not sim.apply(op, case):
            return False
        if check_every or n == len(ops) - 1:
            if not sim.check(suite, case):
                return False
    return True


def exhaustive(ctx, sim, labels, depth, suite):
    """every history in which each step toggles one key of `labels` (load if absent, unload if present), to `depth`"""
    rng = ctx.rng
    count = [0]

    def rec(hist, d):
        if d == 0:
            return
        snap = sim.snapshot(d)
        for lb in labels:
            if sim.live[lb]:
                op = ['U', lb, 0, rng.choice(('obj', 'obj', 'fp', 'keyid'))]
            else:
                op = ['L', [[lb, rng.choice(FORMS)]], rng.choice(MODES)]
            h2 = hist + [op]
            case = {'ops': h2}
            ok = sim.apply(op, case, -1 if d <= 1 else count[0] % 3) and sim.check(suite, case)
            count[0] += 1
            ctx.case(suite, tuple(map(str, h2)), sample={'ops': h2})
            if ok:
                rec(h2, d - 1)
            sim.restore(d, snap)
    sim.reset()
    rec([], depth)
    return count[0]


def random_walk(ctx, sim, steps, suite, components_too):
    rng, U = ctx.rng, sim.U
    labels = list(U)
    ops = []
    sim.reset()
    for n in range(steps):
        r = rng.random()
        loaded_labels = [lb for lb in labels if sim.live[lb]]
        if r < 0.45 or not loaded_labels:
            k = 1 if rng.random() < 0.7 else rng.choice((2, 3))
            lbs = rng.sample(labels, k)
            mode = rng.choice(MODES) if k == 1 else rng.choice(MODES[1:])
            op = ['L', [[lb, rng.choice(FORMS)] for lb in lbs], mode]
        elif r < 0.85:
            lb = rng.choice(loaded_labels)
            op = ['U', lb, rng.randrange(4), rng.choice(('obj', 'obj', 'fp', 'keyid', 'shortid', 'name'))]
        elif r < 0.9:
            op = ['U', rng.choice(labels), 0, 'obj']
            if sim.live[op[1]]: op[3] = 'obj'
        elif components_too:
            lb = rng.choice([l for l in labels if len(U[l].subkeys)])
            op = ['LS', lb, rng.randrange(2)] if rng.random() < 0.5 else ['US', lb, rng.randrange(3), rng.randrange(2)]
        else:
            continue
        ops.append(op)
        case = {'ops': list(ops)}
        ctx.case(suite, (suite, ctx.seed, len(ops), str(op)), sample={'ops': list(ops)} if n == 12 else None)
        if not (sim.apply(op, case, -1 if n % 4 == 3 else n % 3) and sim.check(suite, case)):
            return False
        if n % 15 == 14:
            select_by_object(ctx, sim, case)
    return True


def make_objects(pgpy, U):
    """signatures and encrypted messages used as selectors"""
    from pgpy import PGPMessage
    out = []
    with warnings.catch_warnings():
        warnings.simplefilter('ignore')
        for lb in ('A', 'B', 'D', 'E'):
            k = U[lb]
            out.append(('sig', lb, k.sign('selected text', created=datetime(2021, 3, 1, tzinfo=timezone.utc))))
            if len(k.subkeys):
                out.append(('enc', lb, k.pubkey.encrypt(PGPMessage.new('secret of ' + lb))))
        m = PGPMessage.new('signed message')
        m |= U['C'].sign(m, created=datetime(2021, 3, 1, tzinfo=timezone.utc))
        out.append(('msg', 'C', m))
        # several issuers: a message to two recipients / with two signers must select whichever of them is loaded
        encs = [lb for lb in ('A', 'B', 'D', 'E') if len(U[lb].subkeys)]
        for a, b in zip(encs, encs[1:]):
            from pgpy.constants import SymmetricKeyAlgorithm as _SK
            sk = _SK.AES256.gen_key()
            e2 = U[a].pubkey.encrypt(PGPMessage.new('secret of two'), cipher=_SK.AES256, sessionkey=sk)
            e2 = U[b].pubkey.encrypt(e2, cipher=_SK.AES256, sessionkey=sk)
            out.append(('enc2', a + '+' + b, e2))
        m2 = PGPMessage.new('doubly signed message')
        m2 |= U['A'].sign(m2, created=datetime(2021, 3, 1, tzinfo=timezone.utc))
        m2 |= U['B'].sign(m2, created=datetime(2021, 3, 2, tzinfo=timezone.utc))
        out.append(('msg2', 'A+B', m2))
    return out


def select_by_object(ctx, sim, case):
    kr = sim.kr
    for kind, lb, o in sim.selectors:
        issuers = [o.signer] if kind == 'sig' else list(o.issuers)
        want = sim.d.call('msg', *[hexs(i) for i in issuers])
        try:
            with warnings.catch_warnings():
                warnings.simplefilter('ignore')
                with kr.key(o) as k:
                    got = str(sim.mid[id(k)])
                    good = str(k.fingerprint)[-16:] in issuers and id(k) in sim.loaded
                    if good and kind == 'sig':
                        good = bool(k.verify('selected text', o))
                    elif good and kind == 'msg':
                        good = bool(k.verify(o))
                    elif good and kind == 'enc' and not k.is_public:
                        good = k.decrypt(o).message == 'secret of ' + lb
                    elif good and kind == 'enc2' and not k.is_public:
                        good = k.decrypt(o).message == 'secret of two'
        except (KeyError, AttributeError):
            got, good = '-', True
        c = dict(case, selector=[kind, lb])
        ctx.case('select-by-object', (kind, lb, got != '-', len(case['ops'])))
        if kind in ('enc2', 'msg2'):
            pass   # which of several loaded issuers is taken depends on set iteration order: only the property oracle applies
        else:
            ctx.expect_eq('select-by-object', 'key selected by message / signature differs from the model', c, got, want)
        if not good:
            ctx.fail('select-by-object', 'key selected by message / signature did not issue / cannot decrypt it', c)
        # the issuer is known to the keyring  <=>  something is selected
        known = any(i in kr for i in issuers)
        if known != (got != '-'):
            ctx.fail('select-by-object', 'selection by object disagrees with membership of its issuers', c)


REGRESS_F5 = [['L', [['A', 'object']], 'single'], ['L', [['B', 'object']], 'single'], ['U', 'A', 0, 'obj'], ['L', [['A', 'object']], 'single']]


def _run(ctx, pgpy, d, tmp):
    U = build_universe(pgpy)
    sim = Sim(ctx, pgpy, d, U, tmp)
    sim.selectors = make_objects(pgpy, U)
    # aliases_of of the model = the identifiers listed in the property text, for every universe key
    for k in U.values():
        for c in components(k):
            got = sim.d.call('aliases', 'k%d' % sim.pk(c))
            ctx.case('aliases', (len(aliases_of(c)), c.is_public, c.is_primary))
            ctx.expect_eq('aliases', 'aliases_of differs', {'ops': []}, ','.join(hexs(a) for a in aliases_of(c)), got)
    # regression: the F5 history, on the implementation, on the model, and on the model of the old code
    ok = run_history(sim, 'regress-F5', REGRESS_F5)
    ctx.case('regress-F5', 'LA LB UA LA')
    if ok:
        with sim.kr.key('x') as k:
            pass
        sim.d.call('reset')
        old = None
        for op in REGRESS_F5:
            o = U[op[1][0][0]] if op[0] == 'L' else U[op[1]]
            old = sim.d.call('Lrepo' if op[0] == 'L' else 'U', sim.keyspec(o))
        ctx.notes.append('model of the pre-1574c30 _add_alias on L A, L B, U A, L A differs from the implementation: %s' % (old != sim.observe()))
        if old == sim.observe():
            ctx.fail('regress-F5', 'implementation behaves like the pre-repair model on the F5 witness', {'ops': REGRESS_F5})
    # exhaustive toggling histories
    labels = list(U)
    if ctx.quick:
        n = exhaustive(ctx, sim, labels[:5], 5, 'exhaustive')
        ctx.exhaustive.append('all %d toggle histories over keys %s to depth 5 (load form / unload selector drawn per step)' % (n, labels[:5]))
        n = exhaustive(ctx, sim, labels, 3, 'exhaustive-wide')
        ctx.exhaustive.append('all %d toggle histories over all %d keys to depth 3' % (n, len(labels)))
    else:
        for lbs, dep, suite in ((labels[:5], 6, 'exhaustive'), (['A', 'B', 'C', 'Ap'], 7, 'exhaustive-deep'),
                                (labels[:6], 5, 'exhaustive-6'), (labels, 4, 'exhaustive-wide')):
            n = exhaustive(ctx, sim, lbs, dep, suite)
            ctx.exhaustive.append('all %d toggle histories over keys %s to depth %d' % (n, lbs, dep))
    # random walks: re-loading loaded keys (serialised forms create second objects), lists, unloading through key()
    for w in range(ctx.n(16, 150)):
        random_walk(ctx, sim, 60, 'walk', components_too=False)
    for w in range(ctx.n(6, 60)):
        random_walk(ctx, sim, 60, 'walk-components', components_too=True)
    ctx.notes.append('sort ties answered from the implementation order: %d in the last walk' % sim.ties)


def run(ctx):
    pgpy = load_repo()
    check_pins(ctx, pgpy)
    d = Driver('c19')
    tmp = tempfile.mkdtemp(prefix='c19-')
    try:
        _run(ctx, pgpy, d, tmp)
    finally:
        d.close()
        shutil.rmtree(tmp, ignore_errors=True)


def replay(ctx, case):
    """re-run one recorded history (ops over universe labels) on the implementation; True if it still fails"""
    pgpy = load_repo()
    ctx.broken = []
    d = Driver('c19')
    tmp = tempfile.mkdtemp(prefix='c19-')
    try:
        U = build_universe(pgpy)
        sim = Sim(ctx, pgpy, d, U, tmp)
        sim.selectors = make_objects(pgpy, U)
        before = len(ctx.violations)
        try:
            run_history(sim, 'replay', [list(o) for o in case['ops']])
            if 'selector' in case:
                select_by_object(ctx, sim, {'ops': case['ops']})
        except Exception:
            return True
        return len(ctx.violations) > before
    finally:
        d.close()
        shutil.rmtree(tmp, ignore_errors=True)
