"""C19 -- keyring index consistency.

(a) correspondence: after EVERY step of a load / unload history the real PGPKeyring (its `_aliases` layers in dict order,
    `_keys`, `_pubkeys`, `_privkeys`, `in`, `with keyring.key(..)`, `fingerprints(..)` for all 9 filter combinations, `len`)
    is compared with the extracted model (Model/Keyring.v) run on the same history.  Object identities become small labels.
    The order Python's sorted(list(set(..))) gives to keys with equal (created, is_public) is not modelled: the model is
    parametrised by the sort, and the driver asks this process ("?tie") whenever two distinct keys tie.
(b) property oracle, run directly on the implementation after every step, with an independent book-keeping of what is loaded:
    fingerprints() exact; every identifier of a loaded key (a fingerprint / key id / short id also written in groups) is `in`
    the keyring and selects a loaded key carrying it; identifiers of unloaded keys only -- among them names that differ from a
    loaded name by blanks only -- select nothing; len exact; load() reports what it was given, and what it reports is held and listed
    afterwards -- also when a subkey had been unloaded on its own and its primary is loaded again (also for a bytearray, which it
    leaves untouched); selection by signature / encrypted message yields the issuing / decrypting key and raises KeyError (and
    nothing else) when no issuer is loaded (sample).
(c) PGPKeyring._unspaced against the model's `unspaced` and against an independent reading of the rule, on generated identifiers.
The source text of the modelled methods is pinned: an edit is reported even when no failing input is found."""
import collections, hashlib, inspect, os, shutil, tempfile, warnings
from datetime import datetime, timezone

from .common import Driver, DriverError, Batch, load_repo, outcome

PINNED = {
    'PGPKeyring._add_alias': '04f6210db6487cd7',
    'PGPKeyring._sort_alias': '2eef8b3c2d963545',
    'PGPKeyring._add_key': '8c4755a07d19e167',
    'PGPKeyring.unload': 'c74b6d935511a928',
    'PGPKeyring.__contains__': '136410717440fb6d',
    'PGPKeyring._get_key': 'eb28d9533a70aa50',
    'PGPKeyring._unspaced': '313e2ce3ba9310b6',
    'PGPKeyring.key': '80218ad076d74465',
    'PGPKeyring.fingerprints': '15c4aa3cbfe67197',
    'PGPKeyring.load': '2b3a31b91b78c181',
}

FORMS = ('object', 'binary', 'armored', 'file', 'binfile', 'bytearray', 'armorbytearray')
MODES = ('single', 'list', 'tuple', 'args')


def hexs(s):
    b = str(s).encode('utf-8')
    return b.hex() if b else '-'


HEXDIGITS = '0123456789abcdefABCDEF'


def unspaced_ref(a):
    """the rule of the property text, read independently of PGPKeyring._unspaced: blanks are ignored only in what is, without
    them, a fingerprint (40 hexadecimal digits), a key id (16) or a short id (8)"""
    s = ''.join(ch for ch in a if ch != ' ')
    if len(s) in (8, 16, 40) and all(ch in HEXDIGITS for ch in s):
        return s
    return a


def src_digest(obj):
    return hashlib.sha256(inspect.getsource(obj).encode()).hexdigest()[:16]


def check_pins(ctx, pgpy):
    for name, want in PINNED.items():
        cls, meth = name.split('.')
        got = outcome(lambda: src_digest(getattr(getattr(pgpy, cls), meth)))
        got = got[1] if got[0] == 'ok' else 'missing (%s)' % got[1]
        if got != want:
            ctx.broken.append('pinned source of %s changed (sha256/16 %s, model written against %s): re-inspect Model/Keyring.v' % (name, got, want))


# ------------------------------------------------------------------------------------------------ universe
def build_universe(pgpy):
    from pgpy import PGPKey, PGPUID
    from pgpy.constants import PubKeyAlgorithm as A, EllipticCurveOID as C, KeyFlags as F, HashAlgorithm as H, SymmetricKeyAlgorithm as S

    def day(n):
        return datetime(2021, 1, n, 3, 4, 5, tzinfo=timezone.utc)

    def mk(uids, d, nsub):
        k = PGPKey.new(A.EdDSA, C.Ed25519, created=day(d))
        for (n, c, e) in uids:
            k.add_uid(PGPUID.new(n, comment=c, email=e), usage={F.Sign, F.Certify}, hashes=[H.SHA256], ciphers=[S.AES256], created=day(d))
        for j in range(nsub):
            sk = PGPKey.new(A.ECDH, C.Curve25519, created=day(d + 10 + j))
            k.add_subkey(sk, usage={F.EncryptCommunications, F.EncryptStorage}, created=day(d + 10 + j))
        return k
    U = collections.OrderedDict()
    U['A'] = mk([('x', '', '')], 1, 1)
    U['B'] = mk([('x', 'shared comment', 'x@example.com'), ('y', '', '')], 2, 0)
    U['C'] = mk([('x y', '', 'x@example.com')], 3, 0)
    U['D'] = mk([('xy', 'shared comment', '')], 4, 1)
    U['Ap'] = U['A'].pubkey
    U['E'] = mk([('y', '', ''), ('x', 'x y', 'e@example.com')], 5, 2)
    U['Bp'] = U['B'].pubkey
    U['F'] = mk([('x', '', 'f  g')], 1, 0)          # same creation time as A: a genuine tie in _sort_alias
    # names differing by blanks only; names / comments that are hexadecimal digits, with and without blanks, of a length that
    # makes them look like a short id / key id (8, 16) and of one that does not (12)
    U['G'] = mk([('John Smith', 'DEAD BEEF', ''), ('DEADBEEF0123', '', '')], 6, 0)
    U['H'] = mk([('JohnSmith', 'DEADBEEF', ''), ('dead beef 0123 4567', 'DEAD BEEF 0123', 'deadbeef01234567')], 7, 0)
    return U


def components(k):
    return [k] + list(k.subkeys.values())


_ALIASES = {}


def aliases_of(k):
    """cached per object (the harness never mutates a key after building the universe; objects are kept alive)"""
    r = _ALIASES.get(id(k))
    if r is None or r[0] is not k:
        r = _ALIASES[id(k)] = (k, _aliases_of(k))
    return r[1]


def _aliases_of(k):
    """the identifiers the property text lists, read off the key object (independent of _add_key)"""
    fp = str(k.fingerprint)
    out = [fp, fp[-16:], fp[-8:]]
    for u in k.userids:
        out.append(u.name)
        if u.comment: out.append(u.comment)
        if u.email: out.append(u.email)
    return out


def spaced(a, rng=None):
    """variants of an identifier with blanks inserted (fingerprints are commonly written in groups of four)"""
    v = [' '.join(a[i:i + 4] for i in range(0, len(a), 4)), ' ' + a, a + ' ']
    if len(a) == 40:
        v.append('  '.join(' '.join(a[i:i + 4] for i in range(h, h + 20, 4)) for h in (0, 20)))
    return [x for x in v if x != a]


# ------------------------------------------------------------------------------------------------ simulation
class Sim:
    def __init__(self, ctx, pgpy, d, U, tmp):
        self.ctx, self.pgpy, self.d, self.U, self.tmp = ctx, pgpy, d, U, tmp
        self.mid = {}            # id(obj) -> model pkid
        self.obj = {}            # model pkid -> obj (kept alive for good: ids are never reused)
        self.blobs = {}
        for lb, k in U.items():
            p1, p2 = os.path.join(tmp, lb + '.asc'), os.path.join(tmp, lb + '.gpg')
            open(p1, 'w').write(str(k)); open(p2, 'wb').write(bytes(k))
            self.blobs[lb] = {'binary': bytes(k), 'armored': str(k), 'file': p1, 'binfile': p2}
            for c in components(k):
                self.pk(c)
        self.d.oracles['tie'] = self.tie
        # probes: every identifier of the universe, blank variants, a few that nobody carries
        pr, extra = [], []
        for lb, k in U.items():
            for c in components(k):
                for n, a in enumerate(aliases_of(c)):
                    pr.append(a)
                    if n < 3 and lb not in ('G', 'H'):      # fingerprint, key id, short id written in groups
                        extra += spaced(a)[:2 if len(a) != 40 else 4]
        pr = list(collections.OrderedDict.fromkeys(pr))
        extra += ['x  y', ' x', 'x ', 'X', 'nobody', '', ' ', 'sharedcomment', 'shared  comment', 'f g', 'fg',
                  str(U['A'].fingerprint).lower(), str(U['A'].fingerprint)[:-1], '0' * 40,
                  'John  Smith', 'Joh nSmith', 'DEA DBEEF', 'D E A D B E E F', 'dead beef', 'DEADBEEF 0123', 'deadbeef0123 4567',
                  'dead beef 01234567', 'DEADBEEF\n', 'DEAD\u00a0BEEF', 'DEADBEE\u0663']
        self.probes = list(collections.OrderedDict.fromkeys(pr + extra))
        self.unsp = {a: unspaced_ref(a) for a in self.probes}
        self.d.call('probes', *[hexs(a) for a in self.probes])
        self.reset()

    # -- labels
    def pk(self, o):
        i = id(o)
        if i not in self.mid:
            n = len(self.mid) + 1
            self.mid[i] = n
            self.obj[n] = o
            uids = ';'.join('%s,%s,%s' % (hexs(u.name), hexs(u.comment or ''), hexs(u.email or '')) for u in o.userids) or '_'
            self.d.call('defkey', 'k%d' % n, hexs(o.fingerprint), '%x' % int(o.created.timestamp()), int(o.is_public),
                        int(o.is_primary), int(o.parent is None), uids)
        return self.mid[i]

    def keyspec(self, o):
        return '+'.join('%d:k%d' % (self.pk(c), self.pk(c)) for c in components(o))

    def tie(self, *pkids):
        ids = [id(self.obj[int(p)]) for p in pkids]
        order = sorted(list(set().union(i for i in ids)), key=lambda i: (self.obj[self.mid[i]].created, self.obj[self.mid[i]].is_public))
        self.ties += 1
        return ','.join(str(self.mid[i]) for i in order)

    # -- state
    def reset(self):
        self.kr = self.pgpy.PGPKeyring()
        self.loaded = collections.OrderedDict()     # independent book-keeping: id(component) -> component
        self.live = {lb: [] for lb in self.U}       # label -> loaded top-level objects, oldest first
        self.ties = 0
        self.r = -1
        self.last_model = self.d.call('reset')

    def snapshot(self, slot):
        kr = self.kr
        self.d.call('save', slot)
        return (dict(kr._keys), collections.deque(kr._pubkeys), collections.deque(kr._privkeys),
                collections.deque(dict(m) for m in kr._aliases), collections.OrderedDict(self.loaded),
                {lb: list(v) for lb, v in self.live.items()})

    def restore(self, slot, snap):
        kr = self.kr
        kr._keys = dict(snap[0]); kr._pubkeys = collections.deque(snap[1]); kr._privkeys = collections.deque(snap[2])
        kr._aliases = collections.deque(dict(m) for m in snap[3])
        self.loaded = collections.OrderedDict(snap[4]); self.live = {lb: list(v) for lb, v in snap[5].items()}
        self.d.call('restore', slot)

    # -- book-keeping (the Spec's loaded_after, on objects)
    def note_load(self, o):
        """the key object and its subkeys, as far as they are not there yet (also the subkeys of a key that is already loaded)"""
        for c in components(o):
            self.loaded.setdefault(id(c), c)

    def note_unload(self, o):
        if id(o) in self.loaded:
            del self.loaded[id(o)]
            if o.is_primary:
                for c in o.subkeys.values():
                    self.loaded.pop(id(c), None)

    # -- operations; every op is a JSON-able list
    def apply(self, op, case, r=-1):
        """run one op on the implementation and on the model; returns False when something failed.
        r = -1: the model answers with every observation; r in 0..2: a third of the probes, no filtered fingerprints()"""
        try:
            return self._apply(op, case, r)
        except DriverError:
            raise
        except Exception as ex:      # attribute reads on key objects etc.: a recorded failing case, never a harness crash
            self.ctx.fail('history', 'a step could not be carried out on the implementation: %s' % type(ex).__name__, case)
            return False

    def _apply(self, op, case, r):
        kind = op[0]
        self.r = r
        if kind == 'L':
            _, items, mode = op
            args, before, buffers = [], set(self.kr._keys), []
            for lb, form in items:
                if form == 'object':
                    args.append(self.U[lb])
                elif form in ('bytearray', 'armorbytearray'):      # a fresh buffer each time: load() must not consume it
                    raw = self.blobs[lb]['binary'] if form == 'bytearray' else self.blobs[lb]['armored'].encode('latin-1')
                    args.append(bytearray(raw)); buffers.append((args[-1], raw))
                else:
                    args.append(self.blobs[lb][form])

            def do_load():
                with warnings.catch_warnings():
                    warnings.simplefilter('ignore')
                    if mode == 'single': return self.kr.load(args[0])
                    if mode == 'list': return self.kr.load(list(args))
                    if mode == 'tuple': return self.kr.load(tuple(args))
                    return self.kr.load(*args)
            res = outcome(do_load)
            if res[0] == 'raise':
                self.ctx.fail('history', 'load() of a supported form raised %s' % res[1], case)
                return False
            ret = res[1]
            if any(bytes(b) != raw for b, raw in buffers):
                self.ctx.fail('history', 'load() modified the bytearray it was given', case)
                return False
            # which objects did it process, in order
            objs, used = [], set()
            for lb, form in items:
                if form == 'object':
                    objs.append(self.U[lb])
                else:
                    fp, pub = aliases_of(self.U[lb])[0], self.U[lb].is_public
                    new = [o for i, o in self.kr._keys.items() if i not in before and i not in used and o.parent is None
                           and o.is_public == pub and aliases_of(o)[0] == fp]
                    if not new:
                        self.ctx.fail('history', 'loading a serialised key registered no new key object', case)
                        return False
                    used.add(id(new[0])); objs.append(new[0])
            want = {aliases_of(c)[0] for o in objs for c in components(o)}
            if {str(f) for f in ret} != want or len(ret) != len(set(ret)):
                self.ctx.fail('history', 'load() does not report the fingerprints it was given', dict(case, ret=sorted(map(str, ret))))
                return False
            if not self.reported_is_held(ret, objs, case):
                return False
            for (lb, form), o in zip(items, objs):
                if id(o) not in self.loaded and o not in self.live[lb]:
                    self.live[lb].append(o)
                self.note_load(o)
                if r < 0:        # the model's load_result for this key is what load() reported for it
                    got = ','.join(sorted({hexs(aliases_of(c)[0]) for c in components(o)} & {hexs(f) for f in ret}))
                    self.ctx.expect_eq('history', 'load() result for one key differs from the model', case, got, self.d.call('loadres', self.keyspec(o)))
                self.last_model = self.d.call('L', self.keyspec(o), r)
        elif kind == 'U':
            _, lb, n, how = op
            lst = self.live[lb]
            if lst:
                o = lst[n % len(lst)]
                if how != 'obj':
                    a = aliases_of(o)[{'fp': 0, 'keyid': 1, 'shortid': 2, 'name': 3, 'keyidsp': 1, 'shortidsp': 2}[how]]
                    if how in ('fp', 'keyidsp', 'shortidsp'): a = spaced(a)[0]      # written in groups of four
                    res = outcome(self.getk, a)
                    if res[0] == 'raise':
                        self.ctx.fail('history', 'key(%s of a loaded key) raised %s' % (how, res[1]), dict(case, alias=a))
                        return False
                    o = res[1]
            else:
                o = self.U[lb]          # unloading something that is not loaded: a no-op
            if not self.do_unload(o, case):
                return False
            for v in self.live.values():
                if any(x is o for x in v): v[:] = [x for x in v if x is not o]
            self.note_unload(o)
            self.last_model = self.d.call('U', self.keyspec(o), r)
        elif kind == 'LS':               # a subkey object on its own
            _, lb, j = op
            subs = list(self.U[lb].subkeys.values())
            o = subs[j % len(subs)]
            res = outcome(self.kr.load, o)
            if res[0] == 'raise':
                self.ctx.fail('history', 'load() of a subkey object raised %s' % res[1], case)
                return False
            if not self.reported_is_held(res[1], [o], case):
                return False
            self.note_load(o)
            self.last_model = self.d.call('L', self.keyspec(o), r)
        elif kind == 'RL':               # the n-th loaded object of this label, loaded AGAIN (the very same PGPKey object)
            _, lb, n = op
            lst = self.live[lb] or [self.U[lb]]
            o = lst[n % len(lst)]
            res = outcome(self.kr.load, o)
            if res[0] == 'raise':
                self.ctx.fail('history', 'load() of a loaded key object raised %s' % res[1], case)
                return False
            if {str(f) for f in res[1]} != {aliases_of(c)[0] for c in components(o)}:
                self.ctx.fail('history', 'load() does not report the fingerprints it was given', dict(case, ret=sorted(map(str, res[1]))))
                return False
            if not self.reported_is_held(res[1], [o], case):
                return False
            if o not in self.live[lb]:
                self.live[lb].append(o)
            self.note_load(o)
            self.last_model = self.d.call('L', self.keyspec(o), r)
        elif kind == 'US':
            _, lb, n, j = op[:4]
            how = op[4] if len(op) > 4 else 'obj'
            lst = self.live[lb] or [self.U[lb]]
            subs = list(lst[n % len(lst)].subkeys.values())
            o = subs[j % len(subs)]
            if how != 'obj' and id(o) in self.loaded:        # the subkey selected through the keyring: fingerprint (also in groups) / key id
                a = aliases_of(o)[{'fp': 0, 'fpsp': 0, 'keyid': 1}[how]]
                if how == 'fpsp': a = spaced(a)[0]
                res = outcome(self.getk, a)
                if res[0] == 'raise' or id(res[1]) not in self.mid:
                    self.ctx.fail('history', 'key(%s of a loaded subkey) raised %s' % (how, res[1]), dict(case, alias=a))
                    return False
                o = res[1]
            if not self.do_unload(o, case):
                return False
            self.note_unload(o)
            self.last_model = self.d.call('U', self.keyspec(o), r)
        else:
            raise ValueError(op)
        return True

    def reported_is_held(self, ret, objs, case):
        """what load() reports must be there afterwards: listed by fingerprints(), and the very objects held by the keyring"""
        fps = outcome(lambda: {str(f) for f in self.kr.fingerprints()})
        if fps[0] != 'ok' or not {str(f) for f in ret} <= fps[1]:
            self.ctx.fail('history', 'load() reports a fingerprint that fingerprints() does not list afterwards',
                          dict(case, ret=sorted(map(str, ret)), listed=sorted(fps[1]) if fps[0] == 'ok' else fps[1]))
            return False
        if not all(id(c) in self.kr._keys for o in objs for c in components(o)):
            self.ctx.fail('history', 'load() reports a key object (a subkey of a loaded key) that the keyring does not hold afterwards', case)
            return False
        return True

    def getk(self, a):
        """with keyring.key(a): the key object it yields (raises what the implementation raises)"""
        with self.kr.key(a) as k:
            return k

    def do_unload(self, o, case):
        res = outcome(self.kr.unload, o)
        if res[0] == 'raise':
            self.ctx.fail('history', 'unload() raised %s' % res[1], case)
            return False
        return True

    # -- observation of the implementation in the driver's format
    def observe(self, r=-1):
        kr, mid = self.kr, self.mid
        full = r < 0
        self.sel = self.probes if full else self.probes[r::3]
        ids = lambda l: ','.join(str(mid[i]) for i in l) or '.'
        lay = '/'.join((','.join('%s=%d' % (hexs(a), mid[p]) for a, p in m.items()) or '.') for m in kr._aliases) or 'EMPTY'
        pr = []
        for a in self.sel:
            c = outcome(kr.__contains__, a)
            c = '%d' % c[1] if c[0] == 'ok' else '!' + c[1]                 # any exception shows up as a disagreement
            g = outcome(self.getk, a)
            g = str(mid.get(id(g[1]), '?')) if g[0] == 'ok' else ('-' if g[1] == 'KeyError' else '!' + g[1])
            pr.append('%s:%s' % (c, g))
        fps = []
        for half in ('any', 'public', 'private'):
            for typ in ('any', 'primary', 'sub'):
                if full:
                    f = outcome(kr.fingerprints, keyhalf=half, keytype=typ)
                    fps.append((','.join(sorted({hexs(x) for x in f[1]})) or '.') if f[0] == 'ok' else '!' + f[1])
        self.pr_cache = pr
        n = outcome(len, kr)
        return ' '.join([lay, ids(kr._keys), ids(kr._pubkeys), ids(kr._privkeys), ','.join(pr) or '.', ';'.join(fps),
                         str(n[1]) if n[0] == 'ok' else '!' + n[1]])

    def oracle(self, case):
        """the property text, on the implementation alone"""
        kr, ctx = self.kr, self.ctx
        comps = list(self.loaded.values())
        ok = True
        want_fp = {aliases_of(c)[0] for c in comps}
        if self.r < 0 and outcome(lambda: {str(f) for f in kr.fingerprints()}) != ('ok', want_fp):
            ctx.fail('oracle', 'fingerprints() is not exactly the loaded keys and subkeys', case); ok = False
        if outcome(len, kr) != ('ok', len(comps)) or set(kr._keys) != set(self.loaded):
            ctx.fail('oracle', 'len(keyring) is not the number of loaded key objects', case); ok = False
        carried = {}
        for c in comps:
            for a in aliases_of(c):
                carried.setdefault(a, set()).add(id(c))
        for a, res in zip(self.sel, self.pr_cache):      # the answers observe() just collected from the implementation
            hits = carried.get(a, set()) | carried.get(self.unsp[a], set())
            isin, g = res.split(':')
            if not (g == '-' or g.isdigit()) or isin not in ('0', '1'):
                ctx.fail('oracle', '`in` / key() raised something else than KeyError', dict(case, alias=a, answer=res)); ok = False
                continue
            isin, got = isin == '1', (None if g == '-' else id(self.obj[int(g)]))
            if hits:
                if not isin or got not in hits:
                    ctx.fail('oracle', 'an identifier of a loaded key does not select a loaded key carrying it', dict(case, alias=a)); ok = False
            else:
                if isin or got is not None:
                    ctx.fail('oracle', 'an identifier that no loaded key carries selects something', dict(case, alias=a)); ok = False
        return ok

    def check(self, suite, case):
        try:
            return self._check(suite, case)
        except DriverError:
            raise
        except Exception as ex:
            self.ctx.fail(suite, 'the keyring could not be observed: %s' % type(ex).__name__, case)
            return False

    def _check(self, suite, case):
        impl = self.observe(self.r)
        model = self.last_model
        ok = self.ctx.expect_eq(suite, 'keyring state / observations differ from the model', case, impl, model)
        ok = self.oracle(case) and ok
        lays = list(self.kr._aliases)
        if not lays:
            self.ctx.fail(suite, 'alias deque became empty', case); ok = False
        return ok


# ------------------------------------------------------------------------------------------------ suites
def run_history(sim, suite, ops, check_every=True):
    sim.reset()
    for n, op in enumerate(ops):
        case = {'ops': ops[:n + 1]}
        if not sim.apply(op, case):
            return False
        if check_every or n == len(ops) - 1:
            if not sim.check(suite, case):
                return False
    return True


def exhaustive(ctx, sim, labels, depth, suite):
    """every history in which each step toggles one key of `labels` (load if absent, unload if present), to `depth`.
    A label 'K/j' stands for subkey j of the first live object of K: unloaded on its own when it is there, and when it is not, K is
    loaded AGAIN (the same object, a re-parsed copy, ...) -- which must bring the subkey back; skipped while K is not loaded"""
    rng = ctx.rng
    count = [0]

    def rec(hist, d):
        if d == 0:
            return
        snap = sim.snapshot(d)
        for lb in labels:
            if '/' in lb:
                top, j = lb.split('/')
                if not sim.live[top]:
                    continue
                sub = list(sim.live[top][0].subkeys.values())[int(j)]
                if id(sub) in sim.loaded:
                    op = ['US', top, 0, int(j), rng.choice(('obj', 'obj', 'fp', 'fpsp', 'keyid'))]
                elif rng.random() < 0.5:
                    op = ['RL', top, 0]
                else:
                    op = ['L', [[top, rng.choice(FORMS)]], rng.choice(MODES)]
            elif sim.live[lb]:
                op = ['U', lb, 0, rng.choice(('obj', 'obj', 'fp', 'keyid', 'keyidsp'))]
            else:
                op = ['L', [[lb, rng.choice(FORMS)]], rng.choice(MODES)]
            h2 = hist + [op]
            case = {'ops': h2}
            ok = sim.apply(op, case, -1 if d <= 1 else count[0] % 3) and sim.check(suite, case)
            count[0] += 1
            ctx.case(suite, tuple(map(str, h2)), sample={'ops': h2})
            if ok:
                rec(h2, d - 1)
            sim.restore(d, snap)
    sim.reset()
    rec([], depth)
    return count[0]


def random_walk(ctx, sim, steps, suite, components_too):
    rng, U = ctx.rng, sim.U
    labels = list(U)
    ops = []
    twin = {'A': 'Ap', 'Ap': 'A', 'B': 'Bp', 'Bp': 'B'}
    pending = None
    cut = (0.40, 0.73, 0.78) if components_too else (0.45, 0.85, 0.9)
    sim.reset()
    for n in range(steps):
        r = rng.random()
        loaded_labels = [lb for lb in labels if sim.live[lb]]
        if pending is not None and r < 0.6:
            # a subkey was just unloaded on its own: load its primary again -- the same object, a re-parsed copy, the other half
            lb, k = pending
            how = rng.choice(('same', 'same', 'copy', 'twin' if lb in twin else 'copy'))
            op = (['RL', lb, k] if how == 'same' else
                  ['L', [[lb if how == 'copy' else twin[lb], rng.choice(FORMS[1:] if how == 'copy' else FORMS)]], rng.choice(MODES)])
            pending = None
        elif r < cut[0] or not loaded_labels:
            k = 1 if rng.random() < 0.7 else rng.choice((2, 3))
            lbs = rng.sample(labels, k)
            mode = rng.choice(MODES) if k == 1 else rng.choice(MODES[1:])
            op = ['L', [[lb, rng.choice(FORMS)] for lb in lbs], mode]
        elif r < cut[1]:
            lb = rng.choice(loaded_labels)
            op = ['U', lb, rng.randrange(4), rng.choice(('obj', 'obj', 'fp', 'keyid', 'shortid', 'name', 'keyidsp', 'shortidsp'))]
        elif r < cut[2]:
            op = ['U', rng.choice(labels), 0, 'obj']
            if sim.live[op[1]]: op[3] = 'obj'
        elif components_too:
            lb = rng.choice([l for l in labels if len(U[l].subkeys)])
            if rng.random() < 0.35:
                op = ['LS', lb, rng.randrange(2)]
            else:
                op = ['US', lb, rng.randrange(3), rng.randrange(2), rng.choice(('obj', 'obj', 'fp', 'fpsp', 'keyid'))]
                pending = (lb, op[2])
        else:
            continue
        ops.append(op)
        case = {'ops': list(ops)}
        ctx.case(suite, (suite, ctx.seed, len(ops), str(op)), sample={'ops': list(ops)} if n == 12 else None)
        if not (sim.apply(op, case, -1 if n % 4 == 3 else n % 3) and sim.check(suite, case)):
            return False
        if n % 15 == 14:
            select_by_object(ctx, sim, case)
    return True


def make_objects(pgpy, U):
    """signatures and encrypted messages used as selectors"""
    from pgpy import PGPMessage
    out = []
    with warnings.catch_warnings():
        warnings.simplefilter('ignore')
        for lb in ('A', 'B', 'D', 'E'):
            k = U[lb]
            out.append(('sig', lb, k.sign('selected text', created=datetime(2021, 3, 1, tzinfo=timezone.utc))))
            if len(k.subkeys):
                out.append(('enc', lb, k.pubkey.encrypt(PGPMessage.new('secret of ' + lb))))
        m = PGPMessage.new('signed message')
        m |= U['C'].sign(m, created=datetime(2021, 3, 1, tzinfo=timezone.utc))
        out.append(('msg', 'C', m))
        # several issuers: a message to two recipients / with two signers must select whichever of them is loaded
        encs = [lb for lb in ('A', 'B', 'D', 'E') if len(U[lb].subkeys)]
        for a, b in zip(encs, encs[1:]):
            from pgpy.constants import SymmetricKeyAlgorithm as _SK
            sk = _SK.AES256.gen_key()
            e2 = U[a].pubkey.encrypt(PGPMessage.new('secret of two'), cipher=_SK.AES256, sessionkey=sk)
            e2 = U[b].pubkey.encrypt(e2, cipher=_SK.AES256, sessionkey=sk)
            out.append(('enc2', a + '+' + b, e2))
        m2 = PGPMessage.new('doubly signed message')
        m2 |= U['A'].sign(m2, created=datetime(2021, 3, 1, tzinfo=timezone.utc))
        m2 |= U['B'].sign(m2, created=datetime(2021, 3, 2, tzinfo=timezone.utc))
        out.append(('msg2', 'A+B', m2))
        out.append(('msg0', '-', PGPMessage.new('nobody signed this')))     # no issuer at all: KeyError whatever is loaded
    return out


def select_by_object(ctx, sim, case, suite='select-by-object'):
    kr = sim.kr
    for kind, lb, o in sim.selectors:
        issuers = [o.signer] if kind == 'sig' else list(o.issuers)
        want = sim.d.call('msg', *[hexs(i) for i in issuers])
        c = dict(case, selector=[kind, lb])

        def quiet(fn, *a):
            with warnings.catch_warnings():
                warnings.simplefilter('ignore')
                return fn(*a)
        res = outcome(quiet, sim.getk, o)
        if res[0] == 'raise':
            got, good = '-', True
            if res[1] != 'KeyError':        # the documented answer when no loaded key satisfies the identifier
                ctx.fail(suite, 'selection by message / signature raised %s instead of KeyError' % res[1], c)
        else:
            k = res[1]
            got = str(sim.mid.get(id(k), '?'))
            good = str(k.fingerprint)[-16:] in issuers and id(k) in sim.loaded
            if good and kind == 'sig':
                good = outcome(quiet, lambda: bool(k.verify('selected text', o))) == ('ok', True)
            elif good and kind == 'msg':
                good = outcome(quiet, lambda: bool(k.verify(o))) == ('ok', True)
            elif good and kind == 'enc' and not k.is_public:
                good = outcome(quiet, lambda: k.decrypt(o).message) == ('ok', 'secret of ' + lb)
            elif good and kind == 'enc2' and not k.is_public:
                good = outcome(quiet, lambda: k.decrypt(o).message) == ('ok', 'secret of two')
        ctx.case(suite, (kind, lb, got != '-', len(case['ops']), str(case['ops'][-1:])))
        if kind in ('enc2', 'msg2') and got != '-':
            pass   # which of several loaded issuers is taken depends on set iteration order: only the property oracle applies
        else:
            ctx.expect_eq(suite, 'key selected by message / signature differs from the model', c, got, want)
        if not good:
            ctx.fail(suite, 'key selected by message / signature did not issue / cannot decrypt it', c)
        # the issuer is known to the keyring  <=>  something is selected
        known = any(outcome(kr.__contains__, i) == ('ok', True) for i in issuers)
        if known != (got != '-'):
            ctx.fail(suite, 'selection by object disagrees with membership of its issuers', c)


def select_none(ctx, sim):
    """with keyring.key(message / signature) when none of the issuers is loaded: the empty keyring, and keyrings that hold
    only keys that issued / receive nothing of the selectors (F, G, H) -- KeyError and nothing else, like the model's None"""
    issuing = {'A', 'B', 'C', 'D', 'E', 'Ap', 'Bp'}
    others = [lb for lb in sim.U if lb not in issuing]
    hists = [[]] + [[['L', [[lb, 'object']], 'single']] for lb in others] + [[['L', [[lb, 'object'] for lb in others], 'list']]]
    for ops in hists:
        if not run_history(sim, 'select-none', ops):
            return
        select_by_object(ctx, sim, {'ops': ops}, suite='select-none')
    for kind, lb, o in sim.selectors:
        if kind != 'msg0':
            continue
        # a message nobody signed selects nothing even when every key is loaded
        ops = [['L', [[l, 'object'] for l in sim.U], 'list']]
        if run_history(sim, 'select-none', ops):
            select_by_object(ctx, sim, {'ops': ops}, suite='select-none')


# ------------------------------------------------------------------------------------------------ _unspaced
def unspaced_inputs(ctx, sim):
    rng = ctx.rng
    out = list(sim.probes)
    odd = ['g', 'G', '/', ':', '@', '`', 'x', '\u00e9', '\u0663', '\uff21', '\n', '\t', '\u00a0', '\u2003', '-', '_']
    for n in range(ctx.n(1500, 20000)):
        L = rng.choice((7, 8, 9, 15, 16, 17, 39, 40, 41, 12, 24, 32, rng.randrange(0, 46)))
        alpha = rng.choice(('0123456789ABCDEF', '0123456789abcdef', HEXDIGITS, '0123456789'))
        body = [rng.choice(alpha) for _ in range(L)]
        if body and rng.random() < 0.35:
            for _ in range(rng.choice((1, 1, 2))):
                body[rng.randrange(len(body))] = rng.choice(odd)
        for _ in range(rng.choice((0, 1, 1, 2, 4, 9))):
            body.insert(rng.randrange(len(body) + 1), rng.choice((' ', ' ', '  ')))
        if rng.random() < 0.1:                # `$` would accept a final newline, fullmatch does not
            body.append(rng.choice(('\n', ' \n', '\r\n', ' ')))
        out.append(''.join(body))
    return list(collections.OrderedDict.fromkeys(out))


def unspaced_outcome(pgpy, a):
    r = outcome(lambda: pgpy.PGPKeyring._unspaced(a))
    return hexs(r[1]) if r[0] == 'ok' and isinstance(r[1], str) else '!' + repr(r[1])[:40]


def check_unspaced(ctx, pgpy, sim):
    b = Batch(ctx, sim.d, 'unspaced', 'PGPKeyring._unspaced differs from the model')
    for a in unspaced_inputs(ctx, sim):
        impl = unspaced_outcome(pgpy, a)
        case = {'ops': [], 'unspaced': a}
        ctx.case('unspaced', a, nontrivial=True, sample=case if ' ' in a else None)
        b.add('unspaced ' + hexs(a), impl, case)
        if impl != hexs(unspaced_ref(a)):
            ctx.fail('unspaced', 'PGPKeyring._unspaced drops blanks from something that is not a fingerprint / key id, or keeps them in one', case)
    b.flush()


# commit 48f9d25: "John Smith" (G) and "JohnSmith" (H) -- with blanks ignored in every identifier each name selected the other's key
REGRESS_NAMES = [['L', [['H', 'object']], 'single'], ['L', [['G', 'object']], 'single'], ['U', 'G', 0, 'obj'], ['U', 'H', 0, 'obj']]
# commit 7e98898: a subkey unloaded on its own comes back when its primary is loaded again
REGRESS_RELOAD = [['L', [['A', 'object']], 'single'], ['US', 'A', 0, 0, 'obj'], ['RL', 'A', 0]]


def reload_histories(ctx, sim):
    """load K; unload sub(K) on its own (by object / through key(fingerprint), key(fingerprint in groups), key(key id)); load K again
    (the same object, a re-parsed copy in each serialised form, the other half) -- and once more"""
    U = sim.U
    twin = {'A': 'Ap', 'Ap': 'A'}
    hows = ('obj', 'fp') if ctx.quick else ('obj', 'fp', 'fpsp', 'keyid')
    firsts = ('object',) if ctx.quick else ('object', 'binary', 'armorbytearray')
    for lb in [l for l in U if len(U[l].subkeys)]:
        for j in range(len(U[lb].subkeys)):
            for how in hows:
                for first in firsts:
                    again = [['RL', lb, 0]] + [['L', [[lb, f]], ctx.rng.choice(MODES)] for f in FORMS[1:]]
                    if first != 'object':
                        again.append(['L', [[lb, 'object']], 'single'])
                    if lb in twin:
                        again.append(['L', [[twin[lb], 'object']], 'single'])
                    for re in again:
                        ops = [['L', [[lb, first]], 'single'], ['US', lb, 0, j, how], re, ['US', lb, 0, j, 'obj'], ['RL', lb, 0]]
                        ctx.case('reload', tuple(map(str, ops)), sample={'ops': ops})
                        if not run_history(sim, 'reload', ops):
                            return False
    return True


REGRESS_F5 = [['L', [['A', 'object']], 'single'], ['L', [['B', 'object']], 'single'], ['U', 'A', 0, 'obj'], ['L', [['A', 'object']], 'single']]


def setup(ctx, pgpy, d, tmp):
    """universe, simulation, selector objects; an implementation that cannot even build them is a recorded failure, not a crash"""
    try:
        U = build_universe(pgpy)
        sim = Sim(ctx, pgpy, d, U, tmp)
        sim.selectors = make_objects(pgpy, U)
        return U, sim
    except DriverError:
        raise
    except Exception as ex:
        ctx.fail('setup', 'building the key universe / selector messages raised %s' % type(ex).__name__, {'ops': []})
        return None, None


def _run(ctx, pgpy, d, tmp):
    U, sim = setup(ctx, pgpy, d, tmp)
    if sim is None:
        return
    # aliases_of of the model = the identifiers listed in the property text, for every universe key
    for k in U.values():
        for c in components(k):
            got = sim.d.call('aliases', 'k%d' % sim.pk(c))
            ctx.case('aliases', (len(aliases_of(c)), c.is_public, c.is_primary))
            ctx.expect_eq('aliases', 'aliases_of differs', {'ops': []}, ','.join(hexs(a) for a in aliases_of(c)), got)
    # regression: the F5 history, on the implementation, on the model, and on the model of the old code
    ok = run_history(sim, 'regress-F5', REGRESS_F5)
    ctx.case('regress-F5', 'LA LB UA LA')
    if ok:
        if outcome(sim.getk, 'x')[0] != 'ok':
            ctx.fail('regress-F5', 'the shared name selects nothing after L A, L B, U A, L A', {'ops': REGRESS_F5})
        sim.d.call('reset')
        old = None
        for op in REGRESS_F5:
            o = U[op[1][0][0]] if op[0] == 'L' else U[op[1]]
            old = sim.d.call('Lrepo' if op[0] == 'L' else 'U', sim.keyspec(o))
        ctx.notes.append('model of the pre-1574c30 _add_alias on L A, L B, U A, L A differs from the implementation: %s' % (old != sim.observe()))
        if old == sim.observe():
            ctx.fail('regress-F5', 'implementation behaves like the pre-repair model on the F5 witness', {'ops': REGRESS_F5})
    # regression: names differing by blanks only, on the implementation, on the model, and on the model of the old rule
    ok = run_history(sim, 'regress-names', REGRESS_NAMES + [['L', [['G', 'bytearray'], ['H', 'armorbytearray']], 'list']])
    ctx.case('regress-names', 'LH LG UG UH L[G(bytearray) H(armored bytearray)]')
    if ok:
        sim.reset()
        seen = []
        for n, op in enumerate(REGRESS_NAMES):
            if not sim.apply(op, {'ops': REGRESS_NAMES[:n + 1]}):
                break
            seen.append(sim.observe())
        sim.d.call('reset')
        differs = 0
        for op, impl in zip(REGRESS_NAMES, seen):
            o = U[op[1][0][0]] if op[0] == 'L' else U[op[1]]
            differs += sim.d.call('Lold' if op[0] == 'L' else 'Uold', sim.keyspec(o)) != impl
        ctx.notes.append('model of the pre-48f9d25 membership / lookup (blanks ignored in every identifier) differs from the '
                         'implementation after %d of the %d steps of L H, L G, U G, U H' % (differs, len(REGRESS_NAMES)))
        if not differs:
            ctx.fail('regress-names', 'implementation behaves like the pre-repair model (blanks ignored in names)', {'ops': REGRESS_NAMES})
    # regression: reload of a primary whose subkey was unloaded on its own, on the implementation, the model, the model of the old _add_key
    ok = run_history(sim, 'regress-reload', REGRESS_RELOAD)
    ctx.case('regress-reload', 'LA US(A,0) RL(A)')
    if ok:
        impl = sim.observe()
        sub = list(U['A'].subkeys.values())[0]
        sim.d.call('reset')
        for cmd, o in (('LoldK', U['A']), ('U', sub), ('LoldK', U['A'])):
            old = sim.d.call(cmd, sim.keyspec(o))
        ctx.notes.append('model of the pre-7e98898 _add_key on L A, U sub(A), L A differs from the implementation: %s' % (old != impl))
        if old == impl:
            ctx.fail('regress-reload', 'implementation behaves like the pre-repair model (subkey not indexed again)', {'ops': REGRESS_RELOAD})
    reload_histories(ctx, sim)
    select_none(ctx, sim)
    check_unspaced(ctx, pgpy, sim)
    # exhaustive toggling histories
    labels = list(U)
    if ctx.quick:
        n = exhaustive(ctx, sim, labels[:5], 5, 'exhaustive')
        ctx.exhaustive.append('all %d toggle histories over keys %s to depth 5 (load form / unload selector drawn per step)' % (n, labels[:5]))
        n = exhaustive(ctx, sim, labels, 3, 'exhaustive-wide')
        ctx.exhaustive.append('all %d toggle histories over all %d keys to depth 3' % (n, len(labels)))
        lbs = ['A', 'Ap', 'D', 'A/0', 'D/0']
        n = exhaustive(ctx, sim, lbs, 4, 'exhaustive-sub')
        ctx.exhaustive.append('all %d toggle histories over %s to depth 4 (K/j: subkey j of K unloaded on its own, else K loaded again)' % (n, lbs))
    else:
        for lbs, dep, suite in ((labels[:5], 6, 'exhaustive'), (['A', 'B', 'C', 'Ap'], 7, 'exhaustive-deep'),
                                (labels[:6], 5, 'exhaustive-6'), (labels, 4, 'exhaustive-wide'),
                                (['A', 'Ap', 'E', 'A/0', 'E/0', 'E/1'], 5, 'exhaustive-sub')):
            n = exhaustive(ctx, sim, lbs, dep, suite)
            ctx.exhaustive.append('all %d toggle histories over keys %s to depth %d' % (n, lbs, dep))
    # random walks: re-loading loaded keys (serialised forms create second objects), lists, unloading through key()
    for w in range(ctx.n(16, 150)):
        random_walk(ctx, sim, 60, 'walk', components_too=False)
    for w in range(ctx.n(6, 60)):
        random_walk(ctx, sim, 60, 'walk-components', components_too=True)
    ctx.notes.append('sort ties answered from the implementation order: %d in the last walk' % sim.ties)


def run(ctx):
    pgpy = load_repo()
    check_pins(ctx, pgpy)
    d = Driver('c19')
    tmp = tempfile.mkdtemp(prefix='c19-')
    try:
        _run(ctx, pgpy, d, tmp)
    finally:
        d.close()
        shutil.rmtree(tmp, ignore_errors=True)


def replay(ctx, case):
    """re-run one recorded history (ops over universe labels) on the implementation; True if it still fails"""
    pgpy = load_repo()
    ctx.broken = []
    d = Driver('c19')
    tmp = tempfile.mkdtemp(prefix='c19-')
    try:
        before = len(ctx.violations)
        U, sim = setup(ctx, pgpy, d, tmp)
        if sim is None:
            return True
        if 'unspaced' in case:
            a = case['unspaced']
            impl = unspaced_outcome(pgpy, a)
            return impl != sim.d.call('unspaced', hexs(a)) or impl != hexs(unspaced_ref(a))
        try:
            run_history(sim, 'replay', [list(o) for o in case['ops']])
            if 'selector' in case:
                select_by_object(ctx, sim, {'ops': case['ops']})
        except Exception:
            return True
        return len(ctx.violations) > before
    finally:
        d.close()
        shutil.rmtree(tmp, ignore_errors=True)
