"""C20 correspondence + direct oracles: PGPMessage composition against the extracted model
(Model/Message.v), the RFC 4880 11.3 grammar / 5.4 / 5.9 transcription (Spec/Rfc4880_msg.v) and the
round-trip laws of the property, on messages built through the public API."""
import bz2, calendar, hashlib, inspect, os, resource, shutil, tempfile, zlib
from datetime import datetime, timezone, timedelta

import signal
from .common import Driver, DriverError, hx, unhx, hn, unhn, outcome, load_repo
from . import keys as keypool

# witnesses of repaired defects (known_findings.json kind=fixed): run first in every tier, any recurrence is a plain violation
REGRESSION = [
    ('C20/text-format-read-back-latin1 (b404cfc)',
     {'content': {'kind': 'str', 'text': u'caf\u00e9', 'cls': 'utf8-str'}, 'format': 't', 'encoding': None, 'filename': '', 'mtime': 0, 'comp': 0,
      'signers': [], 'armor': False}),
    ('C20/literal-time-after-2106-five-octets (58e1aa9)', {'op': 'time', 'mtime': 4294967296}),
    ('C20/decrypted-message-exports-mdc-packet (8a513cb)',
     {'op': 'decrypted', 'content': {'kind': 'bytes', 'hex': '616263', 'cls': 'ascii'}, 'format': None, 'encoding': None, 'filename': '',
      'mtime': 1577934245, 'comp': 0, 'signers': [{'key': 'ed25519', 'hash': 'SHA256', 'dt': 0}], 'armor': False}),
    ('F3 one-pass flags (8479dfb)',
     {'content': {'kind': 'bytes', 'hex': '616263', 'cls': 'ascii'}, 'format': 'b', 'encoding': None, 'filename': '', 'mtime': 1577934245, 'comp': 0,
      'signers': [{'key': 'ed25519', 'hash': 'SHA256', 'dt': 0}, {'key': 'rsa2048', 'hash': 'SHA512', 'dt': 1}, {'key': 'p256', 'hash': 'SHA256', 'dt': 2}],
      'armor': False}),
    ('F11 latin-1 file name (fe6a378)',
     {'content': {'kind': 'bytes', 'hex': '616263', 'cls': 'ascii'}, 'format': 'b', 'encoding': None, 'filename': u'caf\u00e9.txt', 'mtime': 1577934245,
      'comp': 0, 'signers': [], 'armor': True}),
]

PIN_ITER = ("    def __iter__(self):\n        if self.type == 'cleartext':\n            for sig in self._signatures:\n                yield sig\n\n"
            "        elif self.is_encrypted:\n            for sig in self._signatures:\n                yield sig\n            for pkt in self._sessionkeys:\n"
            "                yield pkt\n            yield self.message\n\n        else:\n"
            "            ##TODO: is it worth coming up with a way of disabling one-pass signing?\n            for sig in reversed(self._signatures):\n"
            "                ops = sig.make_onepass()\n                if sig is self._signatures[0]:\n                    ops.nested = True\n"
            "                yield ops\n\n            yield self._message\n            if self._mdc is not None:  # pragma: no cover\n"
            "                yield self._mdc\n\n            for sig in self._signatures:\n                yield sig\n")
PIN_BYTEARRAY = ("    def __bytearray__(self):\n        if self.is_compressed:\n            comp = CompressedData()\n            comp.calg = self._compression\n"
                 "            comp.packets = [pkt for pkt in self]\n            comp.update_hlen()\n            return comp.__bytearray__()\n\n"
                 "        _bytes = bytearray()\n        for pkt in self:\n            _bytes += pkt.__bytearray__()\n        return _bytes\n")
PIN_SIGTYPES = [0, 1, 2, 16, 17, 18, 19, 22, 24, 25, 31, 32, 40, 48, 64, 80]
PIN_PKALGS = [0, 1, 2, 3, 16, 17, 18, 19, 20, 21, 22]

T0 = keypool.T0
FUEL = '4000'


# ---------------------------------------------------------------- primitive oracle (the libraries PGPy calls, called directly)
def o_compress(a, d):
    alg, data = unhx(a)[0], unhx(d)
    if alg == 0: return hx(data)
    if alg == 1: return hx(zlib.compress(data)[2:-4])
    if alg == 2: return hx(zlib.compress(data))
    if alg == 3: return hx(bz2.compress(data))
    raise ValueError(alg)


def o_decompress(a, d):
    alg, data = unhx(a)[0], unhx(d)
    if alg == 0: return hx(data)
    if alg == 1: return hx(zlib.decompress(data, -15))
    if alg == 2: return hx(zlib.decompress(data))
    if alg == 3: return hx(bz2.decompress(data))
    raise ValueError(alg)


class GuardedDriver(Driver):
    """Model driver that can never hang or exhaust the machine: a damaged header may announce gigabytes, which the extracted
    model (unary nat) cannot enumerate.  Address space is capped for the child, every call has a deadline; a driver that
    dies or overruns is restarted and the call answers 'MODEL-GAVE-UP' (a value that never equals an implementation answer)."""
    AS_LIMIT = 12 << 30

    def __init__(self, name, oracles=None):
        self._name, self._oracles = name, oracles
        self.gave_up = 0
        self._spawn()

    def _spawn(self):
        try:
            soft, hard = resource.getrlimit(resource.RLIMIT_AS)
            lim = self.AS_LIMIT if hard == resource.RLIM_INFINITY else min(self.AS_LIMIT, hard)
            resource.setrlimit(resource.RLIMIT_AS, (lim, hard))
        except Exception:
            soft = None
        try:
            Driver.__init__(self, self._name, self._oracles)
        finally:
            if soft is not None:
                resource.setrlimit(resource.RLIMIT_AS, (soft, hard))

    def call(self, *parts):
        deadline = 30 + sum(len(str(p)) for p in parts) // 20000
        def on_alarm(signum, frame):
            raise TimeoutError()
        old = signal.signal(signal.SIGALRM, on_alarm)
        signal.setitimer(signal.ITIMER_REAL, deadline)
        try:
            return Driver.call(self, *parts)
        except (TimeoutError, DriverError, BrokenPipeError):
            signal.setitimer(signal.ITIMER_REAL, 0)
            self.gave_up += 1
            try:
                self.p.kill(); self.p.wait(timeout=5)
            except Exception:
                pass
            if self.gave_up > 20:
                raise DriverError('model driver gave up on more than 20 inputs')
            self._spawn()
            return 'MODEL-GAVE-UP'
        finally:
            signal.setitimer(signal.ITIMER_REAL, 0)
            signal.signal(signal.SIGALRM, old)


def cps(text):
    """code points as '.'-separated hex numbers ('-' when empty)"""
    return '.'.join('%x' % ord(c) for c in text) if text else '-'


def ts(dt):
    return calendar.timegm(dt.timetuple())


# ---------------------------------------------------------------- reading PGPy objects (independent of __iter__ / __bytearray__)
def body_of(pkt):
    """packet body octets (version octet included for versioned packets)"""
    full = bytes(pkt.__bytearray__())
    return full[1 + pkt.header.llen:]


def sig_fields(sig):
    return (int(sig.type), int(sig.hash_algorithm), int(sig.key_algorithm), sig.signer.lower(), ts(sig.created), body_of(sig._signature))


def r_sig(sig):
    t, h, a, k, c, raw = sig_fields(sig)
    return 'S:%s:%s:%s:%s:%s:%s' % (hn(t), hn(h), hn(a), k, hn(c), hx(raw))


def op_sig(sig):
    t, h, a, k, c, raw = sig_fields(sig)
    return 'S,%s,%s,%s,%s,%s,%s' % (hn(t), hn(h), hn(a), k, hn(c), hx(raw))


def r_ops_for(sig, last):
    t, h, a, k, c, raw = sig_fields(sig)
    return 'O:%s:%s:%s:%s:%d' % (hn(t), hn(h), hn(a), k, 1 if last else 0)


def r_lit(fmt, name, mtime, data):
    return 'L:%s:%s:%s:%s' % (hn(fmt), cps(name), hn(mtime), hx(data))


def r_esk(p):
    return ('K1:' if int(p.header.tag) == 1 else 'K3:') + hx(body_of(p))


def state_of(m):
    """render of a PGPMessage's state in the format of the driver's `import` answer"""
    from pgpy.packet.packets import LiteralData, SKEData, IntegrityProtectedSKEData
    msg = m._message
    if msg is None:
        body = 'none'
    elif isinstance(msg, LiteralData):
        body = 'lit:%s:%s:%s:%s' % (hn(ord(msg.format)), cps(msg.filename), hn(ts(msg.mtime)), hx(bytes(msg._contents)))
    elif isinstance(msg, IntegrityProtectedSKEData):
        body = 'enc:1:' + hx(body_of(msg))
    elif isinstance(msg, SKEData):
        body = 'enc:0:' + hx(body_of(msg))
    else:
        body = 'clear:' + hx(bytes(msg))
    mdc = 'nomdc' if m._mdc is None else 'mdc:' + hx(bytes.fromhex(m._mdc.mdc.decode() if isinstance(m._mdc.mdc, (bytes, bytearray)) else m._mdc.mdc))
    sigs = ';'.join(hx(body_of(s._signature)) for s in m._signatures) or '-'
    esk = ';'.join(r_esk(p) for p in m._sessionkeys) or '-'
    return ' '.join([hn(int(m._compression)), body, mdc, sigs, esk])


class Keys:
    NAMES = ['rsa2048', 'ed25519', 'p256', 'dsa2048', 'rsa3072', 'p384', 'secp256k1', 'ed25519b', 'dsa1024', 'p521']

    def __init__(self, ctx):
        self.k = {}
        for n in self.NAMES:
            try:
                self.k[n] = keypool.get(n)
            except Exception:
                ctx.skipped.append('key %s unavailable' % n)
        self.names = [n for n in self.NAMES if n in self.k]


def run(ctx):
    pgpy = load_repo()
    try:   # the extracted list functions are not tail recursive; megabyte inputs need a deeper stack in the child
        soft, hard = resource.getrlimit(resource.RLIMIT_STACK)
        want = 4 << 30
        resource.setrlimit(resource.RLIMIT_STACK, (want if hard == resource.RLIM_INFINITY else min(want, hard), hard))
    except Exception:
        pass
    d = GuardedDriver('c20', oracles={'compress': o_compress, 'decompress': o_decompress})
    tmp = tempfile.mkdtemp(prefix='c20_')
    try:
        _run(ctx, pgpy, d, tmp)
        if d.gave_up:
            ctx.notes.append('model driver gave up (deadline / memory cap) on %d inputs; each is reported as a disagreement' % d.gave_up)
    finally:
        d.close()
        shutil.rmtree(tmp, ignore_errors=True)


# ---------------------------------------------------------------- case description -> PGPy message
HASHES = ['SHA256', 'SHA512', 'SHA384', 'SHA224', 'SHA1']


def content_of(case):
    """the message argument given to PGPMessage.new"""
    c = case['content']
    if c['kind'] == 'str':
        return c['text']
    return bytes.fromhex(c['hex'])


def build_impl(pgpy, K, case, tmp=None):
    """returns (message, [signature objects in order of addition])"""
    from pgpy.constants import CompressionAlgorithm as CA, HashAlgorithm as H
    kw = {'compression': CA(case['comp'])}
    if case.get('format') is not None: kw['format'] = case['format']
    if case.get('encoding'): kw['encoding'] = case['encoding']
    if case.get('sensitive'): kw['sensitive'] = True
    mt = datetime.fromtimestamp(case['mtime'], timezone.utc)
    if case.get('file'):
        path = os.path.join(tmp, case['filename'])
        with open(path, 'wb') as f:
            f.write(content_of(case))
        os.utime(path, (case['mtime'], case['mtime']))
        m = pgpy.PGPMessage.new(path, file=True, **kw)
    else:
        m = pgpy.PGPMessage.new(content_of(case), **kw)
        m._message.mtime = mt
        if not case.get('sensitive'):
            m._message.filename = case['filename']
        try:
            m._message.update_hlen()
        except (ValueError, OverflowError):
            pass   # unrepresentable name / time: bytes(message) raises the same error (checked by the refusal suite)
    added = []
    for s in case['signers']:
        sig = K.k[s['key']].sign(m, created=T0 + timedelta(seconds=s['dt']), hash=getattr(H, s['hash']))
        m |= sig
        added.append(sig)
        if (len(added) + case['comp']) % 2 == 0:
            # a caller that writes the message out BETWEEN two signings (countersigning workflow): later exports must not depend on it
            try:
                bytes(m); str(m)
            except Exception:
                pass
    return m, added


def expected_read_back(case):
    """what the user reads back: (kind, value) - text for textual formats, octets otherwise; format as stored"""
    c = content_of(case)
    fmt = case.get('format')
    if fmt is None:
        if isinstance(c, str): fmt = 'u'
        elif all(b in b'\r\n\t' or 32 <= b < 127 for b in c): fmt = 't'
        else: fmt = 'b'
    if isinstance(c, (bytes, bytearray)) and fmt in 'tu':
        text = c.decode(case.get('encoding') or 'utf-8')
    else:
        text = c
    if isinstance(text, str):
        stored = text.encode('utf-8')
    else:
        stored = bytes(text)
    if fmt in 'tu':
        return fmt, ('text', text if isinstance(text, str) else stored.decode('utf-8')), stored
    return fmt, ('octets', stored), stored


def read_back(m):
    try:
        v = m.message
    except Exception as ex:   # an unreadable message is a value to compare, never a harness crash
        return ('raise', type(ex).__name__)
    if isinstance(v, str): return ('text', v)
    return ('octets', bytes(v))


def stable_sorted(sigs):
    return sorted(sigs, key=lambda s: s.created)   # list.sort is stable: equal times keep insertion order


def check_export(ctx, pgpy, d, K, case, tmp, suite='export'):
    """one message through every comparison; returns bytes(message) or None"""
    o = outcome(build_impl, pgpy, K, case, tmp)
    if o[0] != 'ok':
        # refusal while building (e.g. undecodable text for a textual format): acceptable, nothing exported
        ctx.case(suite + '-refused-at-new', (case['content'], case.get('format'), case.get('encoding')), nontrivial=False, sample={'case': _small(case), 'impl': o[1]})
        return None
    m, added = o[1]
    fmt, want_back, stored = expected_read_back(case)
    name = '_CONSOLE' if case.get('sensitive') else case['filename']
    ob = outcome(lambda: bytes(m))
    refuse = len(name) > 255 or any(ord(ch) > 255 for ch in name) or case['mtime'] < 0 or case['mtime'] >= 2**32
    if refuse:
        ctx.case(suite + '-refusal', (name, case['mtime']), nontrivial=False, sample={'name': name[:20], 'mtime': case['mtime'], 'impl': repr(ob)[:80]})
        if ob[0] == 'ok':
            ctx.fail(suite, 'unrepresentable file name / time was exported instead of refused', _small(case))
        mo = d.call('build', 'N,%s,%s,%s,%s,%s' % (hn(case['comp']), hn(ord(fmt)), cps(name), hn(case['mtime']), hx(stored)))
        ctx.expect_eq(suite, 'refusal differs from model', _small(case), 'ERR' if ob[0] != 'ok' else 'ok', 'ERR' if mo == 'ERR' else 'ok')
        return None
    if ob[0] != 'ok':
        ctx.fail(suite, 'export raised %s' % ob[1], _small(case))
        return None
    blob = ob[1]
    key = (case['content'].get('cls'), hashlib.sha1(stored).hexdigest()[:12], fmt, name, case['mtime'], case['comp'],
           tuple((s['key'], s['hash'], s['dt']) for s in case['signers']))
    ctx.case(suite, key, sample={'case': _small(case), 'export_len': len(blob), 'head': blob[:24].hex()})
    n = len(added)
    # --- (a) correspondence: model export (op script in order of ADDITION; the model does its own insort) = bytes(message)
    if isinstance(want_back[1], str) and len(want_back[1]) <= 4000:
        op0 = 'T,%s,%s,%s,%s,%s' % (hn(case['comp']), hn(ord(fmt)), cps(name), hn(case['mtime']), cps(want_back[1]))
    else:
        op0 = 'N,%s,%s,%s,%s,%s' % (hn(case['comp']), hn(ord(fmt)), cps(name), hn(case['mtime']), hx(stored))
    ops = [op0] + [op_sig(s) for s in added]
    mo = d.call('build', *ops)
    ctx.expect_eq(suite, 'bytes(message) differs from model export', _small(case), hx(blob), mo)
    # --- (b) property oracle on the octets PGPy produced: model parser + RFC grammar + flags + pairwise fields
    order = stable_sorted(added)
    inner = [r_ops_for(s, i == n - 1) for i, s in enumerate(reversed(order))] + [r_lit(ord(fmt), name, case['mtime'], stored)] + [r_sig(s) for s in order]
    want_render = ('C:%s:[%s]' % (hn(case['comp']), ';'.join(inner))) if case['comp'] else ';'.join(inner)
    want = '1 1 %s %s' % (('0' * (n - 1) + '1') if n else '-', want_render)
    got = d.call('parse', FUEL, hx(blob))
    if got != want:
        what = 'export is not the composition the property describes'
        if got.split(' ')[0:1] == ['0']: what = 'export is outside the RFC 4880 11.3 grammar'
        elif got.split(' ')[1:2] == ['0'] or got.split(' ')[2:3] != want.split(' ')[2:3]: what = 'one-pass flags: not only the last marked final'
        ctx.fail(suite, what, dict(_small(case), got=got[:300], want=want[:300]))
    # --- (c) import(export) on the implementation, binary and armor
    for how in (['bin', 'asc'] if case.get('armor') else ['bin']):
        src = blob if how == 'bin' else str(m)
        o2 = outcome(pgpy.PGPMessage.from_blob, src)
        if o2[0] != 'ok':
            ctx.fail(suite, 'own export rejected on import (%s): %s' % (how, o2[1]), _small(case)); continue
        m2 = o2[1]
        probs = []
        if m2.filename != name: probs.append('filename')
        if (name == '_CONSOLE') != m2.is_sensitive: probs.append('sensitive')
        if ts(m2._message.mtime) != case['mtime']: probs.append('time')
        if m2._message.format != fmt: probs.append('format')
        if int(m2._compression) != case['comp'] or m2.is_compressed != (case['comp'] != 0): probs.append('compression')
        if sorted(hx(body_of(s._signature)) for s in m2._signatures) != sorted(hx(body_of(s._signature)) for s in added): probs.append('signature multiset')
        if [hx(body_of(s._signature)) for s in m2._signatures] != [hx(body_of(s._signature)) for s in order]: probs.append('signature order')
        if bytes(m2._message._contents) != stored: probs.append('stored octets')
        if probs:
            ctx.fail(suite, 'import(export) lost: ' + ', '.join(probs), dict(_small(case), how=how))
        rb = outcome(read_back, m2)
        if rb != ('ok', want_back):
            ctx.fail(suite + '-content', 'content read back differs', dict(_small(case), how=how, got=repr(rb)[:120], want=repr(want_back)[:120]))
        elif isinstance(content_of(case), (bytes, bytearray)) and want_back[0] == 'text':
            # octet-for-octet under the message's character encoding
            if rb[1][1].encode(case.get('encoding') or 'utf-8') != content_of(case):
                ctx.fail(suite + '-content', 'content not octet-for-octet under the charset', dict(_small(case), how=how))
        if how == 'asc' and case.get('encoding') and m2.charset != m.charset:
            ctx.fail(suite, 'armor Charset header lost', _small(case))
        if bytes(m2) != blob:
            ctx.fail(suite, 'export(import(export)) differs', dict(_small(case), how=how))
        if how == 'bin':
            # --- (d) correspondence of parse + __or__: model import state = PGPy state
            ctx.expect_eq(suite, 'import state differs from model', _small(case), state_of(m2), d.call('import', FUEL, hx(blob)))
    # model view of the content (contents property)
    mv = d.call('contents', hn(ord(fmt)), hx(stored))
    rbm = read_back(m)
    iv = ('T ' + cps(rbm[1])) if rbm[0] == 'text' else ('B ' + hx(rbm[1])) if rbm[0] == 'octets' else 'ERR'
    ctx.expect_eq(suite, 'message view differs from model', _small(case), iv, mv)
    return blob


def time_case(ctx, pgpy, case):
    """literal time that needs five octets; returns True if the implementation fails (exports instead of refusing)"""
    from pgpy.constants import CompressionAlgorithm as CA
    m = pgpy.PGPMessage.new(b'abc', compression=CA.Uncompressed, format='b')
    m._message.mtime = datetime.fromtimestamp(case['mtime'], timezone.utc)
    outcome(m._message.update_hlen)
    o = outcome(lambda: bytes(m))
    ctx.case('time-overflow', case['mtime'], nontrivial=False, sample={'mtime': case['mtime'], 'impl': repr(o)[:80]})
    if o[0] == 'ok':
        ctx.fail('time-overflow', 'literal time beyond 2106-02-07 is exported (five-octet time field) instead of refused', case)
        return True
    return False


def decrypted_case(ctx, pgpy, d, K, case, tmp):
    """sign, encrypt, import, decrypt: the decrypted message must export exactly the message that was encrypted"""
    c2 = {k: v for k, v in case.items() if k not in ('op', 'after', 'twice', 'cipher')}
    m, added = build_impl(pgpy, K, c2, tmp)
    dec = pgpy.PGPMessage.from_blob(bytes(m.encrypt('pw'))).decrypt('pw')
    ctx.case('encrypt-decrypted', ('witness', repr(c2['content'])[:60]), sample={'case': _small(c2)})
    bad = dec._mdc is not None or bytes(dec) != bytes(m) or d.call('grammar', FUEL, hx(bytes(dec))) != '1'
    if bad:
        ctx.fail('encrypt-decrypted', 'export of a decrypted message is not the message that was encrypted', dict(_small(c2), op='decrypted'))
    return bad


def _small(case):
    c = dict(case)
    cc = dict(c['content'])
    if len(cc.get('hex', '')) > 400 or len(cc.get('text', '')) > 200:
        cc = {'kind': cc['kind'], 'cls': cc.get('cls'), 'gen': cc.get('gen'), 'size': cc.get('size')}
    c['content'] = cc
    return c


# ---------------------------------------------------------------- generators
def regen_content(c, default_big=65536):
    """rebuild a large content that was recorded as (class, generator seed, size) only"""
    if 'hex' in c or 'text' in c or 'gen' not in c:
        return c
    class Fixed:
        def __init__(self, v): self.v = v
        def randrange(self, *a): return self.v
    return gen_content(Fixed(c['gen']), c['cls'], c.get('size') or default_big)


def gen_content(rng, cls, big):
    if cls == 'empty': return {'kind': 'bytes', 'hex': '', 'cls': cls}
    if cls == 'empty-str': return {'kind': 'str', 'text': '', 'cls': cls}
    if cls == 'ascii':
        t = ''.join(rng.choice('abc XYZ\r\n\t~!09') for _ in range(rng.randrange(1, 80)))
        return {'kind': 'bytes', 'hex': t.encode().hex(), 'cls': cls}
    if cls == 'ascii-str':
        return {'kind': 'str', 'text': ''.join(rng.choice('hello, world\n-') for _ in range(rng.randrange(1, 60))), 'cls': cls}
    if cls == 'utf8-str':
        return {'kind': 'str', 'text': ''.join(rng.choice(u'café ☃\U0001d11eÿĀ߿ࠀ￿\U00010000z') for _ in range(rng.randrange(1, 40))), 'cls': cls}
    if cls == 'edge-str':
        # text whose first / last / only characters are ones that readers like to drop: byte-order mark, NUL, line and paragraph
        # separators, next-line, trailing blanks, a lone CR
        pre = rng.choice([u'\ufeff', u'\ufeff\ufeff', u'\x00', u'\u2028', u'\x85', u' ', u'\t', u'\r', u'\ufffe'])
        post = rng.choice([u'', u'\ufeff', u'\x00', u' \t', u'\r', u'\x1a', u'\u2029'])
        mid = ''.join(rng.choice(u'ab\n é') for _ in range(rng.randrange(0, 12)))
        return {'kind': 'str', 'text': pre + mid + post, 'cls': cls}
    if cls == 'edge-bytes':
        pre = rng.choice([b'\xef\xbb\xbf', b'\xff\xfe', b'\xfe\xff', b'\x00', b'\x1a', b'\r'])
        return {'kind': 'bytes', 'hex': (pre + bytes(rng.choice(b'ab\n ') for _ in range(rng.randrange(0, 12))) + rng.choice([b'', b'\x00', b'\x1a', b'\r'])).hex(), 'cls': cls}
    if cls == 'utf8-bytes':
        return {'kind': 'bytes', 'hex': ''.join(rng.choice(u'naïve € 中文') for _ in range(rng.randrange(1, 40))).encode('utf-8').hex(), 'cls': cls}
    if cls.startswith('charset:'):
        enc = cls.split(':')[1]
        alpha = {'latin-1': u'café üÿ ', 'cp1251': u'Привет abc', 'shift_jis': u'こんにちは abc',
                 'koi8-r': u'мир xyz'}[enc]
        return {'kind': 'bytes', 'hex': ''.join(rng.choice(alpha) for _ in range(rng.randrange(1, 40))).encode(enc).hex(), 'cls': cls}
    if cls == 'binary':
        nb = rng.choice([1, 2, 17, 191, 192, 300, 8383, 8384, 9000])
        return {'kind': 'bytes', 'hex': bytes(rng.randrange(256) for _ in range(nb)).hex(), 'cls': cls}
    if cls == 'all-octets':
        return {'kind': 'bytes', 'hex': bytes(range(256)).hex(), 'cls': cls}
    if cls == 'big-binary':
        seed = rng.randrange(2**32)
        blk = hashlib.sha256(b'%d' % seed).digest()
        data = (blk * (big // 32 + 1))[:big // 2] + bytes((i * 7 + seed) & 255 for i in range(big // 2))
        return {'kind': 'bytes', 'hex': data.hex(), 'cls': cls, 'gen': seed, 'size': big}
    if cls.startswith('far-repeat:'):
        # prose-like text over a large vocabulary in which a 1-2 kB record occurs twice, D octets apart: the compressor
        # emits a back reference of distance D (up to the 32 kB window), which short-period or random data never needs
        dist = int(cls.split(':')[1])
        seed = rng.randrange(2**32)
        import random as _r
        g = _r.Random(seed)
        vocab = [''.join(g.choice('abcdefghijklmnopqrstuvwxyz') for _ in range(g.randrange(2, 11))) for _ in range(6000)]
        def prose(n):
            out, ln = [], 0
            while ln < n:
                w = g.choice(vocab) + g.choice([' ', ' ', ' ', ', ', '. ', '\n'])
                out.append(w); ln += len(w)
            return ''.join(out)[:n]
        record = ' '.join('%012x' % g.getrandbits(48) for _ in range(g.randrange(80, 150))) + '\n'
        # a short distance only needs the window when the copy starts where the decompressor switches output buffers
        # (zlib module: first buffer 16 KiB), so the second occurrence is placed at offset 16384 in that case
        head = 16384 - dist if dist < 16384 else g.randrange(2000, 5000)
        data = (prose(head) + record + prose(dist - len(record)) + record + prose(g.randrange(500, 3000))).encode('ascii')
        return {'kind': 'bytes', 'hex': data.hex(), 'cls': cls, 'gen': seed, 'size': big}
    if cls == 'big-text':
        seed = rng.randrange(2**32)
        return {'kind': 'str', 'text': (u'Zeile %d äöü ✓\n' % seed) * (big // 24), 'cls': cls, 'gen': seed, 'size': big}
    raise ValueError(cls)


FAR_DISTANCES = [8200, 24000, 32400]
NAMES = ['', 'a.txt', u'café.txt', u'ÿ é', 'x' * 255, '_CONSOLE', 'dir name.tar.gz']
TIMES = [0, 1, ts(T0), 2**31 - 1, 2**31, 2**32 - 1]


def gen_signers(rng, K, n, pool=None):
    out = []
    base = rng.choice([0, 100])
    for i in range(n):
        out.append({'key': rng.choice(pool or K.names), 'hash': rng.choice(HASHES), 'dt': rng.choice([base, base, base + 5, base - 3, base + i, 1000 - i])})
    return out


def _run(ctx, pgpy, d, tmp):
    from pgpy.constants import SignatureType, PubKeyAlgorithm, CompressionAlgorithm as CA
    from pgpy.packet.packets import LiteralData, OnePassSignatureV3
    rng = ctx.rng
    # ---- 0. pins: the source text the model was written against
    for fn, pin, nm in ((pgpy.PGPMessage.__iter__, PIN_ITER, 'PGPMessage.__iter__'), (pgpy.PGPMessage.__bytearray__, PIN_BYTEARRAY, 'PGPMessage.__bytearray__')):
        try:
            src = inspect.getsource(fn)
        except Exception as ex:
            src = 'unavailable: %r' % ex
        if src != pin:
            ctx.broken.append('pinned source text of %s changed (Model/Message.v iter_packets / export_pkts were written against it)' % nm)
    if sorted(int(x) for x in SignatureType) != PIN_SIGTYPES: ctx.broken.append('pinned constant SignatureType members changed (Model/Message.v sigtypes)')
    if sorted(int(x) for x in PubKeyAlgorithm) != PIN_PKALGS: ctx.broken.append('pinned constant PubKeyAlgorithm members changed (Model/Message.v pkalgs)')
    K = Keys(ctx)
    fast = [n for n in K.names if n in ('rsa2048', 'ed25519', 'p256', 'ed25519b', 'secp256k1', 'p384')]

    # ---- 0b. regression corpus: witnesses of the repaired defects
    for label, case in REGRESSION:
        before = len(ctx.violations)
        if case.get('op') == 'time':
            time_case(ctx, pgpy, case)
        elif case.get('op') == 'decrypted':
            decrypted_case(ctx, pgpy, d, K, case, tmp)
        else:
            check_export(ctx, pgpy, d, K, dict(case), tmp, suite='regression')
        if len(ctx.violations) > before:
            ctx.notes.append('regression witness fails again: ' + label)

    # ---- 1. export / import sweep
    classes = ['empty', 'empty-str', 'ascii', 'ascii-str', 'utf8-str', 'edge-str', 'edge-bytes', 'utf8-bytes', 'charset:latin-1', 'charset:cp1251', 'charset:shift_jis',
               'charset:koi8-r', 'binary', 'all-octets']
    formats = [None, 'b', 't', 'u']
    cases = []
    # structured part: every class x format once, cycling the other dimensions so that each value of each dimension occurs
    i = 0
    for cls in classes:
        for fmt in formats + (['l', '1', 'm'] if cls == 'binary' else []):
            case = {'content': gen_content(rng, cls, 0), 'format': fmt, 'encoding': cls.split(':')[1] if cls.startswith('charset:') else None,
                    'filename': NAMES[i % len(NAMES)], 'mtime': TIMES[i % len(TIMES)], 'comp': i % 4,
                    'signers': gen_signers(rng, K, i % 5, fast if ctx.quick else None), 'armor': i % 3 == 0}
            if case['filename'] == '_CONSOLE': case['sensitive'] = True
            cases.append(case); i += 1
    # texts whose FIRST or LAST character is one a decoder may silently drop (each prefix / suffix with each textual format)
    for j, (pre, post) in enumerate([(u'\ufeff', u''), (u'\ufeff', u'x'), (u'\ufeff\ufeff', u'y'), (u'\x00', u'\x00'), (u'\u2028', u'\u2029'), (u'\x85', u'\x85'),
                                     (u' ', u' \t'), (u'\r', u'\r'), (u'a', u'\ufeff'), (u'\ufffe', u'\x1a')]):
        for fmt in (None, 'u', 't'):
            cases.append({'content': {'kind': 'str', 'text': pre + (u'k\u00e9y' if post else u'') + post, 'cls': 'edge-str'}, 'format': fmt, 'encoding': None,
                          'filename': 'edge.txt', 'mtime': ts(T0), 'comp': (j + len(fmt or '')) % 4, 'signers': gen_signers(rng, K, j % 2, fast), 'armor': j % 4 == 0})
    # every signer count x compression, with equal and different times and every key algorithm
    for n in range(0, 5):
        for comp in range(4):
            for rep in range(ctx.n(1, 6)):
                cases.append({'content': gen_content(rng, rng.choice(['ascii', 'binary', 'utf8-str']), 0), 'format': None, 'encoding': None,
                              'filename': rng.choice(NAMES[:5]), 'mtime': rng.choice(TIMES), 'comp': comp,
                              'signers': gen_signers(rng, K, n, fast if (ctx.quick and rep == 0) else None), 'armor': rep == 0 and comp == 1})
    # all signers at the same second / all different / strictly decreasing (insertion order is then fully reversed)
    for n in (2, 3, 4):
        for mode in ('same', 'desc', 'asc'):
            sg = [{'key': K.names[(n + j) % len(K.names)] if not ctx.quick else fast[(n + j) % len(fast)], 'hash': HASHES[j % len(HASHES)],
                   'dt': {'same': 7, 'desc': 50 - j, 'asc': j}[mode]} for j in range(n)]
            cases.append({'content': gen_content(rng, 'ascii', 0), 'format': 'b', 'encoding': None, 'filename': 'f', 'mtime': ts(T0), 'comp': rng.randrange(4),
                          'signers': sg, 'armor': False})
    # random part
    for _ in range(ctx.n(100, 1500)):
        cls = rng.choice(classes)
        case = {'content': gen_content(rng, cls, 0), 'format': rng.choice(formats), 'encoding': cls.split(':')[1] if cls.startswith('charset:') else None,
                'filename': rng.choice(NAMES), 'mtime': rng.choice(TIMES + [rng.randrange(2**32)]), 'comp': rng.randrange(4),
                'signers': gen_signers(rng, K, rng.randrange(5), fast if ctx.quick else None), 'armor': rng.random() < 0.2}
        if case['filename'] == '_CONSOLE': case['sensitive'] = True
        cases.append(case)
    # real files (file=True): name and time come from the file system
    for nm in ['plain.txt', u'café.txt', 'y' * 255]:
        cases.append({'content': gen_content(rng, 'binary', 0), 'format': None, 'encoding': None, 'filename': nm, 'mtime': 1234567890, 'comp': 2,
                      'signers': gen_signers(rng, K, 2, fast), 'armor': False, 'file': True})
    # long-distance repetitions (window handling of the decompressor): just above 8 kB, mid window, near the 32 kB limit
    for comp in range(4):
        for j, dist in enumerate(FAR_DISTANCES):
            cases.append({'content': gen_content(rng, 'far-repeat:%d' % dist, 0), 'format': [None, 'b', 't'][(comp + j) % 3], 'encoding': None,
                          'filename': 'far.txt', 'mtime': ts(T0), 'comp': comp, 'signers': gen_signers(rng, K, (comp + j) % 3, fast), 'armor': comp == 1 and j == 1})
    # megabytes
    big = ctx.n(65536, 1 << 20)
    for cls, comp in (('big-binary', 0), ('big-binary', 1), ('big-text', 2), ('big-binary', 3)) if not ctx.quick else (('big-binary', 1), ('big-text', 3)):
        cases.append({'content': gen_content(rng, cls, big), 'format': None, 'encoding': None, 'filename': 'big.bin', 'mtime': ts(T0), 'comp': comp,
                      'signers': gen_signers(rng, K, 2, fast), 'armor': False})
    blobs = []
    for case in cases:
        if case.get('sensitive'): case['filename'] = '_CONSOLE'
        b = check_export(ctx, pgpy, d, K, case, tmp)
        if b is not None and len(b) < 20000:
            blobs.append((case, b))
    ctx.exhaustive.append('signer counts 0..4 x 4 compression algorithms; content classes x format markers; listed file names and times')

    # ---- 2. refusals: unrepresentable names / times must not be exported
    for nm, mt in (('x' * 256, 5), (u'€.txt', 5), (u'snow☃', 5), ('ok', -1), ('z' * 300, 0)):
        check_export(ctx, pgpy, d, K, {'content': gen_content(rng, 'ascii', 0), 'format': 'b', 'encoding': None, 'filename': nm, 'mtime': mt,
                                       'comp': 0, 'signers': [], 'armor': False}, tmp, suite='refusal')
    # a time that does not fit four octets must be refused (a five-octet field shifts the content on re-import)
    for mt in (2**32, 2**32 + 12345, 2**33):
        time_case(ctx, pgpy, {'op': 'time', 'mtime': mt})
        check_export(ctx, pgpy, d, K, {'content': gen_content(rng, 'ascii', 0), 'format': 'b', 'encoding': None, 'filename': 'late', 'mtime': mt,
                                       'comp': 0, 'signers': [], 'armor': False}, tmp, suite='refusal')

    # ---- 3. literal / one-pass body codecs against PGPy's packet classes and the RFC decoders
    trailing = b'\xaa\xbb\xcc'
    for _ in range(ctx.n(300, 3000)):
        fmt = rng.choice([0x62, 0x74, 0x75, 0x6c, 0x31, rng.randrange(256)])
        name = ''.join(chr(rng.randrange(256)) for _ in range(rng.choice([0, 1, 8, 254, 255, rng.randrange(256)])))
        mt = rng.choice(TIMES + [rng.randrange(2**32)])
        data = bytes(rng.randrange(256) for _ in range(rng.choice([0, 1, 5, 200, rng.randrange(400)])))
        lit = LiteralData()
        lit.format = chr(fmt); lit.filename = name; lit.mtime = datetime.fromtimestamp(mt, timezone.utc); lit._contents = bytearray(data)
        lit.update_hlen()
        full = bytes(lit.__bytearray__())
        body = body_of(lit)
        case = {'op': 'lit', 'fmt': fmt, 'name': cps(name), 'mtime': mt, 'data': data.hex()}
        ctx.case('literal-codec', (fmt, name, mt, data), sample=case)
        ctx.expect_eq('literal-codec', 'literal body differs from model', case, hx(body), d.call('litbody', hn(fmt), cps(name), hn(mt), hx(data)))
        ctx.expect_eq('literal-codec', 'framed literal differs from model', case, hx(full), d.call('frame', 'b', hx(body)))
        want = '%s %s %s %s' % (hn(fmt), cps(name), hn(mt), hx(data))
        ctx.expect_eq('literal-codec', 'model parse of literal body (following data must be untouched)', case, want + ' ' + hx(trailing),
                      d.call('litparse', hn(len(body)), hx(body + trailing)))
        ctx.expect_eq('literal-codec', 'RFC 4880 5.9 decoder disagrees', case, want, d.call('rfc_lit', hx(body)))
        # implementation parse (through the dispatcher), following data untouched
        buf = bytearray(full + trailing)
        o = outcome(pgpy.packet.Packet, buf)
        ok = o[0] == 'ok' and isinstance(o[1], LiteralData) and ord(o[1].format) == fmt and o[1].filename == name and ts(o[1].mtime) == mt \
            and bytes(o[1]._contents) == data and bytes(buf) == trailing
        if not ok:
            ctx.fail('literal-codec', 'LiteralData does not round-trip / touches following data', case)
    # malformed literal bodies: declared length and content disagree (model follows the slices of the code)
    for _ in range(ctx.n(300, 3000)):
        blen = rng.choice([0, 1, 2, 3, 5, 6, 7, 12, rng.randrange(40)])
        body = bytes(rng.choice([0, 1, 2, 4, 6, 98, 255, rng.randrange(256)]) for _ in range(blen))
        declared = max(0, blen + rng.choice([0, 0, 0, -1, -2, 1, 3, -6]))
        follow = bytes(rng.randrange(256) for _ in range(rng.choice([0, 0, 3, 9])))
        data = bytes([0xcb, declared]) + body + follow if declared < 192 else None
        if data is None: continue
        buf = bytearray(data)
        o = outcome(pgpy.packet.Packet, buf)
        if o[0] == 'ok':
            L = o[1]
            try:
                got = '%s %s %s %s %s' % (hn(ord(L.format)), cps(L.filename), hn(ts(L.mtime)), hx(bytes(L._contents)), hx(bytes(buf)))
            except Exception as ex:
                got = 'ERR'
        else:
            got = 'ERR'
        case = {'op': 'litparse', 'data': data.hex()}
        ctx.case('literal-malformed', data, nontrivial=(got != 'ERR'), sample=dict(case, impl=got[:80]))
        ctx.expect_eq('literal-malformed', 'literal parse differs from model', case, got, d.call('litparse', hn(declared), hx(body + follow)))
    # one-pass bodies
    for _ in range(ctx.n(300, 3000)):
        t = rng.choice(PIN_SIGTYPES + [rng.randrange(256)]); h = rng.choice([1, 2, 8, 9, 10, 11, rng.randrange(256)])
        a = rng.choice(PIN_PKALGS + [rng.randrange(256)]); kid = bytes(rng.randrange(256) for _ in range(8)); fl = rng.choice([0, 1, 1, 2, 255])
        body = bytes([3, t, h, a]) + kid + bytes([fl])
        cut = rng.choice([13, 13, 13, rng.randrange(14)])
        wire = body[:cut]
        follow = trailing if cut == 13 else b''
        buf = bytearray(bytes([0xc4, len(wire)]) + wire + follow)
        o = outcome(pgpy.packet.Packet, buf)
        if o[0] == 'ok' and isinstance(o[1], OnePassSignatureV3):
            p = o[1]
            got = '%s %s %s %s %d %s' % (hn(int(p.sigtype)), hn(int(p.halg)), hn(int(p.pubalg)), p.signer.lower(), 1 if p.nested else 0, hx(bytes(buf)))
        else:
            got = 'ERR'
        case = {'op': 'opsparse', 'data': (bytes([0xc4, len(wire)]) + wire + follow).hex()}
        ctx.case('onepass-codec', (wire, follow), nontrivial=(got != 'ERR'), sample=dict(case, impl=got))
        ctx.expect_eq('onepass-codec', 'one-pass parse differs from model', case, got, d.call('opsparse', hx(wire[1:] + follow)) if wire[:1] == b'\x03' else 'ERR')
        if got != 'ERR' and cut == 13:
            ctx.expect_eq('onepass-codec', 'RFC 4880 5.4 decoder disagrees', case, ' '.join(got.split(' ')[:4]) + ' ' + hn(fl),
                          d.call('rfc_ops', hx(wire)))
            if fl in (0, 1):
                ctx.expect_eq('onepass-codec', 'one-pass body differs from model', case, hx(body_of(o[1])), d.call('opsbody', hn(t), hn(h), hn(a), hx(kid), str(fl)))
                if bytes(o[1].__bytearray__()) != bytes([0xc4, 13]) + body:
                    ctx.fail('onepass-codec', 'OnePassSignatureV3 does not re-emit what it parsed', case)
    # text_to_bytes: the model's UTF-8 encoder against str.encode
    for _ in range(ctx.n(100, 2000)):
        t = ''.join(chr(rng.choice([rng.randrange(128), rng.randrange(128, 2048), rng.choice([0x800, 0xd7ff, 0xe000, 0xffff, rng.randrange(0xe000, 0x10000)]),
                                    rng.randrange(0x10000, 0x110000)])) for _ in range(rng.randrange(1, 12)))
        ctx.case('utf8', t, sample={'text': cps(t)})
        ctx.expect_eq('utf8', 'text_to_bytes differs from model utf8', {'op': 'utf8', 'text': cps(t)}, hx(t.encode('utf-8')), d.call('utf8', cps(t)))

    # LiteralData.contents and strict UTF-8 decoding on arbitrary octets (text of other producers included)
    def mutate_utf8():
        base = bytearray(''.join(chr(rng.choice([rng.randrange(128), rng.randrange(128, 2048), rng.randrange(0x800, 0xd800), rng.randrange(0xe000, 0x10000),
                                                 rng.randrange(0x10000, 0x110000)])) for _ in range(rng.randrange(0, 8))).encode('utf-8'))
        r = rng.random()
        if r < 0.35 and base:
            base[rng.randrange(len(base))] = rng.choice([0x80, 0xbf, 0xc0, 0xc1, 0xc2, 0xe0, 0xed, 0xf0, 0xf4, 0xf5, 0xff, rng.randrange(256)])
        elif r < 0.5 and base:
            del base[rng.randrange(len(base))]
        elif r < 0.65:
            base += bytes(rng.choice([[0xed, 0xa0, 0x80], [0xed, 0x9f, 0xbf], [0xe0, 0x9f, 0xbf], [0xe0, 0xa0, 0x80], [0xf0, 0x8f, 0xbf, 0xbf], [0xf0, 0x90, 0x80, 0x80],
                                      [0xf4, 0x8f, 0xbf, 0xbf], [0xf4, 0x90, 0x80, 0x80], [0xc1, 0xbf], [0xc2, 0x80], [0xef, 0xbf, 0xbf], [0xe9], [0xc3]]))
        return bytes(base)
    for _ in range(ctx.n(400, 6000)):
        data = mutate_utf8() if rng.random() < 0.8 else bytes(rng.randrange(256) for _ in range(rng.randrange(0, 10)))
        o = outcome(lambda: data.decode('utf-8'))
        case = {'op': 'contents', 'data': data.hex()}
        ctx.case('contents-codec', data, nontrivial=(o[0] == 'ok'), sample=dict(case, utf8=o[0]))
        ctx.expect_eq('contents-codec', 'strict UTF-8 decoding differs from model utf8_decode', case, cps(o[1]) if o[0] == 'ok' else 'ERR', d.call('utf8dec', hx(data)))
        for fch in 'tub':
            lit = LiteralData(); lit.format = fch; lit._contents = bytearray(data)
            oc = outcome(lambda: lit.contents)
            iv = 'ERR' if oc[0] != 'ok' else ('T ' + cps(oc[1])) if isinstance(oc[1], str) else ('B ' + hx(bytes(oc[1])))
            ctx.expect_eq('contents-codec', 'LiteralData.contents differs from model', dict(case, format=fch), iv, d.call('contents', hn(ord(fch)), hx(data)))
            if fch == 't' and oc[0] != 'ok':
                ctx.fail('contents-codec', 'text literal of another producer is unreadable', dict(case, format=fch))

    # ---- 3b. the premise of the byte-level theorems, on the implementation's primitive: decompress(compress x) = x,
    #          and the oracle the model is run with is the same function
    for alg in range(4):
        for cls in ['empty', 'ascii', 'binary', 'all-octets', 'utf8-bytes', 'big-binary'] + ['far-repeat:%d' % x for x in FAR_DISTANCES]:
            data = bytes.fromhex(gen_content(rng, cls, ctx.n(65536, 1 << 20))['hex'])
            comp = outcome(lambda: bytes(CA(alg).compress(data)))
            ctx.case('compress-roundtrip', (alg, cls, hashlib.sha1(data).hexdigest()), sample={'alg': alg, 'cls': cls, 'len': len(data)})
            case = {'op': 'compress', 'alg': alg, 'cls': cls, 'data': data.hex() if len(data) < 2000 else None}
            if comp[0] != 'ok' or outcome(lambda: bytes(CA(alg).decompress(comp[1]))) != ('ok', data):
                ctx.fail('compress-roundtrip', 'content does not survive compress / decompress', case)
            elif hx(comp[1]) != o_compress(hx(bytes([alg])), hx(data)):
                ctx.fail('compress-roundtrip', 'CompressionAlgorithm.compress differs from the primitive oracle', case)
    ctx.exhaustive.append('4 compression algorithms x content classes (primitive round trip)')

    # ---- 3c. optional cross-check of the model parser against gpg --list-packets (never a condition for passing)
    if not ctx.quick:
        gpg_crosscheck(ctx, d, blobs, tmp)

    # ---- 4. encryption: sign before / after, shapes, model export, decrypted payload in grammar
    run_encrypt(ctx, pgpy, d, K, fast, tmp)

    # ---- 5. encodings of other producers, written by the model, imported by PGPy
    run_foreign(ctx, pgpy, d, K, fast, blobs)
    big_indeterminate(ctx, pgpy, K)

    # ---- 6. packet sequences outside the grammar: __or__ against the model
    run_sequences(ctx, pgpy, d, K, fast, blobs)


def gpg_crosscheck(ctx, d, blobs, tmp):
    import re, subprocess
    if not os.path.exists('/usr/bin/gpg'):
        ctx.skipped.append('gpg cross-check (no /usr/bin/gpg)'); return
    home = os.path.join(tmp, 'gnupg'); os.makedirs(home, mode=0o700, exist_ok=True)
    agree = disagree = 0
    for case, blob in blobs[:40]:
        f = os.path.join(tmp, 'x.pgp')
        with open(f, 'wb') as fh: fh.write(blob)
        try:
            out = subprocess.run(['/usr/bin/gpg', '--homedir', home, '--batch', '--no-tty', '--list-packets', f], stdout=subprocess.PIPE,
                                 stderr=subprocess.DEVNULL, timeout=20).stdout.decode('latin-1')
        except Exception:
            continue
        kinds = re.findall(r'^:(\w+)[ _]', out, flags=re.M)
        lasts = re.findall(r'last=(\d)', out)
        mine = d.call('parse', FUEL, hx(blob)).split(' ', 3)
        toks = re.findall(r'(?:^|[;\[])([A-Z]\d*):', mine[3])
        names = {'O': 'onepass_sig', 'S': 'signature', 'L': 'literal', 'C': 'compressed'}
        if [names.get(t, t) for t in toks] == kinds and ''.join(lasts) == (mine[2] if mine[2] != '-' else ''):
            agree += 1
        else:
            disagree += 1
    ctx.notes.append('gpg --list-packets cross-check of the model parser: %d agree, %d disagree (informative only)' % (agree, disagree))


def split_packets(d, blob):
    """top-level packets of a PGPy export as (tag, body) using PGPy-independent framing knowledge: new-format headers only"""
    out = []
    i = 0
    while i < len(blob):
        tag = blob[i] & 0x3f
        assert blob[i] & 0xc0 == 0xc0
        fo = blob[i + 1]
        if fo < 192: ln, hl = fo, 2
        elif fo < 224: ln, hl = ((fo - 192) << 8) + blob[i + 2] + 192, 3
        else:
            assert fo == 255
            ln, hl = int.from_bytes(blob[i + 2:i + 6], 'big'), 6
        out.append((tag, blob[i + hl:i + hl + ln]))
        i += hl + ln
    return out


def run_encrypt(ctx, pgpy, d, K, fast, tmp):
    from pgpy.constants import CompressionAlgorithm as CA, SymmetricKeyAlgorithm as SA, HashAlgorithm as H
    rng = ctx.rng
    for i in range(ctx.n(16, 120)):
        n_before, n_after = rng.choice([(0, 0), (1, 0), (2, 0), (0, 1), (0, 2), (1, 1), (3, 0), (2, 2)])
        case = {'content': gen_content(rng, rng.choice(['ascii', 'binary', 'utf8-str']), 0), 'format': None, 'encoding': None, 'filename': rng.choice(NAMES[:4]),
                'mtime': ts(T0), 'comp': rng.randrange(4), 'signers': gen_signers(rng, K, n_before, fast), 'armor': False}
        m, added = build_impl(pgpy, K, case, tmp)
        plain = bytes(m)
        cipher = rng.choice([SA.AES256, SA.AES128, SA.CAST5, SA.Camellia128])
        twice = rng.random() < 0.25
        e = m.encrypt('pw%d' % i, cipher=cipher)
        if twice:
            e = e.encrypt('second', cipher=cipher)
        after = []
        for s in gen_signers(rng, K, n_after, fast):
            sg = K.k[s['key']].sign(e, created=T0 + timedelta(seconds=s['dt']), hash=getattr(H, s['hash']))
            e |= sg
            after.append(sg)
        blob = bytes(e)
        cd = dict(_small(case), op='encrypt', after=n_after, twice=twice, cipher=int(cipher))
        ctx.case('encrypt', (i, n_before, n_after, twice), sample={'case': cd, 'len': len(blob)})
        order = stable_sorted(after)
        esk = [r_esk(p) for p in e._sessionkeys]
        want = '1 1 - ' + ';'.join([r_sig(s) for s in order] + esk + ['E18:' + hx(body_of(e._message))])
        got = d.call('parse', FUEL, hx(blob))
        if got != want:
            ctx.fail('encrypt', 'encrypted message is not signatures* ESK+ one container / outside the grammar', dict(cd, got=got[:200], want=want[:200]))
        # independent look at the octets: tags only
        tags = [t for t, b in split_packets(d, blob)]
        if tags != [2] * n_after + [3] * (2 if twice else 1) + [18]:
            ctx.fail('encrypt', 'packet tags of the encrypted export', dict(cd, tags=tags))
        # model export of the same history
        fmt, want_back, stored = expected_read_back(case)
        ops = ['N,%s,%s,%s,%s,%s' % (hn(case['comp']), hn(ord(fmt)), cps(case['filename']), hn(case['mtime']), hx(stored))] + [op_sig(s) for s in added]
        sk = list(e._sessionkeys)
        # encrypt_msg puts the newest session key first
        if twice:
            ops += ['E,%s,%s' % (hx(body_of(sk[1])), hx(body_of(e._message))), 'E,%s,%s' % (hx(body_of(sk[0])), '-')]
        else:
            ops += ['E,%s,%s' % (hx(body_of(sk[0])), hx(body_of(e._message)))]
        ops += [op_sig(s) for s in after]
        ctx.expect_eq('encrypt', 'bytes(encrypted message) differs from model export', cd, hx(blob), d.call('build', *ops))
        # import of the encrypted export, then decryption: payload equals bytes(original) and is a message of the grammar
        e2 = pgpy.PGPMessage.from_blob(blob if i % 2 else str(e))
        ctx.expect_eq('encrypt', 'import state of encrypted message differs from model', cd, state_of(e2), d.call('import', FUEL, hx(blob)))
        if bytes(e2) != blob:
            ctx.fail('encrypt', 'export(import(encrypted export)) differs', cd)
        # (a second passphrase added to an already encrypted message gets a fresh session key: C03's subject, not used here)
        o = outcome(lambda: e2.decrypt('pw%d' % i))
        if o[0] != 'ok':
            ctx.fail('encrypt', 'own encrypted export does not decrypt: %s' % o[1], cd); continue
        dec = o[1]
        ref = pgpy.PGPMessage.from_blob(plain)
        st_dec, st_ref = state_of(dec).split(' '), state_of(ref).split(' ')
        if st_dec[:2] + st_dec[3:] != st_ref[:2] + st_ref[3:]:
            ctx.fail('encrypt', 'content / metadata / signatures lost through encryption', cd)
        if read_back(dec) != want_back:
            ctx.fail('encrypt', 'content lost through encryption', cd)
        # the plaintext the container held, parsed and re-exported by the model = what PGPy does with it
        symalg, skey = [sk for sk in e2._sessionkeys][-1].decrypt_sk('pw%d' % i)
        pt = bytes(e2._message.decrypt(skey, symalg))
        ctx.expect_eq('encrypt', 'state of decrypted message differs from model', cd, state_of(dec), d.call('import', FUEL, hx(pt)))
        ctx.expect_eq('encrypt', 'export of decrypted message differs from model', cd, hx(bytes(dec)), d.call('reexport', FUEL, hx(pt)))
        g = d.call('grammar', FUEL, hx(bytes(dec)))
        if dec._mdc is not None or pt != plain or bytes(dec) != plain or g != '1':
            ctx.fail('encrypt-decrypted', 'export of a decrypted message is not the message that was encrypted (in grammar: %s, stray MDC: %s)'
                     % (g == '1', dec._mdc is not None), dict(_small(case), op='decrypted'))
    # one public-key recipient (shape only)
    try:
        pub = K.k['rsa2048'].pubkey
        m = pgpy.PGPMessage.new(b'to a key', compression=CA.ZIP)
        e = pub.encrypt(m)
        blob = bytes(e)
        got = d.call('parse', FUEL, hx(blob))
        ctx.case('encrypt-pk', 'rsa2048', sample={'parse': got[:60]})
        if not got.startswith('1 1 - K1:') or ';E18:' not in got:
            ctx.fail('encrypt', 'public-key encrypted message shape', {'op': 'encrypt-pk', 'got': got[:200]})
        ctx.expect_eq('encrypt', 'import state of public-key encrypted message differs from model', {'op': 'encrypt-pk'},
                      state_of(pgpy.PGPMessage.from_blob(blob)), d.call('import', FUEL, hx(blob)))
    except KeyError:
        ctx.skipped.append('public-key recipient (rsa2048 unavailable)')


def reframe(d, rng, tag, body, style):
    """one packet in an encoding other producers use, written by the model"""
    if style == 'new':
        return unhx(d.call('frame', hn(tag), hx(body)))
    if style.startswith('old'):
        w = int(style[3:])
        return unhx(d.call('frame_old', hn(tag), hn(w), hx(body)))
    if style == 'partial2':
        # partial chunks, then a LAST part of 192..8383 octets: its length field has two octets (the low one must be read at the
        # right place of a buffer whose front was consumed by the earlier parts)
        ks, left = [], len(body)
        while left - 192 >= 1 and (left > 8383 or not ks):
            k = max(k for k in range(0, 13) if (1 << k) <= left - 192)
            ks.append(k); left -= 1 << k
        return unhx(d.call('frame_partial', hn(tag), '.'.join(hn(k) for k in ks) or '-', hx(body)))
    if style == 'partial':
        ks = []
        left = len(body)
        while left > 0 and len(ks) < 6:
            k = rng.randrange(0, 10)
            if (1 << k) > left: break
            ks.append(k); left -= 1 << k
        return unhx(d.call('frame_partial', hn(tag), '.'.join(hn(k) for k in ks) or '-', hx(body)))
    raise ValueError(style)


def run_foreign(ctx, pgpy, d, K, fast, blobs):
    rng = ctx.rng
    pubs = {}
    todo = [cb for cb in blobs if cb[0]['comp'] == 0][:ctx.n(40, 400)]
    for case, blob in todo:
        pk = split_packets(d, blob)
        fmt, want_back, stored = expected_read_back(case)
        for rep in range(ctx.n(2, 4)):
            styles = []
            out = b''
            for j, (tag, body) in enumerate(pk):
                opts = ['new', 'partial']
                if tag < 16:
                    need = 1 if len(body) < 256 else 2 if len(body) < 65536 else 4
                    opts += ['old%d' % w for w in (1, 2, 4) if w >= need]
                    if j == len(pk) - 1: opts.append('old0')
                if tag != 11 and tag != 8 and 'partial' in opts and rep % 2 == 0: opts.remove('partial')   # RFC: partial only for data packets
                st = rng.choice(opts)
                if tag == 4 and body[-1:] == b'\x01' and rng.random() < 0.4:
                    # RFC 4880 5.4: ANY non-zero flag octet marks the last one-pass signature packet (repair 8f84a8a)
                    body = body[:-1] + bytes([rng.choice([2, 3, 0x80, 0xfe, 0xff])])
                    ctx.dist['foreign:onepass-last-flag-not-1'] = ctx.dist.get('foreign:onepass-last-flag-not-1', 0) + 1
                if tag == 11 and 194 <= len(body) < 60000 and rep == 0:
                    st = 'partial2'
                    ctx.dist['foreign:literal-partial-then-two-octet-last-part'] = ctx.dist.get('foreign:literal-partial-then-two-octet-last-part', 0) + 1
                styles.append(st)
                out += reframe(d, rng, tag, body, st)
            wrap = rng.choice([None, None, 1, 2, 3, 0])
            wstyle = None
            wr_inner = None
            if wrap is not None:
                # compression wrapper(s) of another producer; import keeps the innermost algorithm (__or__ recursion)
                algs = [wrap] + ([rng.randrange(4)] if rng.random() < 0.25 else [])
                wstyle = []
                for alg in algs:
                    st = rng.choice(['new', 'partial', 'old1', 'old2', 'old4', 'old0'])
                    cbody = bytes([alg]) + unhx(o_compress(hx(bytes([alg])), hx(out)))
                    if st == 'old1' and len(cbody) > 255: st = 'old2'
                    out = reframe(d, rng, 8, cbody, st)
                    wstyle.append((alg, st))
                wr_inner = algs
            cd = dict(_small(case), op='foreign', styles=styles, wrap=wrap, wstyle=wstyle, data=out.hex() if len(out) < 3000 else None)
            ctx.case('foreign', (styles, wrap, wstyle, hashlib.sha1(out).hexdigest()), sample={'styles': styles, 'wrap': wrap, 'wstyle': wstyle, 'head': out[:16].hex()})
            o = outcome(pgpy.PGPMessage.from_blob, out)
            if o[0] != 'ok':
                ctx.fail('foreign', 'valid foreign encoding rejected: %s' % o[1], cd); continue
            m2 = o[1]
            name = '_CONSOLE' if case.get('sensitive') else case['filename']
            probs = []
            if bytes(m2._message._contents) != stored: probs.append('content')
            if m2.filename != name: probs.append('filename')
            if ts(m2._message.mtime) != case['mtime']: probs.append('time')
            if m2._message.format != fmt: probs.append('format')
            if int(m2._compression) != (wrap or 0): probs.append('compression')
            if len(m2._signatures) != len(case['signers']): probs.append('signature count')
            if probs:
                ctx.fail('foreign', 'foreign encoding imported to different ' + ', '.join(probs), cd)
            # the model's own parser on its own foreign writing: same packets as in PGPy's export
            want = d.call('parse', FUEL, hx(blob))
            got = d.call('parse', FUEL, hx(out))
            wr = want.split(' ', 3)[3]
            for alg in (wr_inner or []): wr = 'C:%s:[%s]' % (hn(alg), wr)
            if got.split(' ', 3)[3] != wr or got[0] != '1':
                ctx.fail('foreign', 'model parser reads its own foreign framing differently', dict(cd, got=got[:200], want=wr[:200]))
            ctx.expect_eq('foreign', 'import state of foreign encoding differs from model', cd, state_of(m2), d.call('import', FUEL, hx(out)))
            # the signatures still verify on the re-framed message (content reached the verifier unchanged)
            if case['signers'] and rep == 0:
                for s in case['signers'][:1]:
                    if s['key'] not in pubs: pubs[s['key']] = K.k[s['key']].pubkey
                    v = outcome(lambda: bool(pubs[s['key']].verify(m2)))
                    if v != ('ok', True):
                        ctx.fail('foreign', 'signature does not verify after import of the foreign encoding: %r' % (v,), cd)
            # re-export of the imported foreign message: PGPy keeps the foreign headers; it must still import to the same state
            o3 = outcome(lambda: pgpy.PGPMessage.from_blob(bytes(m2)))
            if o3[0] != 'ok' or state_of(o3[1]) != state_of(m2):
                ctx.fail('foreign', 'export(import(foreign)) does not import back to the same state', cd)
            elif d.call('grammar', FUEL, hx(bytes(m2))) != '1':
                ctx.fail('foreign', 're-export of an imported foreign message is outside the grammar', cd)
            # a message of another producer that PGPy then SIGNS is a message PGPy builds: whatever framing its literal came with
            # (indeterminate length included: such a packet can only be the last one, and now a signature follows it), the export
            # must be a grammar sentence that imports to the same content, metadata and signatures, and the new signature verifies
            if wrap is None and (rep == 0 or styles[-1] in ('old0', 'partial', 'partial2')):
                sk_name = rng.choice(K.names)
                ctx.case('foreign', ('then-signed', tuple(styles), hashlib.sha1(out).hexdigest(), sk_name), sample={'styles': styles, 'then': 'signed by ' + sk_name})
                def sign_flow():
                    m3 = pgpy.PGPMessage.from_blob(out)
                    m3 |= K.k[sk_name].sign(m3, created=T0 + timedelta(seconds=2000))
                    exp = bytes(m3)
                    m4 = pgpy.PGPMessage.from_blob(exp)
                    return (d.call('grammar', FUEL, hx(exp)), bytes(m4._message._contents) == stored, m4.filename == name, ts(m4._message.mtime) == case['mtime'],
                            len(m4._signatures) == len(case['signers']) + 1, bool(K.k[sk_name].pubkey.verify(m4)))
                o4 = outcome(sign_flow)
                if o4 != ('ok', ('1', True, True, True, True, True)):
                    ctx.fail('foreign', 'an imported foreign message, signed and exported, does not import back with its content, metadata and signatures '
                             '(grammar, content, filename, time, signature count, verifies) = %r' % (o4,), dict(cd, then_signed_by=sk_name))


def big_indeterminate(ctx, pgpy, K):
    """a literal of another producer written WITHOUT a length field (old format, length type 3) whose body needs a 2-, 3- (!) or
    4-octet length once it gets one: imported, exported as it is, then signed and exported again -- each export must import back to
    the same content, and the signed one to the same signature (old-format length types are 1, 2 and 4 octets wide: 3 is not one)"""
    sk_name = K.names[0]
    for n in ((255, 256, 65535, 65536, 70000) if ctx.quick else (255, 256, 65535, 65536, 70000, 300000, 16777215 - 6, 16777216)):
        body = b'b' + b'\x00' + (1).to_bytes(4, 'big') + bytes((i * 7 + 3) & 0xff for i in range(n - 6))
        raw = bytes([0x80 | (11 << 2) | 3]) + body
        ctx.case('foreign', ('big-indeterminate', n), sample={'styles': ['old0'], 'literal_body_octets': n})
        def flow():
            m = pgpy.PGPMessage.from_blob(raw)
            e1 = bytes(m)
            m1 = pgpy.PGPMessage.from_blob(e1)
            m |= K.k[sk_name].sign(m, created=T0 + timedelta(seconds=3000))
            e2 = bytes(m)
            m2 = pgpy.PGPMessage.from_blob(e2)
            return (bytes(m1._message._contents) == body[6:], bytes(m2._message._contents) == body[6:], len(m2._signatures) == 1,
                    bool(K.k[sk_name].pubkey.verify(m2)), bytes(pgpy.PGPMessage.from_blob(e2)) == e2)
        o = outcome(flow)
        if o != ('ok', (True, True, True, True, True)):
            ctx.fail('foreign', 'a literal read without a length field (body of %d octets) does not survive export / signing / export: '
                     '(content, content after signing, one signature, verifies, export is a fixed point) = %r' % (n, o), {'op': 'big-indeterminate', 'n': n})


def run_sequences(ctx, pgpy, d, K, fast, blobs):
    """arbitrary orders / multiplicities of well-formed packets: outcome and state of PGPMessage.parse vs model import"""
    rng = ctx.rng
    pool = []
    for case, blob in blobs[:60]:
        if case['comp'] == 0:
            pool += [unhx(d.call('frame', hn(t), hx(b))) for t, b in split_packets(d, blob)]
    pool = list(dict.fromkeys(pool))[:80]
    marker = b'\xca\x03PGP'
    mdc = b'\xd3\x14' + bytes(range(20))
    userid = b'\xcd\x03abc'
    ops4 = b'\xc4\x0d\x04' + bytes(12)
    extra = [marker, mdc, userid, ops4, b'\xc9\x05hello', b'\xd2\x03\x01zz', b'\xd2\x03\x02zz', b'\xc1\x03\x02zz', b'\xc3\x03\x05zz', b'\xc2\x03\x03zz',
             b'\xfc\x02hi']
    if not pool: return
    for _ in range(ctx.n(300, 3000)):
        k = rng.randrange(0, 6)
        seq = [rng.choice(pool if rng.random() < 0.7 else extra) for _ in range(k)]
        data = b''.join(seq)
        if rng.random() < 0.2 and data:
            alg = rng.randrange(4)
            cbody = bytes([alg]) + unhx(o_compress(hx(bytes([alg])), hx(data)))
            data = unhx(d.call('frame', '8', hx(cbody))) + (rng.choice(pool) if rng.random() < 0.3 else b'')
        if not data: continue
        o = outcome(pgpy.PGPMessage.from_blob, data)
        impl = state_of(o[1]) if o[0] == 'ok' else 'REJECT'
        cd = {'op': 'sequence', 'data': data.hex() if len(data) < 4000 else None, 'impl_exc': None if o[0] == 'ok' else o[1]}
        ctx.case('sequence', hashlib.sha1(data).hexdigest(), nontrivial=(o[0] == 'ok'), sample={'len': len(data), 'impl': impl[:80]})
        ctx.expect_eq('sequence', 'PGPMessage.parse / __or__ differs from model import', cd, impl, d.call('import', FUEL, hx(data)))
        if o[0] == 'ok' and o[1]._message is not None:
            # whatever was accepted: does its export stay inside the grammar?  (model export = implementation export)
            ob = outcome(lambda: bytes(o[1]))
            mo = d.call('reexport', FUEL, hx(data))
            ctx.case('sequence-reexport', hashlib.sha1(data).hexdigest(), nontrivial=(ob[0] == 'ok'))
            ctx.expect_eq('sequence', 're-export differs from model', cd, hx(ob[1]) if ob[0] == 'ok' else 'ERR', mo)


def replay(ctx, case):
    """re-run one recorded case on the implementation (+ model); True if it still fails"""
    pgpy = load_repo()
    d = GuardedDriver('c20', oracles={'compress': o_compress, 'decompress': o_decompress})
    tmp = tempfile.mkdtemp(prefix='c20_')
    try:
        K = Keys(ctx)
        before = len(ctx.violations) + len(ctx.known_hit)
        op = case.get('op')
        if op == 'time':
            return time_case(ctx, pgpy, case)
        if op == 'decrypted':
            return decrypted_case(ctx, pgpy, d, K, case, tmp)
        if op == 'contents':
            data = bytes.fromhex(case['data'])
            from pgpy.packet.packets import LiteralData
            lit = LiteralData(); lit.format = case.get('format', 't'); lit._contents = bytearray(data)
            oc = outcome(lambda: lit.contents)
            iv = 'ERR' if oc[0] != 'ok' else ('T ' + cps(oc[1])) if isinstance(oc[1], str) else ('B ' + hx(bytes(oc[1])))
            return iv != d.call('contents', hn(ord(lit.format)), hx(data))
        if op in ('sequence', 'foreign') and case.get('data'):
            data = bytes.fromhex(case['data'])
            o = outcome(pgpy.PGPMessage.from_blob, data)
            impl = state_of(o[1]) if o[0] == 'ok' else 'REJECT'
            return impl != d.call('import', FUEL, hx(data))
        if op == 'litparse':
            data = bytes.fromhex(case['data'])
            buf = bytearray(data)
            o = outcome(pgpy.packet.Packet, buf)
            if o[0] == 'ok':
                L = o[1]
                got = '%s %s %s %s %s' % (hn(ord(L.format)), cps(L.filename), hn(ts(L.mtime)), hx(bytes(L._contents)), hx(bytes(buf)))
            else:
                got = 'ERR'
            return got != d.call('litparse', hn(data[1]), hx(data[2:]))
        if 'content' in case:
            case = dict(case, content=regen_content(case['content']))
        if 'content' in case and ('hex' in case['content'] or 'text' in case['content']):
            check_export(ctx, pgpy, d, K, {k: v for k, v in case.items() if k not in ('got', 'want', 'how', 'impl', 'model')}, tmp)
            return len(ctx.violations) + len(ctx.known_hit) > before
        return True
    finally:
        d.close()
        shutil.rmtree(tmp, ignore_errors=True)
