"""Shared harness plumbing: model driver subprocess (with primitive-oracle RPC), run context,
case accounting, known findings, evidence."""
import hashlib, json, os, random, subprocess, sys, time, traceback

VERIF = os.path.abspath(os.path.join(os.path.dirname(__file__), '..', '..'))
REPO = os.environ.get('VERIF_REPO', '/repo')


def hx(b):
    """bytes -> wire hex ('-' for empty, the driver convention)"""
    b = bytes(b)
    return b.hex() if b else '-'


def unhx(s):
    return b'' if s == '-' else bytes.fromhex(s)


def hn(i):
    """int -> hex number string"""
    return ('-%x' % -i) if i < 0 else ('%x' % i)


def unhn(s):
    return int(s, 16)


class DriverError(Exception):
    pass


class Driver:
    """Extracted-model subprocess.  call('cmd', 'arg', ...) -> answer string (without '=')."""

    def __init__(self, name, oracles=None):
        self.path = os.path.join(VERIF, 'bin', 'drv_' + name)
        if not os.path.exists(self.path):
            raise DriverError('driver binary missing: ' + self.path)
        self.oracles = dict(oracles or {})
        self.oracle_calls = 0
        self.p = subprocess.Popen([self.path], stdin=subprocess.PIPE, stdout=subprocess.PIPE, text=True, bufsize=1)

    def call(self, *parts):
        line = ' '.join(str(p) for p in parts)
        self.p.stdin.write(line + '\n')
        self.p.stdin.flush()
        while True:
            r = self.p.stdout.readline()
            if not r:
                raise DriverError('driver died on: ' + line[:200])
            r = r.rstrip('\n')
            if r.startswith('?'):
                f = r[1:].split(' ')
                self.oracle_calls += 1
                try:
                    ans = self.oracles[f[0]](*f[1:])
                except Exception as ex:  # an oracle refusal is a value, not a crash
                    ans = 'ERR'
                self.p.stdin.write(ans + '\n')
                self.p.stdin.flush()
            elif r.startswith('='):
                return r[1:]
            else:
                raise DriverError('driver: %s (on %s)' % (r, line[:200]))

    def batch(self, lines, chunk=400):
        """many commands that need no oracle: pipelined in chunks (avoids one syscall round trip per case)"""
        out = []
        parts, cur, size = [], [], 0
        for ln in lines:
            if cur and (len(cur) >= chunk or size + len(ln) > 20000):
                parts.append(cur); cur, size = [], 0
            cur.append(ln); size += len(ln) + 1
        if cur: parts.append(cur)
        for part in parts:
            self.p.stdin.write('\n'.join(part) + '\n')
            self.p.stdin.flush()
            for ln in part:
                r = self.p.stdout.readline().rstrip('\n')
                if r.startswith('='):
                    out.append(r[1:])
                elif r.startswith('?'):
                    raise DriverError('oracle query inside batch: ' + ln[:100])
                else:
                    raise DriverError('driver: %s (on %s)' % (r, ln[:200]))
        return out

    def close(self):
        try:
            self.p.stdin.close()
            self.p.wait(timeout=5)
        except Exception:
            self.p.kill()


def outcome(fn, *a, **k):
    """Run an implementation call; canonicalise to ('ok', value) | ('raise', excname)."""
    try:
        return ('ok', fn(*a, **k))
    except Exception as ex:
        return ('raise', type(ex).__name__)


class CallTimeout(BaseException):
    pass


def outcome_timed(seconds, fn, *a, **k):
    """like outcome(), but a call that runs longer than `seconds` is aborted and canonicalised to ('raise', 'CallTimeout').
    (PGPy loops `declared length` times over some subpacket bodies: a mutated length octet can make one parse take hours.)
    Main thread only (uses SIGALRM)."""
    import signal

    def _h(signum, frame):
        raise CallTimeout()
    old = signal.signal(signal.SIGALRM, _h)
    signal.setitimer(signal.ITIMER_REAL, seconds)
    try:
        return ('ok', fn(*a, **k))
    except CallTimeout:
        return ('raise', 'CallTimeout')
    except Exception as ex:
        return ('raise', type(ex).__name__)
    finally:
        signal.setitimer(signal.ITIMER_REAL, 0)
        signal.signal(signal.SIGALRM, old)


class Ctx:
    def __init__(self, prop, tier, seed):
        self.prop = prop
        self.tier = tier
        self.seed = seed
        self.rng = random.Random(seed)
        self.t0 = time.time()
        self.evaluations = 0
        self.distinct = set()
        self.samples = []
        self.dist = {}
        self.violations = []      # dicts: {suite, what, case}
        self.known_hit = {}       # key -> witness description
        self.exhaustive = []
        self.skipped = []
        self.notes = []
        kf = json.load(open(os.path.join(VERIF, 'known_findings.json')))
        self.findings = {e['key']: e for e in kf['entries'] if e['property'] == prop and e['kind'] == 'finding'}
        self.fixed = [e for e in kf['entries'] if e['property'] == prop and e['kind'] == 'fixed']

    @property
    def quick(self):
        return self.tier == 'quick'

    def n(self, quick, thorough):
        return quick if self.quick else thorough

    def case(self, suite, key, nontrivial=True, sample=None):
        """account one evaluated case; key = canonical description used for distinctness"""
        self.evaluations += 1
        self.dist[suite] = self.dist.get(suite, 0) + 1
        if nontrivial:
            h = hashlib.sha1((suite + '|' + repr(key)).encode()).digest()[:8]
            self.distinct.add(h)
        if sample is not None and sum(1 for s in self.samples if s.get('suite') == suite) < 3:
            self.samples.append({'suite': suite, 'case': sample})

    def fail(self, suite, what, case, defect_key=None):
        """a property failure on the implementation (or a model/implementation disagreement).
        defect_key names a known-finding class; listed -> KNOWN-FINDING, else violation."""
        if defect_key is not None and defect_key in self.findings:
            self.known_hit.setdefault(defect_key, case)
            return
        if len(self.violations) < 50:
            self.violations.append({'suite': suite, 'what': what, 'case': case, 'defect_class': defect_key})

    def expect_eq(self, suite, what, case, impl, model, defect_key=None):
        if impl != model:
            self.fail(suite, what, dict(case, impl=repr(impl)[:400], model=repr(model)[:400]), defect_key)
            return False
        return True


def load_repo():
    """make /repo's pgpy importable (and only that one)"""
    if REPO not in sys.path:
        sys.path.insert(0, REPO)
    import warnings
    warnings.filterwarnings('ignore')
    import pgpy
    assert os.path.abspath(pgpy.__file__).startswith(os.path.abspath(REPO)), pgpy.__file__
    return pgpy


class Batch:
    """collect (model command, implementation answer) pairs and compare them after one pipelined driver run"""

    def __init__(self, ctx, d, suite, what):
        self.ctx, self.d, self.suite, self.what = ctx, d, suite, what
        self.items = []

    def add(self, cmd, impl, case, defect_key=None, post=None):
        self.items.append((cmd, impl, case, defect_key, post))
        if len(self.items) >= 5000:
            self.flush()

    def flush(self):
        if not self.items:
            return
        ans = self.d.batch([i[0] for i in self.items])
        for (cmd, impl, case, dk, post), a in zip(self.items, ans):
            self.ctx.expect_eq(self.suite, self.what, case, impl, a, dk)
            if post is not None:
                post(a)
        self.items = []
