"""Shared pool of test keys (secret key material for TESTING ONLY), cached as armored blobs under /verif/corpus/keys/.
get(name) returns a *fresh* PGPKey object every time (loaded from the cached blob), so callers may mutate it freely.
A key missing from the cache is generated with PGPKey.new, given one user id and (where stated) subkeys, and saved.
Key generation is the slow part of every crypto harness (DSA-2048 ~ seconds), hence the cache; nothing here is a check."""
import os, warnings
from datetime import datetime, timezone

from .common import VERIF, load_repo

DIR = os.path.join(VERIF, 'corpus', 'keys')
T0 = datetime(2020, 1, 2, 3, 4, 5, tzinfo=timezone.utc)

# name -> (primary alg, size/curve, [(subkey alg, size/curve, usage flags)], uid)
SPECS = {
    'rsa2048':   ('RSAEncryptOrSign', 2048, [('RSAEncryptOrSign', 2048, 'enc')], 'Alice RSA (test) <alice@example.com>'),
    'rsa3072':   ('RSAEncryptOrSign', 3072, [], 'Bob RSA <bob@example.com>'),
    'rsa1024':   ('RSAEncryptOrSign', 1024, [], 'Weak RSA <weak@example.com>'),
    # modulus length that is not a multiple of 8 bits (octet length = ceiling): about one signature in three is a value below 2^2048
    'rsa2050':   ('RSAEncryptOrSign', 2050, [], 'Odd RSA <odd@example.com>'),
    'dsa2048':   ('DSA', 2048, [], 'Dora DSA <dora@example.com>'),
    'dsa1024':   ('DSA', 1024, [], 'Weak DSA <weakdsa@example.com>'),
    'ed25519':   ('EdDSA', 'Ed25519', [('ECDH', 'Curve25519', 'enc'), ('EdDSA', 'Ed25519', 'sign')], 'Eve Ed (comment) <eve@example.com>'),
    'ed25519b':  ('EdDSA', 'Ed25519', [('ECDH', 'Curve25519', 'enc')], 'Frank Ed <frank@example.com>'),
    'p256':      ('ECDSA', 'NIST_P256', [('ECDH', 'NIST_P256', 'enc')], 'Pat P256 <pat@example.com>'),
    'p384':      ('ECDSA', 'NIST_P384', [('ECDH', 'NIST_P384', 'enc')], 'Quinn P384 <quinn@example.com>'),
    'p521':      ('ECDSA', 'NIST_P521', [('ECDH', 'NIST_P521', 'enc')], 'Rae P521 <rae@example.com>'),
    'secp256k1': ('ECDSA', 'SECP256K1', [('ECDH', 'SECP256K1', 'enc')], 'Sam K1 <sam@example.com>'),
    # primary key id AND encryption subkey id begin with a zero octet (found by search; ids are numbers to some code paths)
    'zeroid':    ('EdDSA', 'Ed25519', [('ECDH', 'Curve25519', 'enc')], 'Zoe Zero <zoe@example.com>'),
}


def _build(name):
    pgpy = load_repo()
    from pgpy.constants import PubKeyAlgorithm as A, EllipticCurveOID as C, KeyFlags as F, HashAlgorithm as H, \
        SymmetricKeyAlgorithm as S, CompressionAlgorithm as Z
    alg, size, subs, uid = SPECS[name]
    sz = getattr(C, size) if isinstance(size, str) else size
    want0 = name == 'zeroid'
    key = pgpy.PGPKey.new(getattr(A, alg), sz, created=T0)
    while want0 and not str(key.fingerprint.keyid).startswith('00'):
        key = pgpy.PGPKey.new(getattr(A, alg), sz, created=T0)
    nm, rest = uid.split(' <')
    comment = ''
    if '(' in nm:
        nm, comment = nm.split(' (')
        comment = comment.rstrip(')')
    u = pgpy.PGPUID.new(nm.strip(), comment=comment, email=rest.rstrip('>'))
    key.add_uid(u, usage={F.Sign, F.Certify}, hashes=[H.SHA256, H.SHA512], ciphers=[S.AES256, S.AES128],
                compression=[Z.ZLIB, Z.Uncompressed], created=T0)
    for salg, ssize, usage in subs:
        ssz = getattr(C, ssize) if isinstance(ssize, str) else ssize
        sk = pgpy.PGPKey.new(getattr(A, salg), ssz, created=T0)
        while want0 and not str(sk.fingerprint.keyid).startswith('00'):
            sk = pgpy.PGPKey.new(getattr(A, salg), ssz, created=T0)
        fl = {F.EncryptCommunications, F.EncryptStorage} if usage == 'enc' else {F.Sign}
        key.add_subkey(sk, usage=fl, created=T0)
    return key


def get(name):
    """fresh private PGPKey for `name` (see SPECS); raises if the local OpenSSL cannot build it"""
    pgpy = load_repo()
    os.makedirs(DIR, exist_ok=True)
    p = os.path.join(DIR, name + '.asc')
    if not os.path.exists(p):
        with warnings.catch_warnings():
            warnings.simplefilter('ignore')
            k = _build(name)
        with open(p, 'w') as f:
            f.write(str(k))
    with warnings.catch_warnings():
        warnings.simplefilter('ignore')
        k, _ = pgpy.PGPKey.from_file(p)
    return k


def available(names=None):
    out = []
    for n in (names or SPECS):
        try:
            get(n); out.append(n)
        except Exception:
            pass
    return out


if __name__ == '__main__':
    import time
    for n in SPECS:
        t = time.time()
        try:
            k = get(n)
            print(n, k.fingerprint, len(k.subkeys), round(time.time() - t, 2))
        except Exception as ex:
            print(n, 'UNAVAILABLE', type(ex).__name__, ex)
