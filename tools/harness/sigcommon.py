"""Shared helpers for the signature properties (C01, C02, C05): an independent OpenPGP packet splitter,
independent signing / verification with `cryptography` directly (never through pgpy), subject extraction from
exported octets, signature packet assembly, hashed-area generators."""
import hashlib, struct

from cryptography.hazmat.primitives import hashes
from cryptography.hazmat.primitives.asymmetric import rsa, dsa, ec, ed25519, padding, utils
from cryptography.exceptions import InvalidSignature

from .common import hx, unhx, hn, unhn

HASHES = {1: 'md5', 2: 'sha1', 3: 'ripemd160', 8: 'sha256', 9: 'sha384', 10: 'sha512', 11: 'sha224'}
CHASH = {1: hashes.MD5, 2: hashes.SHA1, 8: hashes.SHA256, 9: hashes.SHA384, 10: hashes.SHA512, 11: hashes.SHA224}
try:
    hashlib.new('ripemd160')
    CHASH[3] = hashes.RIPEMD160
except Exception:
    HASHES.pop(3)


def digest(halg, data):
    return hashlib.new(HASHES[halg], data).digest()


# ---------- independent packet splitter (RFC 4880 4.2) ----------
def split_packets(data):
    """-> list of (tag, body, whole_packet_octets)"""
    out, i = [], 0
    data = bytes(data)
    while i < len(data):
        start = i
        o = data[i]; i += 1
        if not o & 0x80:
            raise ValueError('not a packet at %d' % start)
        if o & 0x40:
            tag = o & 0x3f
            body = b''
            while True:
                l = data[i]; i += 1
                if l < 192:
                    n, partial = l, False
                elif l < 224:
                    n, partial = ((l - 192) << 8) + data[i] + 192, False; i += 1
                elif l < 255:
                    n, partial = 1 << (l & 0x1f), True
                else:
                    n, partial = int.from_bytes(data[i:i + 4], 'big'), False; i += 4
                body += data[i:i + n]; i += n
                if not partial:
                    break
        else:
            tag = (o >> 2) & 0xf
            lt = o & 3
            if lt == 3:
                body = data[i:]; i = len(data)
            else:
                w = (1, 2, 4)[lt]
                n = int.from_bytes(data[i:i + w], 'big'); i += w
                body = data[i:i + n]; i += n
        out.append((tag, body, data[start:i]))
    return out


def new_header(tag, n):
    if n < 192: l = bytes([n])
    elif n < 8384: l = bytes([((n - 192) >> 8) + 192, (n - 192) & 0xff])
    else: l = b'\xff' + n.to_bytes(4, 'big')
    return bytes([0xc0 | tag]) + l


def mpi(v):
    return v.bit_length().to_bytes(2, 'big') + (v.to_bytes((v.bit_length() + 7) // 8, 'big') if v else b'')


def read_mpis(b):
    out, i = [], 0
    while i + 2 <= len(b):
        bits = int.from_bytes(b[i:i + 2], 'big'); n = (bits + 7) // 8
        out.append(int.from_bytes(b[i + 2:i + 2 + n], 'big')); i += 2 + n
    return out


# ---------- key components from exported octets ----------
def exported_components(key):
    """independent view of a key: parse bytes(key.pubkey) -> {'primary': body, 'subkeys': [body...], 'uids': [...], 'uattrs': [...]}"""
    pub = key if key.is_public else key.pubkey
    pk = split_packets(bytes(pub))
    comp = {'primary': None, 'subkeys': [], 'uids': [], 'uattrs': []}
    for tag, body, _ in pk:
        if tag == 6: comp['primary'] = body
        elif tag == 14: comp['subkeys'].append(body)
        elif tag == 13: comp['uids'].append(body)
        elif tag == 17: comp['uattrs'].append(body)
    return comp


# ---------- independent crypto objects from PGPy key material numbers ----------
def indep_key(pgpkey):
    """(alg id, public object, private object or None) built from the raw numbers of a pgpy key"""
    km = pgpkey._key.keymaterial
    alg = int(pgpkey.key_algorithm)
    priv = None
    if alg in (1, 2, 3):
        pubn = rsa.RSAPublicNumbers(int(km.e), int(km.n))
        pub = pubn.public_key()
        if hasattr(km, 'd') and int(km.d):
            p, q, d = int(km.p), int(km.q), int(km.d)
            priv = rsa.RSAPrivateNumbers(p, q, d, rsa.rsa_crt_dmp1(d, p), rsa.rsa_crt_dmq1(d, q), rsa.rsa_crt_iqmp(p, q), pubn).private_key()
    elif alg == 17:
        pn = dsa.DSAParameterNumbers(int(km.p), int(km.q), int(km.g))
        pubn = dsa.DSAPublicNumbers(int(km.y), pn)
        pub = pubn.public_key()
        if hasattr(km, 'x') and int(km.x):
            priv = dsa.DSAPrivateNumbers(int(km.x), pubn).private_key()
    elif alg == 19:
        curve = km.oid.curve()
        pub = ec.EllipticCurvePublicNumbers(int(km.p.x), int(km.p.y), curve).public_key()
        if hasattr(km, 's') and int(km.s):
            priv = ec.derive_private_key(int(km.s), curve)
    elif alg == 22:
        pub = ed25519.Ed25519PublicKey.from_public_bytes(bytes(km.p.x))
        if hasattr(km, 's') and int(km.s):
            priv = ed25519.Ed25519PrivateKey.from_private_bytes(int(km.s).to_bytes(32, 'big'))
    else:
        raise NotImplementedError(alg)
    return alg, pub, priv


def indep_verify(alg, pub, halg, data, mpis):
    """RFC 4880 5.2.2 / 13.x: verify the signature integers over hash(data)"""
    dg = digest(halg, data)
    try:
        if alg in (1, 3):
            n = pub.public_numbers().n
            pub.verify(mpis[0].to_bytes((n.bit_length() + 7) // 8, 'big'), dg, padding.PKCS1v15(), utils.Prehashed(CHASH[halg]()))
        elif alg == 17:
            pub.verify(utils.encode_dss_signature(mpis[0], mpis[1]), dg, utils.Prehashed(CHASH[halg]()))
        elif alg == 19:
            pub.verify(utils.encode_dss_signature(mpis[0], mpis[1]), dg, ec.ECDSA(utils.Prehashed(CHASH[halg]())))
        elif alg == 22:
            pub.verify(mpis[0].to_bytes(32, 'big') + mpis[1].to_bytes(32, 'big'), dg)
        else:
            return False
        return True
    except (InvalidSignature, ValueError, OverflowError, IndexError):
        return False


def indep_sign(alg, priv, halg, data):
    dg = digest(halg, data)
    if alg in (1, 3):
        return [int.from_bytes(priv.sign(dg, padding.PKCS1v15(), utils.Prehashed(CHASH[halg]())), 'big')]
    if alg == 17:
        return list(utils.decode_dss_signature(priv.sign(dg, utils.Prehashed(CHASH[halg]()))))
    if alg == 19:
        return list(utils.decode_dss_signature(priv.sign(dg, ec.ECDSA(utils.Prehashed(CHASH[halg]())))))
    if alg == 22:
        s = priv.sign(dg)
        return [int.from_bytes(s[:32], 'big'), int.from_bytes(s[32:], 'big')]
    raise NotImplementedError(alg)


# ---------- signature packets ----------
def subpacket(t, body, critical=False, lenform=0):
    """lenform 0 = shortest, 1 = two-octet (if representable), 2 = five-octet"""
    n = len(body) + 1
    if lenform == 2 or n >= 16320:
        l = b'\xff' + n.to_bytes(4, 'big')
    elif (lenform == 1 and n >= 192) or n >= 192:
        l = bytes([((n - 192) >> 8) + 192, (n - 192) & 0xff])
    else:
        l = bytes([n])
    return l + bytes([t | (0x80 if critical else 0)]) + body


def area(sps):
    b = b''.join(sps)
    return len(b).to_bytes(2, 'big') + b


def sig_body(sigtype, pkalg, halg, hashed, unhashed, hash2, mpis):
    """v4 signature packet body (with version octet); hashed / unhashed include their two-octet counts"""
    return bytes([4, sigtype, pkalg, halg]) + hashed + unhashed + hash2 + b''.join(mpi(m) for m in mpis)


def sig_packet(body):
    return new_header(2, len(body)) + body


def parse_sig_packet(pkt):
    """independent split of an exported signature packet: -> (body_after_version, version)"""
    (tag, body, _), = split_packets(pkt)[:1]
    assert tag == 2
    return body[1:], body[0]


def signed_message_maker(d, alg, ipriv, keyid, fpr, fmt, body, st, hv, n):
    """one-pass + literal + signature written by the independent signer over `body` (RFC 4880 5.2.4: the literal's octets as
    they are; canonical text form for type 0x01).  Returns assemble(body2=body, fmt2=fmt) -> message octets carrying the SAME
    signature around a (possibly different) literal body."""
    hashed = area([subpacket(2, (1600100000 + n).to_bytes(4, 'big')), subpacket(33, b'\x04' + fpr)])
    unhashed = area([subpacket(16, keyid)])
    data = model_hashdata(d, 4, st, alg, hv, hashed, ('doc', body), rfc=True)
    mp = indep_sign(alg, ipriv, hv, data)
    sb = sig_body(st, alg, hv, hashed, unhashed, digest(hv, data)[:2], mp)
    ops = bytes([3, st, hv, alg]) + keyid + b'\x01'

    def assemble(body2=body, fmt2=fmt):
        lit = bytes([ord(fmt2), 3]) + b'f.x' + (1600000000).to_bytes(4, 'big') + body2
        return new_header(4, len(ops)) + ops + new_header(11, len(lit)) + lit + sig_packet(sb)
    return assemble


# ---------- model calls ----------
def subj_args(s):
    """('doc', b) | ('key', kb) | ('uid', kb, u) | ('uattr', kb, ua) | ('subkey', pb, sb) -> driver words"""
    return ' '.join([s[0]] + [hx(x) for x in s[1:]])


def model_hashdata(d, ver, t, pk, h, hashed, subj, rfc=False):
    r = d.call('rfc_hashdata' if rfc else 'hashdata', hn(ver), hn(t), hn(pk), hn(h), hx(hashed), subj_args(subj))
    return None if r == 'ERR' else unhx(r)


def model_sig_parse(d, body_after_version):
    r = d.call('sig_parse', hx(body_after_version))
    if r == 'ERR':
        return None
    t, pk, h, raw, h2, mp, hs, us = r.split(' ')
    def sps(x):
        x = x[2:]
        out = []
        for it in (x.split(',') if x else []):
            a, b = it.split(':')
            out.append((int(a.rstrip('!'), 16), a.endswith('!'), unhx(b)))
        return out
    return {'type': unhn(t), 'pkalg': unhn(pk), 'halg': unhn(h), 'raw': unhx(raw), 'hash2': unhx(h2), 'mpis': unhx(mp),
            'hashed': sps(hs), 'unhashed': sps(us)}


def issuer_of(parsed):
    for t, c, b in parsed['unhashed'] + parsed['hashed']:
        if t == 16:
            return b.hex().upper()
    return None


# ---------- pinned source text (models written against exactly this text; a change is reported through ctx.broken) ----------
def src_digest(obj):
    import inspect
    return hashlib.sha256(inspect.getsource(obj).encode()).hexdigest()[:16]


def check_pins(ctx, pins):
    """pins: list of (label, object, expected digest or None).  None -> print the digest (development aid)"""
    for label, obj, want in pins:
        try:
            got = src_digest(obj)
        except Exception as ex:
            ctx.broken.append('pinned source of %s cannot be read: %r' % (label, ex)); continue
        if want is None:
            ctx.notes.append('pin %s = %s' % (label, got))
        elif got != want:
            ctx.broken.append('pinned source of %s changed (sha256/16 %s, model written against %s): re-inspect the model' % (label, got, want))


def sig_pins(pgpy):
    from pgpy.pgp import PGPSignature, PGPKey, PGPMessage
    from pgpy.packet.fields import SubPackets, RSAPub, DSAPub, ECDSAPub, EdDSAPub, DSASignature, EdDSASignature
    from pgpy.packet.packets import SignatureV4
    return [
        ('PGPSignature.hashdata', PGPSignature.hashdata, PIN.get('PGPSignature.hashdata')),
        ('PGPKey.verify', PGPKey.verify, PIN.get('PGPKey.verify')),
        ('PGPMessage._signed_data', getattr(getattr(PGPMessage, '_signed_data', None), 'fget', None), PIN.get('PGPMessage._signed_data')),
        ('SubPackets.parse', SubPackets.parse, PIN.get('SubPackets.parse')),
        ('SubPackets.__hashbytearray__', SubPackets.__hashbytearray__, PIN.get('SubPackets.__hashbytearray__')),
        ('SubPackets.__setitem__', SubPackets.__setitem__, PIN.get('SubPackets.__setitem__')),
        ('SubPackets.__copy__', SubPackets.__copy__, PIN.get('SubPackets.__copy__')),
        ('SignatureV4.parse', SignatureV4.parse, PIN.get('SignatureV4.parse')),
        ('SignatureV4.__bytearray__', SignatureV4.__bytearray__, PIN.get('SignatureV4.__bytearray__')),
        ('RSAPub.verify', RSAPub.verify, PIN.get('RSAPub.verify')),
        ('DSAPub.verify', DSAPub.verify, PIN.get('DSAPub.verify')),
        ('ECDSAPub.verify', ECDSAPub.verify, PIN.get('ECDSAPub.verify')),
        ('EdDSAPub.verify', EdDSAPub.verify, PIN.get('EdDSAPub.verify')),
        ('DSASignature.from_signer', DSASignature.from_signer, PIN.get('DSASignature.from_signer')),
        ('EdDSASignature.from_signer', EdDSASignature.from_signer, PIN.get('EdDSASignature.from_signer')),
    ]


PIN = {'PGPSignature.hashdata': '2981eddc50082cba',
       'PGPKey.verify': 'b4ccb00a9d710ba8',
       'PGPMessage._signed_data': '1902d60c80829d4b',
       'SubPackets.parse': '1d7cdef3cf8b027b',
       'SubPackets.__hashbytearray__': '9409a500cab97232',
       'SubPackets.__setitem__': 'cb36ba630cfe8fd5',
       'SubPackets.__copy__': 'c4e3c8b8af06fa0c',
       'SignatureV4.parse': '512042916c6de1d9',
       'SignatureV4.__bytearray__': '8c43135a6b43f860',
       'RSAPub.verify': '8d2365a5e2675812',
       'DSAPub.verify': '193d676b2bbc578b',
       'ECDSAPub.verify': 'd6924db65cca3f88',
       'EdDSAPub.verify': '332acaddbb37d8cc',
       'DSASignature.from_signer': 'ee3ee71cfba56746',
       'EdDSASignature.from_signer': '37b916a6bc2615b1'}
