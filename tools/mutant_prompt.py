#!/venv/bin/python
"""print the brief for a fresh mutant-writing sub-agent for one property (property text only; nothing from /verif)"""
import json, sys
pid, n = sys.argv[1], int(sys.argv[2]) if len(sys.argv) > 2 else 2
p = [json.loads(l) for l in open('/verif/properties.jsonl') if json.loads(l)['id'] == pid][0]
wt = '/tmp/mut_%s' % pid.lower()
print(f"""You are testing how well a verification effort detects regressions in the Python library PGPy (an OpenPGP implementation). You get ONE semantic property of the library. Your job: write {n} DIFFERENT realistic changes to the library source that each BREAK this property while the library still imports and the existing test suite still passes, each with a demonstration.

Rules
* Work ONLY in your own scratch git worktree: create it with `git -C /repo worktree add --detach {wt} HEAD` and edit files under {wt}/pgpy/ only. Never edit /repo itself. Do NOT read, list or touch anything under /verif (it must stay unknown to you). Outputs go under {wt}_out/ (create it).
* The property (id {pid}): {p['title']}
  Statement: {p['statement']}
  Quantified over: {p['quantifier']['text']}
  Why the existing tests cannot settle it: {p['why_tests_cant']}
  Code it is anchored in: {json.dumps(p['anchors']['files'])}; mechanisms: {json.dumps([m['name'] + ' @ ' + m['where'] for m in p['anchors']['mechanism']])}
* Each change must need something SPECIFIC to manifest — a particular unusual input or value, a boundary, a multi-step sequence of operations, a particular interleaving, or two cooperating sites that each look fine alone — not something ordinary use or a one-line smoke test would expose at once. Prefer subtle, plausible edits (an off-by-one at a boundary, a dropped component of hashed/encoded data, a wrong branch for a rare case, a stale cache) over crude ones (raise everywhere, return constant). The {n} changes must break the property in different ways / at different code sites. Each change is independent (apply each to a clean checkout of HEAD).
* For EACH change k = 1..{n}:
  1. make the edit in the worktree; save it as {wt}_out/k/patch.diff with `git -C {wt} diff > ...` (it must apply to /repo HEAD with `git apply`);
  2. confirm the library still passes the existing suite WITH the change: `cd {wt} && /venv/bin/python -m pytest -q -p no:cacheprovider --timeout=900 2>&1 | tail -3` must report 1010 passed (same as without the change; it takes about a minute);
  3. write {wt}_out/k/demo.py: a small stand-alone program that takes the path of a PGPy checkout as argv[1], puts it first on sys.path, exercises the library and exits with status 1 (printing what went wrong) when the property is violated and 0 when it holds. It must exit 1 on your changed worktree and 0 on the unchanged /repo: run both (`/venv/bin/python demo.py {wt}` and `/venv/bin/python demo.py /repo`) and record the outputs;
  4. write {wt}_out/k/meta.json: {{"property": "{pid}", "summary": "...", "needs_to_manifest": "...", "files_changed": [...], "suite_result": "...", "demo_on_mutant": "...", "demo_on_original": "..."}};
  5. `git -C {wt} checkout -- .` before the next change.
* When done remove the worktree: `git -C /repo worktree remove --force {wt}` (keep {wt}_out). Python to use: /venv/bin/python. No network. Key generation: RSA-2048/EdDSA/ECDSA are fast; avoid DSA key generation.
* Final answer: for each change one paragraph (what, where, why the suite misses it, what manifests it) and the paths of the files.""")
