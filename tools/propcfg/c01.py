from props import cfg

CFG = cfg('C01', refine=['Refine_sig'], extract='Ex_Sig', driver='sig',
          rule='for every signature PGPy makes over keys x signature types (0x00,0x01,0x02,0x40,0x10-0x13,0x16,0x1F,0x18,0x19,0x20,0x28,0x30) '
               'x option sets: baseline verifies; per-entry verdict == extracted model with the primitive answered by cryptography on raw numbers; '
               'then every mutation class of the property: subject (extend/truncate/flip, other uid, forged uid, other key), signature type among '
               'same-shape types, pk algorithm id, hash algorithm id, each (quick: sampled) octet of the hashed area, MPI bits, other key, altered key '
               'material, carriers (literal data inside a message, user id inside a key): result must be falsy or raise. '
               'non-trivial = a mutation that reached verification; distinct by (key, label, mutation)',
          trusted=['Spec/Rfc4880_sig.v', 'primitive oracle = hashlib / cryptography'],
          assumptions=['unforgeability of RSA / DSA / ECDSA / EdDSA and collision resistance of the hash functions are premises (partial)'])

TEXT = ('Rocq theorems (Props/C01.v, closed): the hash input is an injective function of (subject, signature type, both algorithm ids, hashed area) '
        'for all well-formed inputs (hashdata_injective, by reading the trailer from the end and peeling the 0x99/0xB4/0xD1 framing), any change of a '
        'header field or hashed octet changes the hash input for any subjects, and PGPKey.verify records success for a pair only through the primitive '
        'on exactly that input and never under a disqualifying issue; a signature carried in a literal message covers the literal\'s octets '
        '(Model/SignedMsg.v: C01_msg_binary_injective; the pre-repair rule that hashed two encodings of one text alike is refuted). PARTIAL: unforgeability / collision resistance are premises, not theorems. '
        'Tie: hash-input and per-entry verdict correspondence with the extracted model + mutation search on the real code over every mutation class.',
        'DESIGN.md 5 C01',
        'machine-checked proof in Rocq (Coq 8.16.1) + extracted-model correspondence + mutation enumeration')
