from props import cfg

CFG = cfg('C02', refine=['Refine_sig'], extract='Ex_Sig', driver='sig',
          rule='(a) every signature PGPy makes over the grid keys x hashes x signature types (0x00,0x01,0x02,0x40,0x10-0x13,0x16,0x1F,0x18,'
               '0x19 embedded,0x20,0x28,0x30) x option sets is exported, split by an independent packet splitter, parsed by the extracted model, '
               'its hash input recomputed by the extracted RFC transcription from exported octets only and verified with `cryptography` on the '
               'raw public numbers; (b) signatures assembled from the Spec hash input + raw private numbers must verify under PGPy. '
               'non-trivial = a case that reached the cryptographic verification; distinct by (label, signature octets)',
          trusted=['Spec/Rfc4880_sig.v (RFC 4880 5.2.4 transcription)', 'primitive oracle = hashlib / cryptography (the same libraries PGPy calls)'],
          assumptions=['signature primitives (RSA PKCS#1 v1.5, DSA, ECDSA, Ed25519) and hash functions are taken from cryptography/hashlib on both sides'])

TEXT = ('Rocq theorems (Props/C02.v, closed): the hash input PGPy builds equals the separately transcribed RFC 4880 5.2.4 function for every '
        'signature type and every subject (incl. text canonicalisation = split/strip CR/join for all octet strings, trailer, 0x99 / 0xB4 / 0xD1 framing). '
        'A signer model composed with the parser and verifier models (sign_body_parses, sign_export_parse_verify), DER / EdDSA value encodings, and what a '
        'signature on a literal MESSAGE covers (Model/SignedMsg.v: the literal\'s octets then the trailer; format octet, file name, time are not signed). '
        'Tie: the extracted Spec function + primitive oracle is the independent verifier of every PGPy-made signature and the independent signer whose '
        'signatures PGPy must accept; PGPSignature.hashdata is compared octet for octet with the model on every case.',
        'DESIGN.md 5 C02',
        'machine-checked proof in Rocq (Coq 8.16.1) + extracted-model correspondence with independent signer/verifier')
