from props import cfg

CFG = cfg('C03', refine=['Refine_encrypt'], extract='Ex_C03', driver='c03',
          rule='unit level (model function vs implementation function on the same octets): all 256 algorithm ids (membership, key and block size); '
               'encrypt_sk m with a stub key; decrypt_sk on chosen m (good / bad checksum / short / long / invalid algorithm); RSA left padding; '
               'the SEIPD gate on chosen plaintexts under every available cipher (valid, MDC damaged, repeat damaged, short, MDC over the wrong range); '
               'SEIPD encrypt with pinned prefix vs model vs RFC 5.13 transcription; PKCS#5 padding of every length 0..48 vs the library PGPy\'s sender calls, unpadding = the last lines of '
               'ECDHCipherText.decrypt run on chosen octets (key unwrap stubbed) on random / damaged paddings and on every block length 0..39 padded to 40 octets (RFC 6637 section 8) vs model vs an independent reader; '
               'RFC 6637 parameter block and KDF for every ECDH key vs ECKDF.derive_key; S2K oracle vs String2Key.derive_key; ephemeral point of every ECDH PKESK in the '
               'fixed-width RFC 6637 encoding (8/60 draws for P-521, 2/12 for the other curves) + independent decryptor + own re-parse; caller-supplied session keys of wrong and right length on the key AND the passphrase path '
               '(refusal class compared with the model); copies of encrypted messages; an RSA recipient whose modulus is no multiple of 8 bits long (2050 bits), messages encrypted by PGPy and by the model until ciphertexts with a leading zero octet have been met, decrypted by PGPy and the independent decryptor; RSA left padding on stub keys of 1023 / 2047 / 2050 / 3073 bits. '
               'message level: (a) independent decryptor: PGPy encrypts (9 ciphers x {rsa2048 subkey, rsa3072 primary, Curve25519 x2, P-256, P-384, P-521, secp256k1} x '
               'passphrases over 7 S2K hashes x 1..3 mixed recipients x bodies empty/text/unicode/binary/large/incompressible x 4 compressions x '
               'supplied/generated session key x signed x armored) -> the extracted model parses and decrypts through hashlib/cryptography -> plaintext packets '
               'must equal what PGPy encrypted, structure dump and re-emission must match, PGPy decrypts its own output as every recipient; '
               '(b) independent encryptor: model output (encrypt_to; packet-by-packet with direct-mode SKESK, foreign outer cipher, shuffled ESK order, ECDH m padded to 40 / 48 octets as an RFC 6637 sender hiding the key size may) -> '
               'PGPMessage.decrypt / PGPKey.decrypt must return the original. distinct = distinct canonical (suite, case) reaching a non-error path',
          trusted=['Spec/Rfc4880_enc.v, Spec/Rfc6637.v (RFC transcriptions)',
                   'primitive oracle: hashlib + cryptography/OpenSSL called directly by tools/harness/c03.py (the same libraries PGPy uses)',
                   'tools/harness/c03.py: independent S2K (RFC 4880 3.7.1), OID encoder, armor reader'],
          assumptions=['primitives are universally quantified functions with the stated premises (sha1_20, cfb_inverse, cfb_keeps_length, rsa_correct, '
                       'ecdh_agrees, wrap_inverse); their cryptographic strength is not part of any theorem',
                       'passphrase round trip: packets of OTHER passphrase recipients tried with this passphrase fail with a caught exception (premise of '
                       'C03_message_roundtrip_pass; SHA-1 gate strength)',
                       'key ids identify keys among recipients and the holder\'s key packets (premise of C03_message_roundtrip_key)',
                       'inner packet parsing after the gate (literal / compressed / signature packets) belongs to C08/C20; Python runtime reached only through the correspondence run',
                       'caller-supplied session keys of a length other than the cipher key size are refused on both paths (C03_wrong_length_refused, C03_skesk_wrong_length_refused) and outside the round-trip theorem (C03_pkesk_m_wrong_length_refuted)'])

TEXT = ('Rocq theorems (Props/C03.v, closed under the global context, primitives as universally quantified functions): SEIPD layout equals the RFC 4880 5.13 '
        'transcription and decrypt(encrypt) returns the data for all data, keys and prefixes of block size; PKESK m = RFC 5.1 and round-trips for every key of '
        'the cipher length (refuted otherwise); RSA ciphertext restoration incl. leading zero octets, to the modulus length in octets (bits + 7) / 8 for every modulus length (pre-repair width refuted: C03_rsa_pad_old_refuted); ECDH composition (RFC 6637 parameter block and KDF equal the '
        'transcription, PKCS#5 pad/unpad incl. any other PKCS#5 amount such as the RFC 6637 padding to 40 octets (C03_unpad_pad40, C03_pkesk_padded_roundtrip; refused by the pre-repair unpadder: C03_unpad_old_pad40_refuted), AES key wrap); SKESK incl. direct mode and foreign algorithm octet, wrong-length session keys refused on both paths; message-level round trip for every recipient of a mixed '
        'passphrase+key recipient list incl. subkey delegation; packet codecs (msg_parse after msg_emit is the identity on well-formed messages, incl. session key packets of algorithms without ciphertext class kept as opaque octets: C03_opaque_pkesk_roundtrip; the pre-repair reader refuted: C03_pkesk_parse_old_refuted) and the octets-to-octets corollaries. PARTIAL: primitives assumed, wrong-key false accepts are a premise. Tie: source-text pins + extracted model '
        'run as independent decryptor/encryptor against PGPy with hashlib/cryptography as primitive oracle.',
        'DESIGN.md 5 C03',
        'machine-checked proof in Rocq (Coq 8.16.1) + extracted-model correspondence (independent RFC 4880/6637 decryptor and encryptor)')
