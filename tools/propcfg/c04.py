from props import cfg

CFG = cfg('C04', refine=['Refine_encrypt'], extract='Ex_C03', driver='c03',
          rule='fault enumeration on real PGPy ciphertexts, each mutated message decrypted by the implementation (must raise or return the ORIGINAL plaintext) and by the '
               'extracted model through hashlib/cryptography (must agree on accept/reject and on the plaintext): every single-bit flip and truncation at every offset '
               'of a passphrase message and a Curve25519 message (quick; RSA-2048: every bit of headers / key id / algorithm / MPI bit count + sampled MPI and data octets), '
               'thorough: every bit of 10 messages over 3DES/CAST5/Blowfish/AES/Camellia x passphrase/RSA/ECDH(25519, P-256/384/521, secp256k1)/mixed recipients; '
               'extension, over-long / short header length, block swaps / deletions / duplications, MDC replaced / zeroed / removed, data emptied, version octet, '
               'tag 18 -> 9 re-framing incl. realigned downgrade forms, session-key packets reordered / duplicated / removed / foreign, splices between two messages '
               'with the same and with different session keys, session keys without data (PGPError), every session-key packet and the data packet re-tagged as each kind a message takes without a key (19, 11, 10, 8, 2, 4) as it stands and with a literal / marker header that swallows the rest written at body offset 0 and 20 (deterministic form of the single-bit flip C3 -> D3 that MDC.parse let through, repaired in 9b50cd0 / 08ffd01), the algorithm octet of every PKESK set to unlisted ids / listed ids without ciphertext class / the other listed encryption algorithms (quick and thorough: kept packet re-exported octet for octet, passphrase recipients still get the original, the addressed key is refused), exception CLASS at the decrypt stage compared with the model on every rejected input, faults made WITH the session key that damage exactly one gate condition (repeat octets, MDC header, digest range, digest length, MDC position), wrong passphrases, every non-recipient key; same-object histories (decrypt(right) then wrong / empty / one zero octet / non-recipient key on ONE message object, wrong-right-wrong-right, all recipients then strangers): a wrong secret must raise whatever was done with the object before, each step compared with the model; deterministic search for the legacy tag-9 downgrade finding. distinct = distinct (message, mutation, recipient)',
          trusted=['Spec/Rfc4880_enc.v (RFC 5.13/5.14 MDC validity)',
                   'primitive oracle: hashlib + cryptography/OpenSSL called directly by tools/harness/c03.py'],
          assumptions=['NOT a theorem: that no other ciphertext / session-key packet / passphrase passes the SHA-1 gate or the 16-bit checksum (SHA-1, CFB, RSA, AES-key-wrap strength); '
                       'explored by the fault enumeration only',
                       'mutations that turn a packet into a kind outside the model (signature, literal, key packets, partial lengths, GNU S2K) are checked by the direct oracle only '
                       '(counted as outside-model)',
                       'FINDING C04/legacy-sed-downgrade: PGPy still decrypts the legacy tag-9 packet (no MDC); the body of an integrity-protected packet re-framed as tag 9 always passes the '
                       '16-bit quick check and in about one message out of ten decrypts without error to a different plaintext; outside the gate theorems (which are about tag 18), '
                       'reproduced by the harness on every run',
                       'inner packet parsing after the gate belongs to C08/C20',
                       'the model is a pure function of (message octets, secret); state kept on a PGPMessage / PGPKey object between calls is outside the theorems and is '
                       'covered by the same-object-history suite only'])

TEXT = ('Rocq theorems (Props/C04.v, closed under the global context): IntegrityProtectedSKEDataV1.decrypt returns a plaintext IFF the trailing 22 octets are D3 14 || SHA-1(rest) and the '
        'repeated prefix octets match (equal to the RFC 4880 valid-MDC transcription), rejects everything shorter than an MDC packet, refuses only with PGPDecryptionError; '
        'decrypt_sk accepts IFF the key has the cipher\'s length and the 16-bit checksum matches, and every other outcome of it is PGPDecryptionError (C04_pkesk_open_reject_kinds, C04_pkesk_decrypt_sk_raise_kinds / _failure_is_decrypt); '
        'the unpadder accepts IFF the string is PKCS#5-padded (any amount: RFC 6637 section 8; C04_unpad_accept_iff); PGPKey.decrypt / PGPMessage.decrypt yield a plaintext only through those gates, '
        'a non-recipient key and session keys without data raise PGPError (C04_key_decrypt_no_data_raises), a session key packet kept as opaque octets for another recipient never yields a session key (C04_unknown_recipient_does_not_open, C04_opaque_only_never_opens), the failure classes of PGPKey.decrypt are enumerated (C04_key_decrypt_failure_kinds), the passphrase loop converts every caught failure into PGPDecryptionError. PARTIAL: gate STRUCTURE is proved, gate STRENGTH (SHA-1/CFB) is not; '
        'the harness enumerates every single-bit flip, truncation, splice, MDC replacement, wrong secret on real ciphertexts against the code and the extracted model.',
        'DESIGN.md 5 C04',
        'machine-checked proof in Rocq (Coq 8.16.1) of the gate logic + exhaustive fault enumeration with extracted-model correspondence')
