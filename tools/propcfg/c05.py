from props import cfg

CFG = cfg('C05', refine=['Refine_sig', 'Refine_subarea'], extract='Ex_Sig', driver='sig',
          rule='generated hashed areas (creation time + 0..5 subpackets drawn from: unknown types, flag octets 0..255 and multi-octet flags, '
               'booleans 0/1/other, UTF-8 and non-UTF-8 text in URI/notation/regex/reason/signer-id, non-minimal length encodings, preference '
               'lists, times, issuer forms, notation flags, revocation-key classes, critical unknown types) signed by the independent signer '
               'over the RAW octets: implementation accept/reject vs model, hashed octets == received region, PGPy must verify; every single-bit '
               'flip of the signed region and altered hashed-area lengths must not verify; single-subpacket grid. non-trivial = accepted by the implementation',
          trusted=['Spec/Rfc4880_sig.v', 'primitive oracle = hashlib / cryptography'],
          assumptions=['Ed25519 and SHA-256 from cryptography/hashlib on both sides'])

TEXT = ('Rocq theorems (Props/C05.v, closed): for every packet body the signature parser accepts, the octets fed to the hash for the '
        'signature header and hashed subpackets are literally the received octets (hashed_region_verbatim, hcontext_is_received), the kept region '
        'is exactly as long as its declared count (overrun rejected), and two accepted packets differing anywhere in the signed region never share a '
        'hash input (signed_region_change_changes_input, via the C01 trailer-injectivity lemmas); the SubPackets object as a state machine '
        '(Model/SubArea.v: parse, add to either area, copy, serialise): what is hashed stays the received area along every history of copies and unhashed '
        'additions, for every way the parsed objects might serialise, and no received octets survive an addition to their area (never_stale). Tie: correspondence of SignatureV4.parse / '
        'PGPSignature.hashdata with the extracted model on generated areas + independent signer end to end + exhaustive bit flips of the signed region.',
        'DESIGN.md 5 C05',
        'machine-checked proof in Rocq (Coq 8.16.1) + extracted-model correspondence + fault enumeration of the signed region')
