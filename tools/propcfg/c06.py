from props import cfg

CFG = cfg('C06', refine=['Refine_keyprotect'], extract='Ex_C06', driver='c06',
          rule='histories over {protect with an accepted or a refused cipher (Plaintext / IDEA / Twofish256: key must stay as it was), enter good/bad, '
               'exit, exception in scope, sign, decrypt, export, re-import, add_subkey (inside and outside an unlock scope: the attached subkey '
               'keeps its secret)} (scripted + random op lists, nested scopes, re-protect inside a scope) x {rsa2048+RSA subkey, dsa2048, p256+ECDH, ed25519+ECDH+EdDSA subkeys} x 9 ciphers x 7 S2K '
               'hashes x passphrases (ASCII, UTF-8, 1000+ chars, raw bytes) x S2K counts (incl. PGPy\'s 255); every protect: model predicts the '
               'exported secret part octet for octet from the observed (IV, salt) draws, the model reads bytes(key) back as an independent RFC 4880 '
               '5.5.3 reader and must recover the original integers; foreign forms WRITTEN by the model (usage 254/255 x simple/salted/iterated, '
               'on every key incl. DSA; GNU dummy / smartcard stub incl. the empty serial; protected primary with unprotected subkeys, which must '
               'unlock, work and keep the subkey secrets over every scope exit) must be read by PGPy; legacy usage octet keys (usage = cipher id AES128 / CAST5 / AES256, MD5 simple S2K, 16-bit checksum) '
               'written by the model AND compared with an RFC 4880 5.5.3 encoder written in the harness: loaded locked, exported identically, wrong '
               'passphrase refused, unlocked, used, re-protected; components protected differently (protected primary + unprotected subkeys, '
               'unprotected primary + protected subkeys, GNU-dummy primary + protected subkeys): protect while a component is locked only warns, '
               'unlock enters whenever a component is protected and locks exactly those components again, stubs are passed over; octet search of every secret MPI >= 16 octets in '
               'protected exports; object-graph walk for secret integers after every scope exit. distinct = distinct (suite, key, configuration / op list)',
          trusted=['Spec/Rfc4880_keyprotect.v (RFC 4880 5.5.3 / 3.7.1 / 3.2 transcription)',
                   'primitive oracle: cryptography (CFB of every cipher) and hashlib (SHA-1, S2K hashes) called directly by the harness; '
                   'RFC 4880 3.7.1 S2K re-implemented in tools/harness/c06.py'],
          assumptions=['cfb_dec k iv (cfb_enc k iv x) = x and length (sha1 x) = 20 (premises of the round-trip theorems, Section variables)',
                       'idealised acceptance gate (premise of C06_protect_never_encrypts_a_locked_component only): two passphrases the gate lets '
                       'through give the same integers -- under the 16-bit checksum about one wrong passphrase in 65536 is accepted by the code',
                       'public MPIs of a key are non-zero (PrivKeyV4.unlocked tests every MPI; the model tests the private ones)',
                       'CPython heap residue of freed integers / bytearrays is NOT modelled (partial): reachable object graph is checked instead',
                       'source text of PrivKey.encrypt_keyblob / decrypt_keyblob / clear, PGPKey.unlock / protect / add_subkey, PrivKeyV4.unlocked, '
                       'String2Key.parse / __bytearray__ / _experimental_parse / _experimental_bytearray is pinned by digest (encrypt_keyblob / '
                       'decrypt_keyblob are also translated by py2coq: Refine_keyprotect)',
                       'ElGamal secret keys cannot be generated here (same parse code as DSA, whose usage-255 form is exercised)'])

TEXT = ('Rocq theorems (Props/C06.v, closed under the global context; primitives universally quantified): the secret part PGPy writes equals the '
        'RFC 4880 5.5.3 transcription (also every foreign form the model writes); unprotect(protect) = the secret integers for usage 254 and 255 and '
        'every S2K type; the SHA-1 / 16-bit-checksum gate is the only path to acceptance; over ARBITRARY op lists: no open unlock scope => every '
        'protected packet is Locked with zero secrets (invariant by induction), every scope exit (normal, exception, failed enter half-way through '
        'the subkeys) clears the PROTECTED key material and only that (a subkey attached inside the scope keeps its secret; key material that is '
        'not protected is untouched by any history without protect), a refused protect leaves state and all later observations unchanged, '
        'protect only warns while ANY component is locked and -- after any history, under an idealised gate -- every protected component\'s '
        'ciphertext decrypts to its original secret integers (protect never encrypts a locked component), an unlock scope on a key whose components '
        'are protected differently leaves the key exactly as it was, the legacy usage-octet form round-trips (emit / parse / decrypt), '
        'a locked key refuses sign/decrypt, a wrong passphrase leaves the key as it was, the right one restores the integers (also under '
        'unprotected subkeys), GNU stubs (empty serial included) are read back as written, '
        'and every protected export is the value of a symbolic term with no secret outside the CFB plaintext. Tie: extracted model vs PGPy on '
        'histories; the model as independent reader of PGPy-protected keys and as writer of foreign forms PGPy must read. PARTIAL: CPython heap '
        'residue of freed secret integers is outside the model (object-graph reachability is checked instead).',
        'DESIGN.md 5 C06',
        'machine-checked proof in Rocq (Coq 8.16.1) + extracted-model correspondence with a primitive oracle')
