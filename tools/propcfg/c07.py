from props import cfg

CFG = cfg('C07', extract='Ex_C07', driver='c07',
          rule='key shapes (RSA 1024/2048, DSA 1024, Ed25519 with two subkeys, ECDSA/ECDH P-256, P-521, secp256k1; thorough: every corpus key) x '
               'histories on the private key (add user id, add user attribute, local non-exportable certification, third-party certification, '
               'user-id / subkey / key revocation, signing and encryption subkeys added; fixed plans quick, + random plans thorough), the twin derived '
               'at every point; twins derived EARLIER re-checked after every later addition; then protect -> locked twin -> unlocked twin -> copy while '
               'unlocked -> relocked -> re-imported: all forms must export identical public octets. For each twin: bytes() and de-armored str() read by '
               'the model packet splitter (tags within {6,14,13,17,2}), key packets read by the model key parser (fields = private key\'s public fields), '
               'RFC fingerprints of exported key packets = private key fingerprints = twin fingerprints, identities and exportable signatures equal, '
               'bytes(key.pubkey) = model export(pubkey_of) built from the private key\'s FIELDS (and bytes(key) = model export), literal search for '
               'every secret integer >= 16 octets (big/little endian, also while unlocked) and for the encrypted secret blob; sign / certify / revoke / '
               'revoker / bind / decrypt on derived, loaded (binary, armored), subkey, locked, unlocked objects and on public / private primary keys WITHOUT user id '
               '(twin derived before any add_uid, bare public-key packet loaded from bytes; add_uid too: PGPError required) vs the model decision table; '
               'a certify-only primary whose signing subkey is the component KeyAction selects: public twin / loaded public key refuse sign (is_public on the subkey), private key with only that subkey locked refuses sign (is_unlocked) and runs certify, the table fed with the attributes of the component the decorator\'s own usage() selects; '
               'private keys loaded with non-default ECDH KDF parameters (twin must carry them); '
               'private keys with a key packet of an algorithm id without a material class (21, 0; opaque primary, or opaque private subkey under an Ed25519 / RSA primary): '
               'PGPKey.pubkey and the subkey\'s pubkey must REFUSE with NotImplementedError (model pubkey_of = None), no half-built twin, key unchanged, private operations on the opaque primary raise; '
               'protect / unlock on public objects are warned no-ops. distinct = distinct (suite, key, stage, export hash)',
          trusted=['Spec/Rfc4880_keys.v (RFC 4880 12.2 fingerprint used on exported key packets)',
                   'hashlib SHA-1 (primitive oracle)'],
          assumptions=['PARTIAL: "the export contains no octet sequence of a secret integer" is proved as non-interference (the export is a function of '
                       'the public fields only) and tested as a literal substring search; it is not proved as a statement about substrings',
                       'user-id, user-attribute and signature packets are carried as opaque (header format, tag, body) triples; SorteDeque order is '
                       'modelled as list order; weak references between a key and its twin (propagation of later additions) are reached through the '
                       'correspondence run only',
                       'heap residue / garbage collection of secret integers is outside the model',
                       'source text of PrivKeyV4.pubkey, PGPKey.pubkey, PGPKey.__bytearray__, KeyAction.check_attributes, KeyAction.__call__ and the KeyAction arguments '
                       'of the seven operations are pinned'])

TEXT = ('Rocq theorems (Props/C07.v, closed under the global context): the public packet body is the first 6+publen octets of the secret body; '
        'PGPKey.pubkey is partial: it refuses a private key exactly when one of its key packets holds opaque material (no octet of undivided material is exported), and every twin it produces '
        'consists of public halves without secret part, with the private key\'s fingerprints; '
        'non-interference: two private keys with equal public fields, identities and signatures have EQUAL public twins and exports (or are both refused) whatever their '
        'secret integers, S2K parameters, ciphertext, checksums, lock state and secret-packet header formats; for keys of supported algorithms the twin and its export exist and the '
        'model packet splitter reads it back as exactly the twin\'s packets (uses the C09 header round-trip theorems for new- and old-format headers), '
        'all of them with tags in {6,14,13,17,2}, none 5 or 7; the exported key packets hash (RFC 4880 12.2) to the fingerprints the private key '
        'reports, identities and signature lists are unchanged; every private operation fails its KeyAction precondition on every state with '
        'is_public (exact reason when nothing else is wrong), and on locked keys; the total getter before repair 3c1c8c6 (pubkey_of_old: empty twin of opaque material, other fingerprint) is refuted and agrees with the repaired one on supported algorithms. PARTIAL: the literal "no secret octet sequence" claim is proved as '
        'non-interference and tested by substring search. Tie: extracted model run on the fields of real private keys through histories; pinned sources.',
        'DESIGN.md 5 C07',
        'machine-checked proof in Rocq (Coq 8.16.1) + extracted-model correspondence + literal secret search')
