from props import cfg

CFG = cfg('C08', refine=['Refine_subarea'], extra=['Props/C08_refuted.vo'], extract='Ex_C08', driver='c08',
          rule='every packet of every object PGPy emits (keys of each algorithm incl. protected forms under several ciphers, public twins, user '
               'attribute, signatures over the C02 option grid, messages: bodies x 4 compressions x filenames x signers, passphrase / RSA / ECDH '
               'encrypted) is split by an independent splitter and fed back one by one with trailing data: remaining buffer == trailing, '
               're-serialisation identical; the same bodies under foreign framings (old-format 1/2/4-octet, 5-octet, partial chunkings) and the '
               "repository's 56 GnuPG-made packet fixtures must normalise once (header length == body length, same body, fixed point); "
               'model correspondence (extracted format terms) on every canonical packet of a modelled type + model-encoded packets with generated '
               'values fed to PGPy; old-format key grown by protect(); generated foreign signature packets (hashed and unhashed areas with every legal length '
               'form, multi-octet flags, unknown types, any charset) must re-export with header length == body length, the same field values, fixed point; generated foreign BODIES (loose multiprecision integers in key / session-key packets, key and session-key packets of algorithms without class, legacy S2K usage octets, user attributes without image) likewise. non-trivial = parsed by the implementation; distinct by packet octets',
          trusted=['Model/Packets.v format terms (hand-written from packets.py / fields.py)'],
          assumptions=['compression codecs (zlib, bz2) are primitives; ciphertext bodies are opaque octets for the codec'])

TEXT = ('Rocq theorems (Props/C08.v, closed): one generic round-trip theorem dec_enc for the format-combinator language (big-endian fields, '
        'fixed octets, constants, MPIs, length-prefixed regions with n-octet, new-format packet and subpacket (192..254 = two octets) lengths, repetition) by induction on fuel with fuel '
        'sufficiency in the statement: for every format term, value and trailing data, decoding the encoding returns the value and leaves exactly '
        'the trailing data; every packet type of Model/Packets.v (71 format terms: PKESK, signature v4 with subpacket areas, SKESK, one-pass, public '
        'keys/subkeys of 6 algorithms, compressed, SED, marker, literal, user id, user attribute, SEIPD, MDC, opaque) is a self-delimiting instance, '
        'and the emitted header carries exactly the body length. The foreign-input half (old-format / partial framings, GnuPG fixtures) is decided on '
        'the implementation by the correspondence run, and for the two subpacket areas of a signature by Model/SubArea.v: an accepted packet\'s areas '
        'are re-exported octet for octet whatever encodings the producer chose (C08_subpacket_areas_verbatim, _fixed_point; the pre-repair rule refuted). '
        'Foreign input normalises once, as a theorem for the modelled formats (Model/FmtStrict.v, Proofs/Fmt_lemmas2.v): every encoding the decoder accepts with complete, encodable multiprecision '
        'integers and no first length octet 224..254 (any other length form, any bit count covering leading zeros) re-serialises to a defined packet, not longer, that parses back to the same value and is a fixed point '
        '(C08_foreign_normalises_once_partial; C08_strict_accepts_own_output; the three ways the unrestricted statement fails are closed witnesses in C08_foreign_normalises_once_refuted).',
        'DESIGN.md 5 C08',
        'machine-checked proof in Rocq (Coq 8.16.1) + extracted-model correspondence + implementation round-trip enumeration')
