from props import cfg

CFG = cfg('C09', refine=['Refine_wire'], extract='Ex_C09', driver='c09',
          rule='exhaustive new-format lengths 0..9000 (quick) / 0..70000 (thorough) + boundaries to 2^32-1; every first x second '
               'length octet; old-format tag x stored width x lengths across width boundaries; random partial chunkings; MPI bit '
               'lengths 0..700/4200 with min/max/random patterns + non-canonical decodes; all 256 counts; time boundaries; '
               'subpacket headers. distinct = distinct canonical (suite,input); all are non-error paths unless the suite is a decode sweep',
          trusted=['Spec/Rfc4880_wire.v (RFC transcription)'],
          assumptions=['Python runtime (bytearray slicing, int.to_bytes, datetime/calendar) reached only through the correspondence run'])

TEXT = ('Rocq theorems (Props/C09.v, closed under the global context) for every codec over its whole domain: new-format length round trip '
        'and RFC-value and shortest-form for all n < 2^32 and all octet strings, partial-length reassembly by induction over an unbounded '
        'chunk list, old-format header never-narrow and, in the decode direction, tag / width / value equal to RFC 4880 4.2.1 for every first octet and every input (256-octet sweep lifted), MPI round trip / exact bit count / RFC value for all v, time, all 256 counts, subpacket '
        'headers. Tie: translator (Gen/ regenerated from source, Refine_wire.v) + exhaustive/randomised correspondence of the extracted model '
        'and direct RFC oracles on the implementation.',
        'DESIGN.md 5 C09',
        'machine-checked proof in Rocq (Coq 8.16.1) + AST translator + extracted-model correspondence')
