from props import cfg

CFG = cfg('C10', refine=['Refine_armor'], extract='Ex_C10', driver='c10',
          rule='payload lengths 1..3000 (quick: 1..149 and every 47th, all residues mod 3 and 48) x {all-zero, all-FF, random} x 4 labels x 6 header sets: '
               'base64 / CRC-24 / str() against model, RFC transcription, independent bit-serial CRC and an independent de-armorer; reading back as '
               'str / bytes / bytearray over LF, CRLF, surrounding text, missing final newline; every single-character replacement (12 quick / 98 thorough '
               'characters + deletion) at every position of the body and CRC lines of short payloads; random armor-like line soups and base64 alphabet / pad / junk '
               'strings (model = line-oriented reading of the pinned expression + CPython a2b_base64 state machine); real keys (public + private), '
               'messages (literal, compressed, signed, SKESK / PKESK encrypted), detached signatures, cleartext messages: str() vs model, armored vs binary load, '
               'every block offered to PGPKey / PGPMessage / PGPSignature. distinct = distinct canonical (suite, input); nontrivial = block accepted',
          trusted=['Spec/Rfc4880_armor.v (RFC 4880 section 6 transcription: CRC-24 routine, radix-64 on 24-bit groups, block labels, 76-character limit)',
                   'pinned texts in tools/harness/c10.py (armor expression, template, ascii_unarmor / is_ascii / __str__ / from_blob / magic / parse kind checks, compared by AST)'],
          assumptions=['Python runtime reached only through the correspondence run: the re engine (the model reads the pinned expression line by line), '
                       'base64 / binascii (model = b64encode and the non-strict a2b_base64 of CPython 3.12), str.format, OrderedDict, latin-1 codecs',
                       'packet parsing behind the kind checks is C08 / C14 territory; here only label -> accept / ValueError / TypeError'])

TEXT = ('Rocq theorems (Props/C10.v, closed under the global context): base64 round trip for every octet string, alphabet, equality with the RFC 4880 6.3 encoding, '
        'foreign characters never change the decoding; wrapped lines <= 64 <= 76 and each line is the base64 of a 48-octet piece; CRC-24 equals the RFC 6.1 routine on a '
        '24-bit register for every octet string (invariant: the unmasked accumulator stays below 2^24); ascii_unarmor(str(x)) returns label, headers, exactly the payload, '
        'crc24(payload), no warning - for LF, CRLF, and embedded in foreign text - for every label, every header set without ": " in a key, every non-empty payload; '
        'warning <-> crc24(body) <> stated crc; kind decision table; labels = RFC 6.2 labels; header sets outside wf_headers refuted with a witness. '
        'Tie: translator (crc24, init/poly, 64, 3 regenerated into Gen/, Refine_armor.v) + pinned expression / template / sources + correspondence of the extracted '
        'model with Armorable and the three parse methods + direct oracles (independent de-armorer, independent CRC, armored-vs-binary load, corruption must warn or refuse).',
        'DESIGN.md 5 C10',
        'machine-checked proof in Rocq (Coq 8.16.1) + AST translator + extracted-model correspondence')
