from props import cfg

CFG = cfg('C10', refine=['Refine_armor'], extract='Ex_C10', driver='c10',
          rule='TBD',
          trusted=['Spec/Rfc4880_armor.v (RFC 4880 section 6 transcription)'],
          assumptions=['TBD'])

TEXT = ('TBD', 'DESIGN.md 5 C10', 'machine-checked proof in Rocq (Coq 8.16.1) + AST translator + extracted-model correspondence')
