from props import cfg

CFG = cfg('C11', refine=['Refine_armor', 'Refine_cleartext'], extract='Ex_C11', driver='c11',
          rule='texts = fixed adversarial list + every text over {-, SP, LF, CR, a, TAB} up to length 5 (quick) / 6 (thorough) + random texts built from '
               '"-", "- ", "From ", armor-looking lines, Hash: lines, blanks, empty lines, LF / CRLF / CR endings, with / without final newline, non-ASCII, non-BMP, '
               '10 kB lines: dash_escape / dash_unescape / signed octets (through PGPSignature.hashdata) against model and RFC 7.1 transcription; full flow '
               '(every text up to length 3 / 4 + 250 / 2500 random) x 6 hash algorithms x 1-3 signers x ed25519 / p256 / rsa2048 / dsa1024 (thorough: 10 keys): '
               'str(message) vs model render, Hash: header, read back (LF and CRLF transport) vs model read, PGPKey.verify per signer, independent verification '
               '(own packet parser + hashlib over the MODEL\'s RFC 7.1 octets + cryptography) of every signature, independently signed RFC 7.1 messages verified by PGPy; '
               'failures are classified by the model\'s decidable defect predicates. distinct = distinct canonical (suite, input)',
          trusted=['Spec/Rfc4880_cleartext.v (RFC 4880 section 7.1 transcription: dash escaping, canonical text with trailing blanks removed)',
                   'pinned texts in tools/harness/c10.py + c11.py (armor expression, dash_escape / dash_unescape, cleartext template, parse, hashdata / sign / verify statements)',
                   'independent signer / verifier in tools/harness/c11.py (cryptography + hashlib on raw key numbers)'],
          assumptions=['Python runtime reached only through the correspondence run: the re engine (re.subn with MULTILINE ^, the armor expression), utf-8 / latin-1 codecs, sorted(set())',
                       'signature packet encoding and hashing of the trailer are C01 / C02 territory; here the packet is a payload and the trailer is parsed independently',
                       'GnuPG 2.2.40 is used as an optional sample only (recorded in notes)'])

TEXT = ('Rocq theorems (Props/C11.v, closed under the global context): dash_unescape (dash_escape t) = t for every text; dash_escape = RFC 7.1 escaping; every escaped line is '
        'safe and a safe line opens no armor block; the rendered frame read back gives the Hash: list, headers, signature packets and the text up to one final CR for every '
        'ASCII text, every header set, every payload (by the same line-oriented reader as C10), and likewise after every LF of the armored text became CR LF (text returns with CR LF ends, same signed octets); signed octets = RFC 7.1 octets <-> no line ends in SP / TAB; Hash: header lists '
        'exactly the algorithms used; characterisation: outside the three decidable defect classes text and RFC octets are preserved, inside each class a refutation witness '
        '(trailing blanks signed, non-ASCII text never readable, final lone CR dropped) + the pre-fix CRLF-transport reader refuted. Tie: pinned sources + correspondence of the '
        'extracted model with PGPMessage / PGPKey.sign / verify + independent signer and verifier.',
        'DESIGN.md 5 C11',
        'machine-checked proof in Rocq (Coq 8.16.1) + AST translator + extracted-model correspondence')
