from props import cfg

CFG = cfg('C11', refine=['Refine_armor'], extract='Ex_C11', driver='c11',
          rule='TBD',
          trusted=['Spec/Rfc4880_cleartext.v (RFC 4880 section 7 transcription)'],
          assumptions=['TBD'])

TEXT = ('TBD', 'DESIGN.md 5 C11', 'machine-checked proof in Rocq (Coq 8.16.1) + AST translator + extracted-model correspondence')
