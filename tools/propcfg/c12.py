from props import cfg

CFG = cfg('C12', refine=['Refine_s2k'], extract='Ex_C12', driver='c12',
          rule='all 256 coded counts decoded; derive_key: 3 specifiers x 7 hashes (MD5 SHA1 RIPEMD160 SHA224/256/384/512) x cipher key sizes '
               '(4 of 11 ciphers quick / all 11 thorough) x passphrases of 0..4000 octets (ASCII / UTF-8 text / raw bytes, lengths around the '
               'block and count boundaries) x random 8-octet salts with small counts, against the concrete list model, the extracted RFC 4880 '
               '3.7.1 transcription and the compressed-stream model; ALL 256 counts (up to 65 MB) through derive_key with the compressed-stream '
               'model, one hash per count (quick) / every hash (thorough); key sizes 64..512 bits (one to four contexts) through a stand-in cipher '
               'object; empty passphrase for every specifier and hash; salts of 0..16 octets; reserved specifier 2 (model only); specifier wire '
               'form emit/parse. Every derivation is also compared with a pure-Python RFC 3.7.1 implementation. distinct = distinct canonical inputs',
          trusted=['Spec/Rfc4880_s2k.v and Spec/Rfc4880_wire.v rfc_count (RFC transcription)', 'hashlib (the primitive oracle; the same library PGPy calls)',
                   'the pure-Python RFC 3.7.1 oracle in tools/harness/c12.py'],
          assumptions=['H is a function of the concatenated input (hashlib update(a); update(b) = one-shot over a+b)',
                       'text passphrases reach derive_key as str and are UTF-8 encoded (str.encode) before hashing; the harness encodes independently',
                       'count/hcount/hleft of derive_key are tied by the translator (gen_s2k_arith, Refine_s2k.v); ctx, the hashing loop and the '
                       'truncation by the pinned source text of derive_key + the correspondence run',
                       'int(math.ceil(keylen / hashlen)) is exact for the sizes that occur (float division of small integers)'])

TEXT = ('Rocq theorems (Props/C12.v, closed under the global context, H and hlen universally quantified): derive_eq_rfc for every specifier, hash, '
        'key size, salt, coded count and passphrase (empty included); the hashed stream is the cyclic reading of salt+passphrase (stream_eq, '
        'cycle_take_nth); number of contexts is the least sufficient one; exact key length; simple S2K with empty passphrase = H("") truncated '
        '(pre-repair code refuted); count decode for all 256 codes. Tie: translator for the count getter and the count/hcount/hleft arithmetic of derive_key (Refine_s2k.v), pinned '
        'source text of derive_key, extracted-model correspondence with hashlib as primitive oracle over all 256 counts, plus an independent RFC oracle.',
        'DESIGN.md 5 C12',
        'machine-checked proof in Rocq (Coq 8.16.1) + extracted-model correspondence with primitive oracle + independent RFC implementation')
