from props import cfg

CFG = cfg('C13', refine=['Refine_fresh'], extract='Ex_C13', driver='c13',
          rule='os.urandom, X25519PrivateKey.generate and ec.generate_private_key interposed from the harness process; per operation the observed '
               '(purpose from the calling frames, size, position in the process-wide sequence of draws) is compared with the trace of the extracted '
               'model: 9 ciphers x {passphrase, RSA, ECDH Curve25519, ECDH NIST P-256 (+P-384, P-521, secp256k1 thorough)} x {drawn, supplied} '
               'session key, each operation carried out twice in a row on the identical message and recipient; protect on keys with 1..3 packets; '
               'already-encrypted messages; refused operations (supplied session key of the wrong length: must raise and draw nothing; protect with '
               'Plaintext / IDEA / Twofish256: must raise after exactly the draws the model lists) interleaved with accepted ones; random sequences '
               'of 2..8 operations. Values: all draws of >= 8 octets pairwise distinct over the whole '
               'process, none a substring of message / passphrase, none constant; a drawn value occurs in the output iff the model says its cell is '
               'exposed; session key / prefix / ephemeral scalar never in the output; salt, IV, ephemeral point read back from the exported packets '
               'equal the drawn ones and never repeat; SEIPD decrypted with `cryptography` under the drawn (or supplied) session key starts with '
               'the drawn prefix + repeated octets and carries a valid MDC. distinct = distinct (suite, configuration / op list)',
          trusted=['the interposition layer of tools/harness/c13.py (purpose attribution by caller frame names)',
                   'cryptography (CFB decryption used to confirm session key and prefix), hashlib'],
          assumptions=['quality of the OS / OpenSSL random generator is outside any model (partial): the model allocates abstract cells',
                       'RSA PKCS#1 v1.5 padding randomness is drawn inside OpenSSL and is not visible at os.urandom',
                       'source text of gen_iv / gen_key, SKESessionKeyV4.encrypt_sk, PKESessionKeyV3.encrypt_sk, IntegrityProtectedSKEDataV1.encrypt, '
                       'PrivKey.encrypt_keyblob, ECDHCipherText.encrypt, PGPMessage.encrypt, PGPKey.encrypt is pinned by digest'])

TEXT = ('Rocq theorems (Props/C13.v, closed under the global context) about a model of the calls to the random source in call order of the real code: '
        'sizes (session key = cipher key size, prefix = block size, salt = 8, IV = block size) for every operation and along every sequence; the '
        'i-th draw of a process takes cell n+i, hence no cell is shared between purposes or operations (induction over arbitrary op lists); the '
        'trace depends only on the shape of the operations (of a supplied key only its presence and whether its length fits), never on message / '
        'passphrase / recipient / key octets (non-interference); a supplied key of the wrong length is refused before anything is drawn, a refused '
        'protect has no output and has drawn at most the IV and salt of the first packet; over whole sequences no '
        'cell drawn as session key, prefix or ephemeral secret is readable in any symbolic output (subterm lemma), while salts are; a supplied '
        'session key is used as given and nothing is drawn for it. Tie: draws observed by interposing os.urandom / key generation from the harness '
        'compared with the extracted model per operation, plus value-level checks on the real outputs. PARTIAL: RNG quality is outside any model.',
        'DESIGN.md 5 C13',
        'machine-checked proof in Rocq (Coq 8.16.1) + extracted-model correspondence with an interposed random source')
