from props import cfg

CFG = cfg('C14', refine=['Refine_subarea'], extract='Ex_C14', driver='c14',
          rule='generated packet sequences built through PGPy\'s own packet classes (dummy signature MPIs; parsing does not verify): 1-3 keys per blob '
               '(public and private), 0-4 user ids / attributes each with 0-4 self / third-party / revocation / attestation signatures (30 %: revoked or attested by the key itself after its newest certification), direct-key and key '
               'revocation signatures, 0-3 subkeys with binding signatures carrying 0-2 embedded cross-signatures, few distinct creation times '
               '(many ties), explicit exportable 0/1, interleaved Trust packets, Opaque packets (signature tag, private-use tag, subkey of unknown version), primary key packets of unknown version with signatures / user ids / subkeys of their own before, between and after the keys (30 %), signatures of an unsupported public-key algorithm (opaque signature octets; every 7th), marker / literal packets with 0..2 stray signatures in front of, between and after the keys, between components and next to unknown-version keys, leading signatures (6 %), the same key / subkey twice, '
               'a blob that repeats a key (A, B, A), malformed starts (leading signature, user id or subkey before any primary key, public/private mismatch); per case: structure of every '
               'key of the from_blob dictionary, bytes(key) split by an independent splitter, copy.copy, .pubkey compared with the extracted model; '
               'direct oracle for stray packets: the blob without them must read back identically (every key with exactly its own components); direct oracles (bytes(key) = key packet + exactly the exportable signature packets of the key itself, of every user id and of every subkey; re-import binary and armored, second round trip, copy identity, explicit exportable=True, concatenation) on the real '
               'objects; plus keys made by random key-management histories (C15 operations) with cryptographic verification after import. '
               'distinct = distinct token sequences / histories that reached a non-error path',
          trusted=['tools/harness/c14.py World: token <-> packet octets mapping (PGPy packet classes build the octets, an independent splitter reads them back)'],
          assumptions=['key material, key ids and fingerprints are abstracted to labels (issuer key id and issuer fingerprint are one field)',
                       'packet kinds other than key / user id / user attribute / signature / trust / opaque are outside the model (PGPy: "orphaned packet", pragma: no cover)',
                       'Python runtime (deque.rotate/appendleft, bisect, OrderedDict, itertools.groupby, weakref, copy) reached only through the correspondence run',
                       'octet-level (de)serialisation of each packet is C08/C09; ASCII armor is C10'])

TEXT = ('Rocq theorems (Props/C14.v, closed under the global context) about a faithful structural model of PGPKey.parse / __bytearray__ / __or__ / '
        '__copy__ / pubkey, PGPUID.__or__ / __lt__ / selfsig and SorteDeque.insort (binary search) / resort: for every key, import(export k) is exactly '
        'the key without its non-exportable signatures rebuilt by the attachment operators; equal to it component by component and signature list by '
        'signature list when its lists are in order; per-component exactly the exportable signatures in general; any concatenation of keys with distinct '
        'ids splits; the second round trip is the identity on packets; a copy exports identically; explicit exportable=True survives; insort is '
        'sortedness-preserving and stable; the signature packets the structural model treats as atoms keep their octets through parse / copy / export '
        '(Model/SubArea.v: C14_signature_areas_verbatim, C14_signature_copy_same_octets); the identity order reads PGPUID.selfsig = the newest self-CERTIFICATION, which a revocation / attestation / third-party signature never changes (C14_uid_order_ignores_noncert); what follows a primary key packet of unknown version is skipped up to the next understood primary key (C14_opaque_primary_skips_what_follows, C14_unknown_primary_keeps_its_components); packets that are no part of a key (marker / literal packets with the signatures grouped with them, leading signatures) are set aside and change nothing, wherever they stand (C14_stray_packets_do_not_disturb, C14_stray_groups_invisible, C14_leading_signatures_ignored, C14_stray_between_exports; the loop that was left and restarted - losing the packet groupby had read ahead - is import_pre_orphanfix, refuted); refutation witnesses for the pre-repair code (bisect_left insort, Boolean subpacket parse, resort, selfsig = newest signature of any type, unknown primary key ignored alone / leading signature raises). '
        'Tie: pinned source text of the modelled functions + extracted-model correspondence on generated packet sequences and on keys made by real '
        'key-management histories, with direct round-trip / verification oracles on the implementation.',
        'DESIGN.md 5 C14',
        'machine-checked proof in Rocq (Coq 8.16.1) + extracted-model correspondence')
