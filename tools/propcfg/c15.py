from props import cfg

CFG = cfg('C15', refine=[], extract='Ex_C15', driver='c15',
          rule='model-based testing of key-management histories on real Ed25519 keys (Ed25519 / Curve25519 subkeys), explicit created= times with '
               'same-second collisions, datetime.now frozen for the cross-signature: after a 4-step preamble on 2 keys, ALL histories of depth 1 over 46 '
               'operation instances, depth 2 over 23, depth 3 over 10 (quick) / depth 2 over 46, depth 3 over 23, depth 4 over 10 (thorough, within a '
               'time budget - completed sweeps are listed under exhaustive_domains), hand-written histories, and random walks of depth 30 over the whole '
               'operation set (create, add_uid text/image with preference sets, recertify, third-party certify of a user id and of the key itself (direct-key signature) incl. exportable 0/1, attestation (0x16) by the key on its own identity, revoke uid / subkey / '
               'key, add revoker, del_uid, add_subkey signing / encryption, add_subkey of an existing key that has identities (refused, both keys byte-identical afterwards), key expiration 0, protect, unlock, lock, copy, export+import, publish the public twin) on up to '
               '4 key objects; after the compared steps the observable state of every object and of its public twin (signature lists with type / issuer / '
               'created / exportable / primary mark / flags+expiry+preferences, user id order, selfsig-derived effective attributes, key expiry, '
               'revocation reports, lock state) is compared with the extracted model, and the direct oracle runs on the real code: every signature '
               'verifies cryptographically under its issuer on the object, its twin, and the re-imports of bytes(key), str(key), bytes(key.pubkey); '
               'selfsig = the self-issued CERTIFICATION with the greatest (created, order of addition); a revocation / attestation by the key leaves effective attributes and key expiry unchanged; removed identity absent; revocation reports change only for the target; PGPKey.get_uid returns the first identity with a field EQUAL '
               'to the search string (names that are proper substrings of other names / e-mail fields are in every alphabet); bytes(key) split into packets is '
               'key + its exportable signatures + every user id / subkey with its exportable signatures. '
               'distinct = distinct histories',
          trusted=['tools/harness/c15.py RealWorld: mapping of an abstract operation to PGPy API calls and of PGPy objects to the canonical state string'],
          assumptions=['PARTIAL: signatures are symbolic in the theorems (verifies = recomputation of the digest term under the issuer label); the signature '
                       'primitive is exercised only by the harness (Ed25519 through cryptography/OpenSSL)',
                       'PGPUID.selfsig is the newest self-certification (types 0x10-0x13 issued by the key, repair 812bc0f); the rule before it is kept as selfsig_old and refuted',
                       'a key whose identities are all user attributes certifies / revokes / binds like any other (repair 1d6dbd1; certify_ok_old / revoke_ok_old = before); key expiration 0 = never (96d5157; key_expiry_pre96 = before); add_subkey is applied only to keys without passphrase protection; one passphrase per run; unlock/lock = entering/leaving `with key.unlock()`',
                       'earlier public twin objects kept by a caller are not modelled (every .pubkey call derives a new twin; mirroring into a live older twin through __or__ is outside the model)',
                       'key material / key ids / fingerprints are labels; user ids are addressed by (kind, content) with first-match semantics like PGPKey.get_uid',
                       'algorithms other than Ed25519 / Curve25519 are not exercised by this harness (algorithm-specific signing is C01/C02)'])

TEXT = ('Rocq theorems (Props/C15.v, closed under the global context) over a model of PGPKey.add_uid / del_uid / add_subkey / bind / certify / revoke / '
        'revoker / protect / unlock / pubkey / __copy__ / export+import with the KeyAction preconditions: an invariant (every self-, third-party, binding, '
        'embedded cross- and revocation signature verifies symbolically for the component it sits on; signing-capable subkeys have a cross-signature; all '
        'lists in order; subkey dictionary well formed) holds initially, is preserved by every operation, hence in every reachable world (induction over '
        'arbitrary operation lists with fold_left), survives export/import (via C14) and holds for the public twin, which is equivalent to the key; '
        'selfsig is the newest self-issued certification (none iff the key issued none), with the stable insort the later-added of two same-second certifications wins, and a revocation / attestation / third-party signature leaves it unchanged; a removed identity '
        'is absent from the key, its copy, its twin, its export and re-import; a revocation changes the report of exactly the revoked component; '
        'refutation witnesses for the pre-repair code (same-second tie, stale user id order, selfsig = newest signature of any type: a revoked identity un-expired the key). PARTIAL: symbolic signatures. Tie: pinned source text + '
        'model-based testing of the extracted model against real Ed25519 keys with cryptographic verification oracles.',
        'DESIGN.md 5 C15',
        'machine-checked proof in Rocq (Coq 8.16.1) + extracted-model correspondence (model-based testing)')
