from props import cfg

CFG = cfg('C16', refine=['Refine_policy'], extract='Ex_C16', driver='c16',
          rule='real keys assembled packet by packet from RSA-1024 material (every component can sign and encrypt, so selection depends on flags '
               'alone): flag set from a family (quick: {}, Sign, EncC|EncS, Certify|Auth; thorough: 8 sets incl. "no KeyFlags subpacket") on the '
               'primary user id and on each of 0..2 subkeys x 7 operations (sign certify revoke revoker bind encrypt decrypt) x enforcement on/off x '
               '{public, private, locked, unlocked}; MIXED protection: {no passphrase, passphrase} on the primary and on each of 1..2 subkeys, outside and inside unlock(), x flag placement x 7 operations x enforcement; 0..3 subkeys for a smaller family; identity choice (None, name, comment, e-mail, third uid, '
               'unknown) over user ids with different flags; random self-signature / binding histories (1-3 signatures per uid / subkey, packets '
               'shuffled; 45 %: the identity revoked / attested by the key after its newest certification, 15 %: newest certification with key flags in the unhashed area only); '
               'exhaustive: certification, then revocation / attestation by the key (without / with a KeyFlags subpacket of its own) or a certification with unhashed key flags; re-binding through the API; empty key, key without identity (incl. its first self-certification), subkey as receiver, '
               'subkeys without binding signature in effect (none / expired only), image-only identity and image before user ids as default identity, unknown user= incl. proper substrings of names; decrypt routing for messages addressed to each component, to two, to a stranger. The used component is '
               'observed through signature.signer / signer_fingerprint / message.encrypters and cross-checked by verifying / decrypting under '
               'that component alone. distinct = distinct (key description, operation, user)',
          trusted=['reading the model input (flags, creation times, stored signature order, issuer) back from the real key object in the harness'],
          assumptions=['the undecorated method bodies, PGPSignature.new / _sign issuer fields and PKESessionKeyV3 are reached only through the '
                       'correspondence run (the model stops at "method runs on component i")',
                       'cryptography re-validates RSA private numbers on every private-key operation; the harness memoises that pure conversion for speed, '
                       'and sets the S2K cost of the protected test keys to the minimum',
                       'source text of KeyAction.usage/check_attributes/__call__, _get_key_flags, self_signatures, get_uid, is_public/is_protected/'
                       'is_unlocked, PGPUID.selfsig, PGPSignature.key_flags and the seven @KeyAction lines is pinned; an edit is reported as a broken obligation',
                       'a subkey receiver is given its parent\'s identities (what get_uid searches); user attributes are entries of k_uids with u_text = false'])

TEXT = ('Rocq theorems (Props/C16.v, closed under the global context) about the model of KeyAction: the chosen component has an intersecting flag and '
        'is the first such in the order primary, subkeys (induction over an arbitrary subkey list); refusal iff no component is capable (enforcement '
        'on); enforcement off runs the last visited component with a warning; operations without flags use the receiver; the precondition matrix '
        'form of a key object x operation, checked on the component usage() selects (a private operation runs only on an unlocked private component, encryption only on a public one; the receiver-checked variant is refuted); no outcome is an exception other than PGPError (C16_no_crash; the variants that raised for an unknown user= / an unbound subkey / an image-only identity are refuted); a key without identity refuses all but certification; flags come from the most recent qualifying signature '
        '(subkey: newest binding in effect, the empty set when none; user id: newest self-CERTIFICATION, unchanged by any revocation / attestation, flags from the hashed area) -- the oldest-binding variant and the newest-signature-of-any-type variant are refuted; decryption routes to an addressed subkey. Tie: '
        'exhaustive correspondence of the extracted model with real keys + the property text evaluated directly on the implementation + pinned sources.',
        'DESIGN.md 5 C16',
        'machine-checked proof in Rocq (Coq 8.16.1) + extracted-model correspondence')
