from props import cfg

CFG = cfg('C17', refine=['Refine_verdict'], extract='Ex_C17', driver='c17',
          rule='exhaustive: all 2^11 SecurityIssues values (failing test, good/bad/bool of a one-entry result), every disqualifying value or-ed '
               'with 64 random (quick) / all 2048 (thorough) values; every entry list of length <= 3 over 6 representative issue values incl. the '
               '0xFF default, all merges of lists of length <= 2, random longer lists; validate_params over every algorithm x sizes x curves; '
               'end to end with pool keys: 9 (quick) / 11 (thorough) keys strong and weak x {no expiry, expired, far expiry} x revoked/not x '
               'good/wrong signature x hash (MD5/SHA1/SHA256/SHA512) x subject (text, message with 1-2 signatures, the key itself, third-party '
               'user id) x signer (primary, signing subkey). distinct = distinct canonical (suite, input)',
          trusted=['the attribution of an examined signature to primary or subkey, and self_verified, are read from the implementation result'],
          assumptions=['datetime.now() is after 2020-02-01 (keys are made expired relative to a 2020 creation time)',
                       'the cryptographic outcome `verified` is an input of the model (C01 is about it)',
                       'Python runtime (IntFlag arithmetic, generators, namedtuple) reached only through the correspondence run'])

TEXT = ('Rocq theorems (Props/C17.v, closed under the global context): good/bad partition of every result list (permutation, exclusive, covering), '
        'truthy iff no bad entry, WrongSig and the 0xFF default are bad, disqualifying_monotone for every pair of integers (bit-level proof), the '
        'verify loop characterised (an entry is bad iff the key is expired / self-check failed or the signature is wrong; advisory weaknesses never '
        'matter), disqualified_key_never_truthy for every list of examined pairs; the pre-repair exact-membership test refuted (F1 regression). '
        'Tie: translator (SecurityIssues values, causes_signature_verify_to_fail, the three SignatureVerification conditions, the 0xFF default; '
        'Refine_verdict.v) + exhaustive correspondence over 2^11 issue values and small entry lists + end-to-end runs with real keys. The key\'s own expiry that enters the model (k_expired) is, for a subkey, that of its newest binding signature (repair 96d5157; zero = never): the e2e suite re-binds signing subkeys with validity periods that are over, far away and zero.',
        'DESIGN.md 5 C17',
        'machine-checked proof in Rocq (Coq 8.16.1) + AST translator + extracted-model correspondence (exhaustive over the issue domain)')
