from props import cfg

CFG = cfg('C18', refine=['Refine_fingerprint'], extract='Ex_C18', driver='c18',
          rule='every corpus key (RSA 1024/2048/3072, DSA 1024/2048, Ed25519, Curve25519, ECDSA/ECDH on P-256/384/521 and secp256k1), primary and '
               'subkeys: PGPy fingerprint / key id / publen / emitted body vs the extracted model of PubKeyV4.fingerprint and of the packet-body encoder, '
               'vs the RFC 4880 12.2 / 5.5.2 transcription, and vs hashlib over the body PGPy exports; creation times 0, 1, 2^31-1, 2^31, 2^31+1, '
               '2^32-2, 2^32-1 + random, as UTC-aware, offset-aware (+5:30, -8, +14, -12) and naive datetimes and as integers, stored octets = int(dt.timestamp()), each exported and re-read, PGPKey.new with offset-aware created=; '
               'the same in child processes with TZ=Asia/Kolkata, America/Los_Angeles (+2 zones thorough); public integers of 1..4100 bits with leading '
               'zero bits, EC coordinates with leading zero octets / zero, native points starting with zero octets (packets built from raw numbers), '
               'PGPy parse vs model parse; keys ENCODED BY THE MODEL (existing numbers, other creation time) read by Packet() and PGPKey.from_blob; '
               'histories copy / pubkey / protect / unlock / lock / binary + armored re-import (fixed plan quick, + random walks thorough) with the '
               'emitted secret packet compared to the model after every step; Issuer / IssuerFingerprint subpackets of stored, fresh data and '
               'certification signatures and PKESK key ids; ECDH secret (sub)keys with NON-default KDF parameters written by the model encoder (= edited exported packet), '
               'loaded by PGPy: private packet, pubkey() and PGPKey.pubkey agree on fingerprint / key id / exported body = RFC values; freshly generated keys; '
               'algorithm ids without a material class (21, 0): public packets keep fingerprint and export octets under copy.copy / export+import / PGPKey copy, pubkey, re-import; '
               'private packets: pubkey() and PGPKey.pubkey must refuse with NotImplementedError (model: pubkey_pkt = None) and leave the packet unchanged; '
               'secret packets whose secret part is written by the model encoder (S2K usage 255 / 254 for DSA, ElGamal, RSA, EC; GNU stubs incl. smartcard with empty serial): '
               'fields read = fields encoded, re-emitted octets equal, fingerprint = public packet\'s; the legacy form (usage octet = cipher id, IV only) likewise; '
               'key packets of another producer with loose MPIs (declared bit count covering leading zero bits / 1 / 3 zero octets; RSA, DSA, ElGamal; public and secret; all integers / one integer): '
               'fingerprint = SHA-1(0x99 || len || public body AS EXPORTED) for packet, copy, pubkey() twin, export+import, PGPKey load / copy / re-import / pubkey, model parser reads the loose body to the same fields; '
               'opaque private packets written back as received (copy, export+import). distinct = distinct canonical (suite, model input)',
          trusted=['Spec/Rfc4880_keys.v (RFC 4880 3.2 / 5.5.2 / 12.2, RFC 6637 6 / 9 / 11 transcription)',
                   'hashlib SHA-1 (primitive oracle; the same library PGPy calls)'],
          assumptions=['SHA-1 is a universally quantified function in the theorems (20 well-formed octets where the key id is concerned); hashing by '
                       'successive update() calls is modelled as hashing the concatenation',
                       'datetime/calendar arithmetic is modelled as the integer it yields (the instant of an aware datetime, the fields of a naive one read as UTC); reached through the correspondence run only, with the direct oracle stored octets = int(dt.timestamp())',
                       'source text of PubKeyV4.fingerprint and PrivKeyV4.pubkey is pinned (nothing here is machine-translated)'])

TEXT = ('Rocq theorems (Props/C18.v, closed under the global context): publen() is the real length of the public material for every algorithm '
        '(MPIs, OID field, EC point, ECDH KDF block); the public packet body is the first 6+publen octets of the secret packet body; the body equals the '
        'RFC 4880 5.5.2 / RFC 6637 body written from the fields (incl. the DER OID table); the fingerprint as the code computes it (pieces, publen slicing of '
        'the secret material, first+last length octet) equals SHA-1(0x99 || len2 || exported body) whenever 6+publen < 65536; it depends on creation time, '
        'algorithm and public material only; along every op list of protect / unlock / lock / pubkey / copy / export+import no step refuses a key of a supported algorithm and the fingerprint is invariant (induction, '
        'uses the parse-after-emit theorem); pubkey() is partial (refuses exactly private packets with opaque material) and EVERY twin it produces has the key\'s fingerprint (no exception for opaque material); key id = low 64 bits; emitted Issuer / IssuerFingerprint / PKESK fields read back as the id. Outside the '
        'premises: public keys of algorithm ids without a material class get the RFC value (theorem; the code before repair e03112d, publen 0, is refuted and '
        'characterised) and pass unchanged through every history; private ones are characterised (whole stored material hashed, pubkey() refuses, written back as received - the composition with a secret tail after the opaque octets, keymaterial_bytes_old, is refuted; the secret tail follows String2Key.__bool__ = usage != 0, the 254/255-only rule sec_tail_old is refuted on a cipher-id usage octet; the total pubkey() and the lossy copy before repair 3c1c8c6 are kept as '
        'pubkey_pkt_old / copy_pkt_old and refuted: empty twin, other fingerprint); bodies >= 65536 octets characterised. Tie: extracted '
        'model with hashlib as SHA-1 oracle is an independent fingerprint calculator and key-packet encoder run against PGPy; source of the two anchored '
        'methods pinned.',
        'DESIGN.md 5 C18',
        'machine-checked proof in Rocq (Coq 8.16.1) + extracted-model correspondence + direct RFC oracle')
