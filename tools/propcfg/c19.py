from props import cfg

CFG = cfg('C19', refine=['Refine_keyring'], extract='Ex_C19', driver='c19',
          rule='universe of 10 Ed25519 keys (shared names / comments / e-mails, names with blanks, names differing by blanks only ("John Smith" / '
               '"JohnSmith", "x y" / "xy"), names and comments that are hexadecimal digits with and without blanks of id-like (8, 16) and other (12) '
               'lengths, public + private halves of two keys, 0-2 subkeys, two keys with equal creation time); after EVERY step the real keyring (alias layers in dict order, key table, '
               'pub/priv lists, `in` and `with key()` for ~135 identifiers incl. grouped fingerprints / key ids, blank variants of names, non-ASCII digits, strangers, fingerprints() for the 9 '
               'filter combinations, len) is compared with the extracted model, and the property text is evaluated directly on the '
               'implementation against an independent book-keeping of what is loaded. Histories: every toggle history (load if absent '
               'else unload) to depth 5 over 5 keys + depth 3 over 10 keys (quick) / depth 6 over 5, depth 7 over 4, depth 5 over 6, depth 4 '
               'over 10 (thorough), load form drawn from {object, binary, armored text, armored file, binary file, bytearray, armored bytearray} x '
               '{single, list, tuple, varargs} (a bytearray must be left untouched), unload by object or through key(fingerprint / key id / short id '
               'written in groups, key id, name); histories load K / unload a subkey of K on its own (by object, key(fingerprint), key(fingerprint in groups), key(key id)) / load K again '
               '(the same object, a re-parsed copy in every serialised form, the other half) and toggle histories with subkey toggles to depth 4 (quick) / 5 '
               '(thorough): what load() reports must be held and listed afterwards; random walks of 60 steps that also re-load loaded '
               'keys (serialised forms create second objects), load lists of 2-3 keys, unload absent keys and load / unload lone '
               'subkeys; selection by signature / signed message / encrypted message / unsigned message every 15 steps and on keyrings that hold none of the '
               'issuers (KeyError and nothing else, like the model); PGPKeyring._unspaced against the model and an independent reading of the rule on '
               '~1.7 k (quick) / ~20 k (thorough) generated identifiers (lengths around 8 / 16 / 40, mixed case, blanks, non-hex and non-ASCII characters, '
               'final newline); the old rule (blanks ignored in every identifier) is run as a model and must differ. distinct = distinct (suite, history)',
          trusted=['Spec/Keyring_spec.v (the property text as set semantics on key objects)',
                   'the order produced by sorted(list(set(..)), key=(created, is_public)) is a parameter of the model: theorems assume only that it '
                   'permutes; the correspondence run uses (created, is_public) and asks the implementation for the order of ties'],
          assumptions=['Python dict / deque / set / id() semantics, PGPKey.from_blob / from_file and the flattening in PGPKeyring.load are reached '
                       'only through the correspondence run',
                       'source text of _add_alias, _sort_alias, _add_key, unload, __contains__, _unspaced, _get_key, key, fingerprints, load is pinned '
                       '(sha256); an edit is reported as a broken obligation'])

TEXT = ('Rocq theorems (Props/C19.v, closed under the global context): the layered alias index refines the set of (identifier, key object) pairs of '
        'the loaded keys -- step lemmas for _sort_alias, _add_alias, unload, _add_key with subkeys, an invariant preserved by every step, and the '
        'lifting by induction over an arbitrary history (abs_reachable), for every permutation-valued sort; corollaries: membership iff a loaded key '
        'is selected by the identifier (carried as written, or -- only when its space-free form is 8 / 16 / 40 hexadecimal digits -- carried in that form: '
        'selects_literal, selects_grouped, selects_unspaced), key() sound and total, key(message) sound and KeyError exactly when no issuer selects a loaded '
        'key, identifiers of unloaded keys select nothing, fingerprints()/len exact, the deque is never empty; the pre-repair _add_alias and the pre-repair '
        'membership rule (blanks ignored in names: "John Smith" / "JohnSmith") are refuted by concrete histories; every fingerprint load() returns is listed, `in` the keyring and selecting afterwards, for any history '
        '(load_result_is_indexed / _selects, commit 7e98898), the _add_key of before is refuted (load K, unload sub(K), load K). Tie: exact state-by-state correspondence of the '
        'extracted model with the real PGPKeyring over exhaustive and random histories + the property text run directly on the implementation; '
        'pinned source text of the modelled methods.',
        'DESIGN.md 5 C19',
        'machine-checked proof in Rocq (Coq 8.16.1) + extracted-model correspondence')
