from props import cfg

CFG = cfg('C20', refine=['Refine_message'], extract='Ex_C20', driver='c20',
          rule='messages built through the public API: content class (empty / ASCII / UTF-8 / charset hint latin-1, cp1251, shift_jis, koi8-r / '
               'binary / 64 kB quick, >= 1 MB thorough) x format (auto b t u l 1 m) x file name (empty, _CONSOLE, latin-1 non-ASCII, 255 octets, real '
               'files) x fixed times (0, 1, T0, 2^31, 2^32-1) x 4 compression algorithms x 0..4 signers (RSA DSA EdDSA ECDSA, several hashes, equal and '
               'different creation times, random insertion order) x sign before / after passphrase encryption (+ one public-key recipient) x binary / '
               'armor import. Each case: bytes(message) = model export (byte for byte, compressor as primitive oracle); bytes(message) parsed by the '
               'model parser, checked with the RFC 4880 11.3 grammar and the 5.4 flag rule, one-pass / signature fields compared pairwise against an '
               'expectation computed from the property statement; import(export) attributes; model import state = PGPy import state. Foreign '
               'encodings written by the model (old-format 1/2/4-octet and indeterminate lengths, partial body lengths, nested compression) imported '
               'by PGPy. Literal / one-pass body codecs incl. truncated and over-long bodies; LiteralData.contents and strict UTF-8 decoding on valid, mutated and random octets. Packet sequences outside the grammar (model __or__ vs '
               'PGPy). distinct = distinct canonical (suite, case) that reached a non-error path in model and implementation',
          trusted=['Spec/Rfc4880_msg.v (RFC 4880 11.3 / 5.4 / 5.9 transcription)', 'zlib / bz2 (primitive oracle = the libraries PGPy calls)'],
          assumptions=['compression primitives: decompress a (compress a x) = Some x is a premise of the byte-level round trip (Section variable)',
                       'signature packets are opaque bodies here (their codec is C02/C08); encrypted containers are opaque (C03/C04)',
                       'Python runtime (codecs for charset hints and UTF-8 decoding, datetime/calendar, deque + bisect, generators, object identity in '
                       '`sig is self._signatures[0]`) reached only through the correspondence run',
                       'nothing of C20 is translated by py2coq; the tie is the correspondence run + pinned source text of PGPMessage.__iter__ / __bytearray__'])

TEXT = ('Rocq theorems (Props/C20.v, 39 statements, closed under the global context): for every literal, compression algorithm and every list of '
        'signatures added in any order at any times the export is derivable from the RFC 4880 11.3 grammar (inductive transcription; the boolean checker '
        'used at run time is proved sound and complete for it); the i-th one-pass packet describes the (n-1-i)-th signature, their number equals the '
        'number of signatures, only the last carries flag 1 and the RFC 5.4 flag rule holds on the whole export; the compression packet wraps the whole '
        'signed sequence (packet and octet level); encrypted messages are signatures* ESK+ one container for every history of encrypt / sign steps; '
        'import(export) returns the same state (content, name, time, format, compression, signature list) at packet level and, under the premise '
        'decompress(compress x) = x on the primitive, at octet level (parse(emit) for every well-formed nested packet sequence, fuel sufficiency in the '
        'statement); literal / one-pass body codecs round-trip with following data untouched and agree with independent RFC 5.9 / 5.4 decoders; the literal body parser accepts ONLY what the RFC 5.9 decoder accepts and never reads beyond the declared length (C20_lit_parse_only_rfc; repair 08ffd01), and at packet level a literal (tag 11) or modification detection code (tag 19) packet leaves the octets after its declared body untouched or is refused (C20_literal_mdc_confined; repairs 9b50cd0 / 08ffd01); a time '
        'that does not fit four octets is refused; text of format t / u reads back as the text that went in for every Unicode string (strict UTF-8 '
        'decoder modelled and proved to invert the encoder), non-UTF-8 t data of other producers stays readable as latin-1; partial-length and '
        'old-format framings are parsed to the same packet. The rules before the repairs (one-pass flags, five-octet time, latin-1 read-back) are '
        'refuted with witnesses. Tie: byte-for-byte correspondence of the extracted model with the real code on generated messages (export, import '
        'state, re-export, codecs, contents, __or__ on arbitrary packet sequences) + direct property oracles + regression witnesses of the five '
        'repaired defects + pinned source text of PGPMessage.__iter__ / __bytearray__. A packet read WITHOUT a length field is kept and written with one (C20_indeterminate_length_reframed, old rule refuted; repair b07b4af): the foreign suite signs imported foreign messages (then-signed) and frames literals of 64 KiB and more without length field.',
        'DESIGN.md 5 C20',
        'machine-checked proof in Rocq (Coq 8.16.1) + extracted-model correspondence + direct property oracles')
