"""Per-property configuration of ./check, auto-discovered from tools/propcfg/cXX.py.
Each propcfg module defines
  CFG  = cfg('C10', refine=[...], extract='Ex_C10', driver='c10', rule=..., trusted=[...], assumptions=[...])
  TEXT = (level text, DESIGN.md section, technique)      # used by tools/gen_manifest.py
"""
import glob, importlib.util, os


def cfg(prop, refine=(), extract=None, extra=(), driver=None, rule='', trusted=(), assumptions=()):
    t = ['Props/%s.vo' % prop] + ['Refine/%s.vo' % r for r in refine] + list(extra)
    if extract:
        t.append('Extract/%s.vo' % extract)
    return {'targets': t, 'driver': driver, 'rule': rule, 'trusted_base': list(trusted), 'assumptions': list(assumptions)}


PROPS, TEXT = {}, {}
for _p in sorted(glob.glob(os.path.join(os.path.dirname(os.path.abspath(__file__)), 'propcfg', 'c*.py'))):
    _spec = importlib.util.spec_from_file_location('propcfg_' + os.path.basename(_p)[:-3], _p)
    _m = importlib.util.module_from_spec(_spec)
    _spec.loader.exec_module(_m)
    _id = os.path.basename(_p)[:-3].upper()
    PROPS[_id] = _m.CFG
    TEXT[_id] = _m.TEXT
