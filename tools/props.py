"""Per-property configuration of ./check: make targets (the property's proof closure), driver, evidence text."""

def _p(prop, refine=(), extract=None, extra=(), driver=None, rule='', trusted=(), assumptions=()):
    t = ['Props/%s.vo' % prop] + ['Refine/%s.vo' % r for r in refine] + list(extra)
    if extract:
        t.append('Extract/%s.vo' % extract)
    return {'targets': t, 'driver': driver, 'rule': rule, 'trusted_base': list(trusted), 'assumptions': list(assumptions)}


PROPS = {
    'C09': _p('C09', refine=['Refine_wire'], extract='Ex_C09', driver='c09',
              rule='exhaustive new-format lengths 0..9000 (quick) / 0..70000 (thorough) + boundaries to 2^32-1; every first x second '
                   'length octet; old-format tag x stored width x lengths across width boundaries; random partial chunkings; MPI bit '
                   'lengths 0..700/4200 with min/max/random patterns + non-canonical decodes; all 256 counts; time boundaries; '
                   'subpacket headers. distinct = distinct canonical (suite,input); all are non-error paths unless the suite is a decode sweep',
              trusted=['Spec/Rfc4880_wire.v (RFC transcription)'],
              assumptions=['Python runtime (bytearray slicing, int.to_bytes, datetime/calendar) reached only through the correspondence run']),
}
