#!/venv/bin/python
"""Fail-closed Python-ast -> Gallina translator for a fixed list of small pure PGPy functions.

Every run regenerates coq/Gen/Gen_*.v from the *current* source under $VERIF_REPO (default /repo).
Anything outside the supported subset raises Unsupported; the target is then emitted as a
comment naming the reason and the Refine lemma that mentions it no longer compiles -> the
obligation counts as broken (the check then searches for a failing input, see DESIGN.md 2.5).

Python int -> Z ; bytes -> list Z ; bool -> bool.
"""
import ast, os, sys, re

REPO = os.environ.get('VERIF_REPO', '/repo')
OUT = os.path.join(os.path.dirname(os.path.abspath(__file__)), '..', 'coq', 'Gen')


class Unsupported(Exception):
    pass


BIN = {ast.Add: 'Z.add', ast.Sub: 'Z.sub', ast.Mult: 'Z.mul', ast.FloorDiv: 'Z.div', ast.Mod: 'Z.modulo',
       ast.LShift: 'Z.shiftl', ast.RShift: 'Z.shiftr', ast.BitAnd: 'Z.land', ast.BitOr: 'Z.lor', ast.BitXor: 'Z.lxor'}
CMP = {ast.Lt: 'Z.ltb', ast.LtE: 'Z.leb', ast.Gt: 'Z.gtb', ast.GtE: 'Z.geb', ast.Eq: 'Z.eqb'}


class Tr:
    """Translator for one function.
    names:  python name / 'self.attr' -> (coq term, type)   type in {'Z','bool','bytes','nat'}
    calls:  python callee (last attribute or bare name) -> (coq fn, [arg types], ret type, [default coq terms])
    consts: (Class, attr) -> int
    """

    def __init__(self, names=None, calls=None, consts=None, raises=False):
        self.names = dict(names or {})
        self.calls = dict(calls or {})
        self.consts = dict(consts or {})
        self.raises = raises  # function may raise: result is option

    # ---------- expressions ----------
    def key(self, e):
        if isinstance(e, ast.Name):
            return e.id
        if isinstance(e, ast.Attribute) and isinstance(e.value, ast.Name):
            return e.value.id + '.' + e.attr
        return None

    def typ(self, e):
        if isinstance(e, ast.Constant):
            if isinstance(e.value, bool): return 'bool'
            if isinstance(e.value, int): return 'Z'
            if isinstance(e.value, bytes): return 'bytes'
            raise Unsupported('constant ' + repr(e.value))
        k = self.key(e)
        if k is not None:
            if k in self.names: return self.names[k][1]
            if isinstance(e, ast.Attribute) and (e.value.id, e.attr) in self.consts: return 'Z'
            raise Unsupported('unknown name ' + k)
        if isinstance(e, ast.BinOp):
            lt = self.typ(e.left)
            if isinstance(e.op, ast.Add) and lt == 'bytes': return 'bytes'
            return 'Z'
        if isinstance(e, (ast.Compare, ast.BoolOp)): return 'bool'
        if isinstance(e, ast.UnaryOp) and isinstance(e.op, ast.Not): return 'bool'
        if isinstance(e, ast.IfExp): return self.typ(e.body)
        if isinstance(e, ast.Call):
            n = self.callee(e)
            if n == 'bool' and len(e.args) == 1: return 'bool'
            if n == 'int' and len(e.args) == 1: return 'Z'
            if n in self.calls: return self.calls[n][2]
            raise Unsupported('call ' + str(n))
        if isinstance(e, ast.Subscript):
            return 'bytes' if isinstance(e.slice, ast.Slice) else 'Z'
        if isinstance(e, ast.Tuple): return 'tuple'
        if isinstance(e, ast.Dict): return 'dict'
        raise Unsupported('type of ' + ast.dump(e)[:80])

    def callee(self, e):
        f = e.func
        if isinstance(f, ast.Attribute): return f.attr
        if isinstance(f, ast.Name): return f.id
        return None

    def expr(self, e):
        if isinstance(e, ast.Constant):
            if isinstance(e.value, bool): return 'true' if e.value else 'false'
            if isinstance(e.value, int): return '(%d)' % e.value
            if isinstance(e.value, bytes): return '[' + '; '.join(str(b) for b in e.value) + ']'
            raise Unsupported('constant ' + repr(e.value))
        k = self.key(e)
        if k is not None:
            if k in self.names: return self.names[k][0]
            if isinstance(e, ast.Attribute) and (e.value.id, e.attr) in self.consts:
                return '(%d)' % self.consts[(e.value.id, e.attr)]
            raise Unsupported('unknown name ' + k)
        if isinstance(e, ast.BinOp):
            if isinstance(e.op, ast.Add) and self.typ(e.left) == 'bytes':
                if self.typ(e.right) != 'bytes': raise Unsupported('bytes + non-bytes')
                return '(%s ++ %s)' % (self.expr(e.left), self.expr(e.right))
            if type(e.op) not in BIN: raise Unsupported('operator ' + type(e.op).__name__)
            if self.typ(e.left) != 'Z' or self.typ(e.right) != 'Z': raise Unsupported('arith on non-int')
            return '(%s %s %s)' % (BIN[type(e.op)], self.expr(e.left), self.expr(e.right))
        if isinstance(e, ast.Compare):
            if len(e.ops) != 1: raise Unsupported('chained comparison')
            op, l, r = e.ops[0], e.left, e.comparators[0]
            if isinstance(op, (ast.In, ast.NotIn)) and isinstance(r, (ast.Set, ast.List, ast.Tuple)):
                s = '(existsb (Z.eqb %s) [%s])' % (self.expr(l), '; '.join(self.expr(x) for x in r.elts))
                return s if isinstance(op, ast.In) else '(negb %s)' % s
            if self.typ(l) != 'Z' or self.typ(r) != 'Z': raise Unsupported('comparison of non-ints')
            if type(op) in CMP: return '(%s %s %s)' % (CMP[type(op)], self.expr(l), self.expr(r))
            if isinstance(op, ast.NotEq): return '(negb (Z.eqb %s %s))' % (self.expr(l), self.expr(r))
            raise Unsupported('comparison ' + type(op).__name__)
        if isinstance(e, ast.BoolOp):
            op = 'andb' if isinstance(e.op, ast.And) else 'orb'
            out = self.cond(e.values[0])
            for v in e.values[1:]:
                out = '(%s %s %s)' % (op, out, self.cond(v))
            return out
        if isinstance(e, ast.UnaryOp) and isinstance(e.op, ast.Not):
            return '(negb %s)' % self.cond(e.operand)
        if isinstance(e, ast.IfExp):
            return '(if %s then %s else %s)' % (self.cond(e.test), self.expr(e.body), self.expr(e.orelse))
        if isinstance(e, ast.Call):
            n = self.callee(e)
            if n == 'bool' and len(e.args) == 1: return self.cond(e.args[0])
            if n == 'int' and len(e.args) == 1 and self.typ(e.args[0]) == 'bool':
                return '(if %s then 1 else 0)' % self.expr(e.args[0])
            if n not in self.calls: raise Unsupported('call ' + str(n))
            cname, atys, rty, defaults = self.calls[n]
            if e.keywords: raise Unsupported('keyword arguments')
            args = [self.expr(a) for a in e.args]
            for a, t in zip(e.args, atys):
                if self.typ(a) != t: raise Unsupported('argument type of %s: %s vs %s' % (n, self.typ(a), t))
            if len(args) > len(atys): raise Unsupported('too many arguments to ' + n)
            missing = len(atys) - len(args)
            if missing:
                if missing > len(defaults): raise Unsupported('missing arguments to ' + n)
                args += defaults[len(defaults) - missing:]
            return '(%s %s)' % (cname, ' '.join(args))
        if isinstance(e, ast.Subscript):
            if self.typ(e.value) == 'dict':
                return self.dict_lookup(e.value, e.slice)
            if self.typ(e.value) != 'bytes': raise Unsupported('subscript of non-bytes')
            if isinstance(e.slice, ast.Slice):
                if e.slice.step is not None: raise Unsupported('slice step')
                lo = self.natexpr(e.slice.lower) if e.slice.lower is not None else '0%nat'
                if e.slice.upper is None:
                    return '(skipn %s %s)' % (lo, self.expr(e.value))
                return '(slice %s %s %s)' % (lo, self.natexpr(e.slice.upper), self.expr(e.value))
            raise Unsupported('indexing (may raise IndexError)')
        if isinstance(e, ast.Tuple):
            return '(' + ', '.join(self.expr(x) for x in e.elts) + ')'
        raise Unsupported('expression ' + ast.dump(e)[:80])

    def dict_lookup(self, d, k):
        # {c1: v1, ...}[k] with int literal keys -> nested if, KeyError -> only allowed when raises
        if not self.raises: raise Unsupported('dict lookup may raise KeyError')
        out = 'None'
        for kk, vv in reversed(list(zip(d.keys, d.values))):
            out = '(if Z.eqb %s %s then Some %s else %s)' % (self.expr(k), self.expr(kk), self.expr(vv), out)
        return out

    def natexpr(self, e):
        # non-negative index expression: names of type nat, int literals >= 0, and sums of those
        if isinstance(e, ast.Constant) and isinstance(e.value, int) and e.value >= 0:
            return '%d%%nat' % e.value
        k = self.key(e)
        if k is not None and k in self.names and self.names[k][1] == 'nat':
            return self.names[k][0]
        if isinstance(e, ast.BinOp) and isinstance(e.op, ast.Add):
            return '(%s + %s)%%nat' % (self.natexpr(e.left), self.natexpr(e.right))
        if self.typ(e) == 'Z':
            return '(Z.to_nat %s)' % self.expr(e)
        raise Unsupported('index expression ' + ast.dump(e)[:60])

    def cond(self, e):
        t = self.typ(e)
        if t == 'bool': return self.expr(e)
        if t == 'Z': return '(negb (Z.eqb %s 0))' % self.expr(e)
        raise Unsupported('truthiness of ' + t)

    # ---------- statements ----------
    def ret(self, s):
        return ('(Some %s)' % s) if self.raises else s

    def block(self, stmts, k=None):
        """Translate a statement list into a Gallina expression for the returned value.
        k = continuation text for fall-through, None = the block must return."""
        if not stmts:
            if k is None: raise Unsupported('fall-through without return')
            return k
        s, rest = stmts[0], stmts[1:]
        if isinstance(s, ast.Return):
            if s.value is None: raise Unsupported('bare return')
            return self.ret(self.expr(s.value))
        if isinstance(s, ast.Raise):
            if not self.raises: raise Unsupported('raise in a function declared total')
            return 'None'
        if isinstance(s, ast.Assign) and len(s.targets) == 1 and isinstance(s.targets[0], ast.Name):
            n = s.targets[0].id
            t = self.typ(s.value)
            v = self.expr(s.value)
            saved = self.names.get(n)
            self.names[n] = (n, t)
            body = self.block(rest, k)
            if saved is None: del self.names[n]
            else: self.names[n] = saved
            return '(let %s := %s in\n %s)' % (n, v, body)
        if isinstance(s, ast.AugAssign) and isinstance(s.target, ast.Name):
            v = ast.BinOp(left=ast.Name(id=s.target.id, ctx=ast.Load()), op=s.op, right=s.value)
            return self.block([ast.Assign(targets=[s.target], value=v)] + rest, k)
        if isinstance(s, ast.If):
            kk = self.block(rest, k) if (rest or k is not None) else None
            return '(if %s then %s else %s)' % (self.cond(s.test), self.block(s.body, kk), self.block(s.orelse, kk))
        if isinstance(s, ast.Expr) and isinstance(s.value, ast.Constant) and isinstance(s.value.value, str):
            return self.block(rest, k)
        if isinstance(s, ast.Pass):
            return self.block(rest, k)
        raise Unsupported('statement ' + ast.dump(s)[:80])


# ---------- source helpers ----------
def parse(rel):
    with open(os.path.join(REPO, rel)) as f:
        return ast.parse(f.read())


def find_class(tree, cls):
    for n in tree.body:
        if isinstance(n, ast.ClassDef) and n.name == cls: return n
    raise Unsupported('class %s not found' % cls)


def find_methods(cnode, name):
    return [m for m in cnode.body if isinstance(m, ast.FunctionDef) and m.name == name]


def find_method(cnode, name, deco=None):
    ms = find_methods(cnode, name)
    if deco is not None:
        ms = [m for m in ms if any(deco in ast.unparse(d) for d in m.decorator_list)]
    if len(ms) != 1: raise Unsupported('method %s.%s: %d candidates' % (cnode.name, name, len(ms)))
    return ms[0]


def inner_defs(fn):
    return {s.name: s for s in fn.body if isinstance(s, ast.FunctionDef)}


def class_int_consts(cnode):
    out = {}
    for st in cnode.body:
        if isinstance(st, ast.Assign) and len(st.targets) == 1 and isinstance(st.targets[0], ast.Name):
            try:
                v = eval(compile(ast.Expression(st.value), '<c>', 'eval'), {'__builtins__': {}})
            except Exception:
                continue
            if isinstance(v, int) and not isinstance(v, bool):
                nm = st.targets[0].id
                out[(cnode.name, nm)] = v
                if nm.startswith('__'):  # name-mangled class-private constant
                    out[(cnode.name, '_%s%s' % (cnode.name, nm))] = v
    return out


HDR = """(* GENERATED by tools/py2coq.py from %s -- do not edit; regenerated on every run *)
From Coq Require Import ZArith List Bool.
Import ListNotations.
Require Import PV.Lib.Bytes.
Open Scope Z_scope.
"""

I2B = {'int_to_bytes': ('int_to_bytes', ['Z', 'Z'], 'bytes', ['(1)']),
       'bytes_to_int': ('bytes_to_int', ['bytes'], 'Z', []),
       'int_byte_len': ('int_byte_len', ['Z'], 'Z', []),
       'bit_length': ('bit_length', ['Z'], 'Z', []),
       'max': ('Z.max', ['Z', 'Z'], 'Z', []), 'min': ('Z.min', ['Z', 'Z'], 'Z', [])}


def guarded(out, name, fn):
    """run one target; on Unsupported emit a comment so that only this definition is missing"""
    try:
        out.append(fn())
    except Unsupported as ex:
        out.append('(* TRANSLATION FAILED for %s: %s *)\n' % (name, str(ex).replace('*)', '* )')))
        FAILED.append((name, str(ex)))
    except Exception as ex:  # any other surprise in the source shape is also fail-closed
        out.append('(* TRANSLATION FAILED for %s: %s: %s *)\n' % (name, type(ex).__name__, str(ex).replace('*)', '* )')))
        FAILED.append((name, '%s: %s' % (type(ex).__name__, ex)))


FAILED = []


# ---------- targets: pgpy/types.py ----------
def gen_types():
    tree = parse('pgpy/types.py')
    out = [HDR % 'pgpy/types.py']
    hdr = find_class(tree, 'Header')
    arm = find_class(tree, 'Armorable')

    def t_encode_length():
        fn = find_method(hdr, 'encode_length')
        inner = inner_defs(fn)
        if set(inner) != {'_new_length', '_old_length'}: raise Unsupported('encode_length: inner defs changed')
        res = []
        tr = Tr(names={'nl': ('nl', 'Z'), 'llen': ('llen', 'Z')}, calls=I2B)
        res.append('Definition gen_new_length (nl : Z) : bytes :=\n %s.\n' % tr.block(inner['_new_length'].body))
        res.append('Definition gen_old_length (nl llen : Z) : bytes :=\n %s.\n' % tr.block(inner['_old_length'].body))
        rest = [s for s in fn.body if not isinstance(s, ast.FunctionDef)]
        tr2 = Tr(names={'length': ('length', 'Z'), 'nhf': ('nhf', 'bool'), 'llen': ('llen', 'Z')},
                 calls={'_new_length': ('gen_new_length', ['Z'], 'bytes', []),
                        '_old_length': ('gen_old_length', ['Z', 'Z'], 'bytes', [])})
        res.append('Definition gen_encode_length (length : Z) (nhf : bool) (llen : Z) : bytes :=\n %s.\n' % tr2.block(rest))
        a = fn.args
        if [x.arg for x in a.args] != ['length', 'nhf', 'llen'] or [ast.literal_eval(d) for d in a.defaults] != [True, 1]:
            raise Unsupported('encode_length: signature changed')
        return '\n'.join(res)
    guarded(out, 'Header.encode_length', t_encode_length)

    def t_llen():
        ms = [m for m in find_methods(hdr, 'llen') if any('sdproperty' in ast.unparse(d) for d in m.decorator_list)]
        if len(ms) != 1: raise Unsupported('llen getter not found')
        tr = Tr(names={'self._lenfmt': ('lenfmt', 'Z'), 'self.length': ('length', 'Z'), 'self._llen': ('stored_llen', 'Z')},
                calls=I2B)
        return 'Definition gen_llen_get (lenfmt length stored_llen : Z) : Z :=\n %s.\n' % tr.block(ms[0].body)
    guarded(out, 'Header.llen', t_llen)

    def t_llen_set():
        fn = find_method(hdr, 'llen_int')
        # shape: if self._lenfmt == 0: self._llen = {..}[val]
        if len(fn.body) != 1 or not isinstance(fn.body[0], ast.If): raise Unsupported('llen_int shape')
        st = fn.body[0].body
        if len(st) != 1 or not isinstance(st[0], ast.Assign) or ast.unparse(st[0].targets[0]) != 'self._llen':
            raise Unsupported('llen_int shape')
        d = st[0].value
        if not (isinstance(d, ast.Subscript) and isinstance(d.value, ast.Dict)): raise Unsupported('llen_int shape')
        tr = Tr(names={'val': ('val', 'Z')}, raises=True)
        return 'Definition gen_llen_of_code (val : Z) : option Z :=\n %s.\n' % tr.dict_lookup(d.value, d.slice)
    guarded(out, 'Header.llen_int', t_llen_set)

    def t_parse_len():
        fn = find_method(hdr, 'length_bin')
        new_len = inner_defs(fn).get('_new_len')
        if new_len is None: raise Unsupported('_new_len not found')
        pl = inner_defs(new_len).get('_parse_len')
        if pl is None: raise Unsupported('_parse_len not found')
        body = list(pl.body)
        # first statement must be `fo = a[offset]` (the only place that can raise IndexError): fo becomes a parameter
        if not (isinstance(body[0], ast.Assign) and ast.unparse(body[0]) == 'fo = a[offset]'):
            raise Unsupported('_parse_len: first statement is not fo = a[offset]')
        tr = Tr(names={'fo': ('fo', 'Z'), 'a': ('b', 'bytes'), 'b': ('b', 'bytes'), 'offset': ('offset', 'nat')},
                calls=I2B, raises=True)
        return ('Definition gen_parse_len (fo : Z) (b : bytes) (offset : nat) : option (Z * Z * bool) :=\n %s.\n'
                % tr.block(body[1:]))
    guarded(out, 'Header._parse_len', t_parse_len)

    def t_crc24():
        fn = find_method(arm, 'crc24')
        consts = class_int_consts(arm)
        tr = Tr(names={}, consts=consts)
        body = [s for s in fn.body if not (isinstance(s, ast.Expr) and isinstance(s.value, ast.Constant))]
        init = [s for s in body if isinstance(s, ast.Assign)]
        loop = [s for s in body if isinstance(s, ast.For)]
        ret = [s for s in body if isinstance(s, ast.Return)]
        others = [s for s in body if s not in init + loop + ret]
        if len(init) != 1 or len(loop) != 1 or len(ret) != 1: raise Unsupported('crc24 shape')
        for s in others:
            if ast.unparse(s) != 'if not isinstance(data, bytearray):\n    data = iter(data)':
                raise Unsupported('crc24: unexpected statement ' + ast.unparse(s)[:60])
        init, loop, ret = init[0], loop[0], ret[0]
        if body.index(init) > body.index(loop) or body.index(loop) > body.index(ret): raise Unsupported('crc24 order')
        acc = init.targets[0].id
        if ast.unparse(loop.iter) != 'data' or loop.orelse: raise Unsupported('crc24 loop')
        x = loop.target.id
        pre = [s for s in loop.body if not isinstance(s, ast.For)]
        inner = [s for s in loop.body if isinstance(s, ast.For)]
        if len(inner) != 1 or loop.body[-1] is not inner[0]: raise Unsupported('crc24 inner loop')
        inner = inner[0]
        if not (isinstance(inner.iter, ast.Call) and ast.unparse(inner.iter.func) == 'range' and len(inner.iter.args) == 1
                and isinstance(inner.iter.args[0], ast.Constant)) or inner.orelse:
            raise Unsupported('crc24 inner range')
        nit = inner.iter.args[0].value
        tr.names[acc] = (acc, 'Z'); tr.names[x] = (x, 'Z')
        res = []
        res.append('Definition gen_crc_bit (%s : Z) : Z :=\n %s.\n' % (acc, tr.block(inner.body, k=acc)))
        res.append('Definition gen_crc_octet (%s %s : Z) : Z :=\n %s.\n'
                   % (acc, x, tr.block(pre, k='(Nat.iter %d gen_crc_bit %s)' % (nit, acc))))
        res.append('Definition gen_crc24 (data : bytes) : Z :=\n (let %s := fold_left gen_crc_octet data %s in %s).\n'
                   % (acc, tr.expr(init.value), tr.expr(ret.value)))
        return '\n'.join(res)
    guarded(out, 'Armorable.crc24', t_crc24)

    def t_wrap():
        # the 64-column wrap and the 3-octet CRC of Armorable.__str__
        fn = find_method(arm, '__str__')
        src = ast.unparse(fn)
        m = re.search(r"payload\[i:i \+ (\d+)\] for i in range\(0, len\(payload\), (\d+)\)", src)
        if not m or m.group(1) != m.group(2): raise Unsupported('__str__: wrap expression changed')
        m2 = re.search(r"int_to_bytes\(self\.crc24\(self\.__bytes__\(\)\), (\d+)\)", src)
        if not m2: raise Unsupported('__str__: crc expression changed')
        return 'Definition gen_armor_wrap : Z := %s.\nDefinition gen_armor_crc_octets : Z := %s.\n' % (m.group(1), m2.group(1))
    guarded(out, 'Armorable.__str__', t_wrap)

    def t_verif():
        sv = find_class(tree, 'SignatureVerification')
        res = []
        # the three comprehension conditions, over (issues, causes_fail issues)
        names = {'sigsub.issues': ('issues', 'Z'), 'sigsub.issues.causes_signature_verify_to_fail': ('(cf issues)', 'bool'),
                 'SecurityIssues.OK': ('(0)', 'Z')}
        class T2(Tr):
            def key(self, e):
                s = ast.unparse(e) if isinstance(e, (ast.Attribute, ast.Name)) else None
                return s
            def expr(self, e):
                if isinstance(e, ast.Compare) and len(e.ops) == 1 and isinstance(e.ops[0], ast.Is):
                    return '(Z.eqb %s %s)' % (self.expr(e.left), self.expr(e.comparators[0]))
                return super().expr(e)
            def typ(self, e):
                if isinstance(e, ast.Compare): return 'bool'
                return super().typ(e)
        tr = T2(names=names)
        def cond_of(prop, kind):
            fn = find_method(sv, prop)
            gens = [n for n in ast.walk(fn) if isinstance(n, ast.GeneratorExp)]
            if len(gens) != 1: raise Unsupported(prop + ': generator shape')
            g = gens[0]
            if len(g.generators) != 1 or ast.unparse(g.generators[0].iter) != 'self._subjects' or ast.unparse(g.generators[0].target) != 'sigsub':
                raise Unsupported(prop + ': iteration changed')
            if kind == 'filter':
                if ast.unparse(g.elt) != 'sigsub' or len(g.generators[0].ifs) != 1: raise Unsupported(prop + ': filter shape')
                return tr.cond(g.generators[0].ifs[0])
            if g.generators[0].ifs: raise Unsupported(prop + ': unexpected filter')
            call = [n for n in ast.walk(fn) if isinstance(n, ast.Call) and ast.unparse(n.func) == 'all']
            if len(call) != 1: raise Unsupported(prop + ': all() missing')
            return tr.cond(g.elt)
        res.append('Section Verdict.\nVariable cf : Z -> bool.')
        res.append('Definition gen_is_good (issues : Z) : bool := %s.' % cond_of('good_signatures', 'filter'))
        res.append('Definition gen_is_bad (issues : Z) : bool := %s.' % cond_of('bad_signatures', 'filter'))
        res.append('Definition gen_entry_ok (issues : Z) : bool := %s.' % cond_of('__bool__', 'all'))
        res.append('End Verdict.\n')
        fn = find_method(sv, 'add_sigsubj')
        m = re.search(r"issues = SecurityIssues\((0x[0-9A-Fa-f]+|\d+)\)", ast.unparse(fn))
        if not m: raise Unsupported('add_sigsubj default changed')
        res.append('Definition gen_default_issues : Z := %d.\n' % int(m.group(1), 0))
        return '\n'.join(res)
    guarded(out, 'SignatureVerification', t_verif)

    write('Gen_types.v', '\n'.join(out))


# ---------- targets: pgpy/packet/types.py, subpackets/types.py ----------
def gen_ptypes():
    tree = parse('pgpy/packet/types.py')
    out = [HDR % 'pgpy/packet/types.py, pgpy/packet/subpackets/types.py, pgpy/packet/fields.py']
    hdr = find_class(tree, 'Header')
    mpi = find_class(tree, 'MPI')

    def t_tag():
        fn = find_method(hdr, 'tag_int')
        st = fn.body[0]
        if not (isinstance(st, ast.Assign) and ast.unparse(st.targets[0]) == '_tag'): raise Unsupported('tag_int shape')
        tr = Tr(names={'val': ('val', 'Z'), 'self._lenfmt': ('lenfmt', 'Z')})
        return 'Definition gen_tag_of_octet (lenfmt val : Z) : Z :=\n %s.\n' % tr.expr(st.value)
    guarded(out, 'Header.tag_int', t_tag)

    def t_hdr_bytes():
        fn = find_method(hdr, '__bytearray__')
        src = [ast.unparse(s) for s in fn.body]
        want_tail = ['_bytes = bytearray(self.int_to_bytes(tag))',
                     '_bytes += self.encode_length(self.length, self._lenfmt, self.llen)', 'return _bytes']
        if src[-3:] != want_tail: raise Unsupported('Header.__bytearray__ tail changed: ' + repr(src[-3:]))
        tr = Tr(names={'self._lenfmt': ('lenfmt', 'Z'), 'self.tag': ('tag', 'Z'), 'self.llen': ('llen', 'Z')}, raises=True)
        # tag = 0x80 | (lenfmt << 6) ; tag |= X if lenfmt else (Y | {..}[llen])
        body = fn.body[:-3]
        if len(body) != 2 or not isinstance(body[0], ast.Assign) or not isinstance(body[1], ast.AugAssign) or not isinstance(body[1].op, ast.BitOr):
            raise Unsupported('Header.__bytearray__ head changed')
        first = tr.expr(body[0].value)
        v = body[1].value
        if not isinstance(v, ast.IfExp): raise Unsupported('tag expression shape')
        new = tr.expr(v.body)
        o = v.orelse
        if not (isinstance(o, ast.BinOp) and isinstance(o.op, ast.BitOr) and isinstance(o.right, ast.Subscript)
                and isinstance(o.right.value, ast.Dict)): raise Unsupported('old tag expression shape')
        code = tr.dict_lookup(o.right.value, o.right.slice)
        left = tr.expr(o.left)
        return ('Definition gen_code_of_llen (llen : Z) : option Z :=\n %s.\n\n'
                'Definition gen_tag_octet (lenfmt tag llen : Z) : option Z :=\n'
                ' (if %s then Some (Z.lor %s %s) else match gen_code_of_llen llen with Some c => Some (Z.lor %s (Z.lor %s c)) | None => None end).\n'
                % (code, tr.cond(v.test), first, new, first, left))
    guarded(out, 'packet Header.__bytearray__', t_hdr_bytes)

    def t_mpi():
        res = []
        tr = Tr(names={'self': ('v', 'Z')}, calls=dict(I2B))
        class T3(Tr):
            def callee(self, e):
                f = e.func
                if isinstance(f, ast.Attribute) and ast.unparse(f) == 'self.bit_length': return 'self_bit_length'
                if isinstance(f, ast.Attribute) and ast.unparse(f) == 'self.byte_length': return 'self_byte_length'
                return super().callee(e)
        tr = T3(names={'self': ('v', 'Z')}, calls=dict(I2B))
        tr.calls['self_bit_length'] = ('bit_length v', [], 'Z', [])
        tr.calls['self_byte_length'] = ('gen_mpi_byte_length v', [], 'Z', [])
        bl = find_method(mpi, 'byte_length')
        res.append('Definition gen_mpi_byte_length (v : Z) : Z :=\n %s.\n' % tr.block(bl.body).replace('(bit_length v )', '(bit_length v)'))
        tm = find_method(mpi, 'to_mpibytes')
        res.append('Definition gen_to_mpibytes (v : Z) : bytes :=\n %s.\n' % tr.block(tm.body))
        # the two arithmetic lines of MPI.__new__
        nw = find_method(mpi, '__new__')
        src = ast.unparse(nw)
        if 'fl = (MPIs.bytes_to_int(num[:2]) + 7) // 8' not in src or 'del num[:2]' not in src \
           or 'mpi = MPIs.bytes_to_int(num[:fl])' not in src or 'del num[:fl]' not in src:
            raise Unsupported('MPI.__new__ arithmetic changed')
        res.append('Definition gen_mpi_new_pinned : bool := true.\n')
        return '\n'.join(res).replace('(bit_length v )', '(bit_length v)').replace('(gen_mpi_byte_length v )', '(gen_mpi_byte_length v)')
    guarded(out, 'MPI', t_mpi)

    stree = parse('pgpy/packet/subpackets/types.py')
    shdr = find_class(stree, 'Header')

    def t_sub():
        res = []
        fn = find_method(shdr, 'typeid_int')
        if ast.unparse(fn.body[0]) != 'self._typeid = val & 127': raise Unsupported('typeid_int changed: ' + ast.unparse(fn.body[0]))
        fn = find_method(shdr, 'typeid_bin')
        want = ['v = self.bytes_to_int(val)', 'self.typeid = v', 'self.critical = bool(v & 128)']
        if [ast.unparse(s) for s in fn.body] != want: raise Unsupported('typeid_bin changed')
        fn = find_method(shdr, '__bytearray__')
        want = ['_bytes = bytearray(self.encode_length(self.length))',
                '_bytes += self.int_to_bytes((int(self.critical) << 7) + self.typeid)', 'return _bytes']
        if [ast.unparse(s) for s in fn.body] != want: raise Unsupported('sub Header.__bytearray__ changed')
        res.append('Definition gen_sub_typeid (v : Z) : Z := Z.land v 127.\nDefinition gen_sub_critical (v : Z) : bool := negb (Z.eqb (Z.land v 128) 0).')
        res.append('Definition gen_sub_header_emit (len typeid : Z) (critical : bool) : bytes :=\n'
                   ' (encode_length_gen len true 1) ++ (int_to_bytes (Z.add (Z.shiftl (if critical then 1 else 0) 7) typeid) 1).\n')
        # Header.parse: length decode (after the F8 repair) then typeid
        fn = find_method(shdr, 'parse')
        tr = Tr(names={'packet': ('packet', 'bytes')})
        return '\n'.join(res), fn
    def t_sub_wrap():
        txt, fn = t_sub()
        src = ast.unparse(fn)
        # accepted shapes of the length step: the repaired one, recorded verbatim
        want = ("def parse(self, packet):\n    if 192 <= packet[0] < 255:\n        self.length = (packet[0] - 192 << 8) + packet[1] + 192\n"
                "        del packet[:2]\n    else:\n        self.length = packet\n    self.typeid = packet[:1]\n    del packet[:1]")
        old = "def parse(self, packet):\n    self.length = packet\n    self.typeid = packet[:1]\n    del packet[:1]"
        if src == want: mode = 'true'
        elif src == old: mode = 'false'
        else: raise Unsupported('sub Header.parse changed')
        return txt + 'Definition gen_sub_len_two_octet_band : bool := %s.\n' % mode
    guarded(out, 'subpacket Header', t_sub_wrap)

    ftree = parse('pgpy/packet/fields.py')
    s2k = find_class(ftree, 'String2Key')

    def t_count():
        ms = [m for m in find_methods(s2k, 'count') if any('sdproperty' in ast.unparse(d) for d in m.decorator_list)]
        if len(ms) != 1: raise Unsupported('count getter')
        tr = Tr(names={'self._count': ('c', 'Z')})
        return 'Definition gen_s2k_count (c : Z) : Z :=\n %s.\n' % tr.block(ms[0].body)
    guarded(out, 'String2Key.count', t_count)

    def t_derive():
        # the straight-line arithmetic of derive_key: count, hcount, hleft as functions of
        # (specifier, decoded count, len(hsalt + hpass))
        fn = find_method(s2k, 'derive_key')
        stmts = [st for st in fn.body
                 if (isinstance(st, ast.Assign) and ast.unparse(st.targets[0]) in ('count', 'hcount', 'hleft'))
                 or (isinstance(st, ast.If) and ast.unparse(st.body[0]) == 'count = self.count')]
        if [type(st).__name__ for st in stmts] != ['Assign', 'If', 'Assign', 'Assign'] or \
                [ast.unparse(st.targets[0]) for st in stmts if isinstance(st, ast.Assign)] != ['count', 'hcount', 'hleft'] or \
                len(stmts[1].body) != 1 or stmts[1].orelse:
            raise Unsupported('derive_key arithmetic shape')
        sl = [st for st in fn.body if isinstance(st, ast.Assign) and ast.unparse(st.targets[0]) == 'hashdata']
        if len(sl) != 1 or ast.unparse(sl[0].value) != '(hsalt + hpass) * hcount + (hsalt + hpass)[:hleft]':
            raise Unsupported('derive_key hashdata shape')
        atoms = {'len(hsalt + hpass)': ('l', 'Z'), 'self.specifier': ('spec', 'Z'), 'self.count': ('dcount', 'Z'),
                 'String2KeyType.Iterated': ('(3)', 'Z')}
        class T3(Tr):
            def key(self, e):
                u = ast.unparse(e)
                return u if u in atoms else super().key(e)
        tr = T3(names=atoms)
        ret = ast.parse('def f():\n return (count, hcount, hleft)').body[0].body[0]
        return 'Definition gen_s2k_arith (spec dcount l : Z) : Z * Z * Z :=\n %s.\n' % tr.block(stmts + [ret])
    guarded(out, 'String2Key.derive_key arithmetic', t_derive)

    txt = '\n'.join(out).replace('encode_length_gen', 'gen_encode_length')
    txt = txt.replace('Require Import PV.Lib.Bytes.', 'Require Import PV.Lib.Bytes PV.Gen.Gen_types.')
    write('Gen_ptypes.v', txt)


# ---------- targets: pgpy/constants.py ----------
def gen_consts():
    tree = parse('pgpy/constants.py')
    out = [HDR % 'pgpy/constants.py']
    si = find_class(tree, 'SecurityIssues')

    def t_si():
        consts = class_int_consts(si)
        res = []
        order = ['OK', 'WrongSig', 'Expired', 'Disabled', 'Revoked', 'Invalid', 'BrokenAsymmetricFunc',
                 'HashFunctionNotCollisionResistant', 'HashFunctionNotSecondPreimageResistant',
                 'AsymmetricKeyLengthIsTooShort', 'InsecureCurve', 'NoSelfSignature']
        got = sorted(k[1] for k in consts)
        if sorted(order) != got: raise Unsupported('SecurityIssues members changed: ' + repr(got))
        for n in order:
            res.append('Definition gen_SI_%s : Z := %d.' % (n, consts[('SecurityIssues', n)]))
        fn = find_method(si, 'causes_signature_verify_to_fail')
        if len(fn.body) != 1 or not isinstance(fn.body[0], ast.Return): raise Unsupported('causes_fail shape')
        e = fn.body[0].value
        tr = Tr(names={'self': ('issues', 'Z')}, consts=consts)
        # `self in {members}`  (exact membership)   or   bool(self & (A | B | ...))  (bit test)
        res.append('Definition gen_causes_fail (issues : Z) : bool :=\n %s.\n' % tr.cond(e))
        return '\n'.join(res)
    guarded(out, 'SecurityIssues', t_si)
    write('Gen_consts.v', '\n'.join(out))


def write(name, txt):
    os.makedirs(OUT, exist_ok=True)
    p = os.path.join(OUT, name)
    old = open(p).read() if os.path.exists(p) else None
    if old != txt:
        with open(p, 'w') as f:
            f.write(txt)


def main():
    for g in (gen_types, gen_ptypes, gen_consts):
        try:
            g()
        except Exception as ex:  # whole-file failure: leave a file that does not compile
            FAILED.append((g.__name__, '%s: %s' % (type(ex).__name__, ex)))
            write({'gen_types': 'Gen_types.v', 'gen_ptypes': 'Gen_ptypes.v', 'gen_consts': 'Gen_consts.v'}[g.__name__],
                  '(* TRANSLATION FAILED: %s *)\nTranslation_failed.\n' % str(ex).replace('*)', '* )'))
    for n, r in FAILED:
        print('py2coq: FAILED %s: %s' % (n, r))
    print('py2coq: %d target(s) failed' % len(FAILED))
    return 0


if __name__ == '__main__':
    sys.exit(main())
