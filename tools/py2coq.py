#!/venv/bin/python
"""Fail-closed Python-ast -> Gallina translator for a fixed list of small pure PGPy functions.

Every run regenerates coq/Gen/Gen_*.v from the *current* source under $VERIF_REPO (default /repo).
Anything outside the supported subset raises Unsupported; the target is then emitted as a
comment naming the reason and the Refine lemma that mentions it no longer compiles -> the
obligation counts as broken (the check then searches for a failing input, see DESIGN.md 2.5).

Python int -> Z ; bytes -> list Z ; bool -> bool.

Two translator classes.  `Tr` is the original expression / return-if subset (DESIGN.md 2.3a) and is FROZEN: the three
files Gen_types.v, Gen_ptypes.v, Gen_consts.v must stay byte-identical.  `TrI` (imperative subset) extends it for the
targets added later (Gen_base.v prelude, Gen_pgp.v, Gen_tables.v, Gen_packets.v, Gen_fields.v, Gen_cleartext.v,
Gen_policy.v, Gen_keyring.v, Gen_subarea.v).  Every construct below is translated exactly as stated; anything else raises Unsupported.

Imperative subset (TrI)
  state           a local name is re-bound by `let` at every assignment (x = e, x += e, x.append(o), del x[..]); an `if`
                  whose branches neither return nor raise becomes  let '(v1, .., vn) := if c then .. else .. in ..  over
                  the names that are visible afterwards (assigned in a branch and bound before the `if`, or assigned at
                  the top level of BOTH branches); otherwise the continuation is copied into both branches.
  raising         with raises=True the result is `gres T` (Gen_base.v): GOk v | GRaise "ExceptionClass".
                  `raise E(...)` -> GRaise "E".  Expressions that may raise are hoisted, in evaluation order, in front of
                  the statement containing them:  b[i] (i an integer literal; negative = from the end) -> nth_error /
                  IndexError;  d[k] on a translated dict -> KeyError;  bytearray([v]) with v not a declared octet ->
                  ValueError unless 0 <= v < 256;  declared raising atoms (below).  A raising expression under and / or /
                  a conditional expression is Unsupported (hoisting would change short-circuit evaluation).
  bytes           bytes(x), bytearray(x) of a bytes value: identity;  bytearray(): [];  bytearray([o1, ..]): the list;
                  len(x) -> Z.of_nat (length x);  sum(x) -> sumz x;  a + b -> ++;  a == b / a != b -> eqb_bytes;
                  b'\x00' * n (one-octet literal) -> repeat 0 (Z.to_nat n)  (none when n <= 0);
                  x.append(o) -> x ++ [o]  only for a declared octet o (bytearray.append raises otherwise).
  slices          never raise.  x[:k] firstn k;  x[k:] skipn k;  x[j:k] slice j k   (integer literals >= 0);
                  x[:-k] -> firstn (length x - k) x   (nat subtraction truncates = Python clamps to the empty string);
                  x[-k:] -> lastn k x = skipn (length x - k) x   (all of x when it is shorter than k);
                  any other bound (type Z, sign unknown) -> py_upto / py_from / py_slice of Gen_base.v (negative bound
                  counts from the end, every bound clamped to 0 .. len).
                  del x[:k] == x = x[k:];  del x[k:] == x = x[:k];  del x[0] -> IndexError on [] else skipn 1;
                  del name unbinds the name (a later use is Unsupported).
  hash objects    h = hashlib.new(..) declared as hash object: the octets fed so far ([] at creation); h.update(b) -> h ++ b;
                  the digest is the opaque hash function applied to them.
  dict literals   with integer keys and values -> association list (Gen_base.v zassoc / zhas): k in d, d[k] (KeyError).
  enum tables     IntEnum member lists (`Cls(v)` succeeds exactly for the members); SymmetricKeyAlgorithm.key_size and
                  cipher(.block_size) dict literals as association lists (block sizes of the `cryptography` classes: LIB_BLOCK_BITS).
  loops           for x in <declared opaque list>: body re-binding locals  -> fold_left;
                  for .. in L: if C: raise E                                -> if existsb C L then GRaise "E" else ..;
                  for x in L: if C: break  else: E   (L declared non-empty) -> match find C L with Some x => .. | None =>
                                                                               let x := last L .. in E; ..
  try             try: BODY  except (E1, .., En): raise C(..)   (one handler without a name, no else / finally, no return in BODY)
                  -> match <BODY ending in GOk (names bound in BODY)> with GOk .. => rest | GRaise e => if e is one of the
                  caught classes then GRaise "C" else GRaise e.  Caught = E1 .. En and all their subclasses: builtin classes by the
                  running Python's hierarchy (except ValueError also catches UnicodeEncodeError ..), other classes only as
                  declared per target (exc_parents); pseudo-names of opaque raising atoms ("_decrypt") are never caught.
  with            `with <declared context manager> as x: body` where the manager yields once and does nothing after the
                  yield (checked by the target)  ->  x = <yielded value>; body.
  bool            a == b / a != b on booleans -> Bool.eqb.
  opaque atoms    per target: a source expression TEMPLATE (holes _1 .. _9) -> a Coq term over the translated holes.  This is
                  how attribute chains, method calls on objects, primitives (hashlib, _encrypt, _decrypt, derive_key ..) and
                  random draws become parameters / Section variables of the generated definition.  Raising atoms are
                  option- or gres-valued and are hoisted like indexing.
  fields          per target: attributes that are assigned (self.s2k.usage = ..) are tracked like locals, optionally
                  with the declared semantics of a pinned setter (enum constructor -> ValueError).
  optional bytes  an attribute holding None or octets (declared type 'optbytes') is `option bytes`:  x is None / x is not None
                  -> match;  None -> None;  attr = <bytes value> -> Some v;  bytes(x) / bytearray(x) -> the octets, hoisted
                  with TypeError for None (bytearray(None) raises).
  pinned text     statements a target does not translate are compared with their recorded source text (`pinned`, `skip`,
                  `effects` = pinned statement standing for a declared state update); each must occur exactly once.
                  An effect may update several state variables at once: all new values are computed in the old state.
"""
import ast, os, sys, re

REPO = os.environ.get('VERIF_REPO', '/repo')
OUT = os.environ.get('PY2COQ_OUT') or os.path.join(os.path.dirname(os.path.abspath(__file__)), '..', 'coq', 'Gen')


class Unsupported(Exception):
    pass


class NeedCopy(Unsupported):
    """a branch that was to be joined contains an expression that may raise: the continuation has to be copied instead"""


BIN = {ast.Add: 'Z.add', ast.Sub: 'Z.sub', ast.Mult: 'Z.mul', ast.FloorDiv: 'Z.div', ast.Mod: 'Z.modulo',
       ast.LShift: 'Z.shiftl', ast.RShift: 'Z.shiftr', ast.BitAnd: 'Z.land', ast.BitOr: 'Z.lor', ast.BitXor: 'Z.lxor'}
CMP = {ast.Lt: 'Z.ltb', ast.LtE: 'Z.leb', ast.Gt: 'Z.gtb', ast.GtE: 'Z.geb', ast.Eq: 'Z.eqb'}


class Tr:
    """Translator for one function.
    names:  python name / 'self.attr' -> (coq term, type)   type in {'Z','bool','bytes','nat'}
    calls:  python callee (last attribute or bare name) -> (coq fn, [arg types], ret type, [default coq terms])
    consts: (Class, attr) -> int
    """

    def __init__(self, names=None, calls=None, consts=None, raises=False):
        self.names = dict(names or {})
        self.calls = dict(calls or {})
        self.consts = dict(consts or {})
        self.raises = raises  # function may raise: result is option

    # ---------- expressions ----------
    def key(self, e):
        if isinstance(e, ast.Name):
            return e.id
        if isinstance(e, ast.Attribute) and isinstance(e.value, ast.Name):
            return e.value.id + '.' + e.attr
        return None

    def typ(self, e):
        if isinstance(e, ast.Constant):
            if isinstance(e.value, bool): return 'bool'
            if isinstance(e.value, int): return 'Z'
            if isinstance(e.value, bytes): return 'bytes'
            raise Unsupported('constant ' + repr(e.value))
        k = self.key(e)
        if k is not None:
            if k in self.names: return self.names[k][1]
            if isinstance(e, ast.Attribute) and (e.value.id, e.attr) in self.consts: return 'Z'
            raise Unsupported('unknown name ' + k)
        if isinstance(e, ast.BinOp):
            lt = self.typ(e.left)
            if isinstance(e.op, ast.Add) and lt == 'bytes': return 'bytes'
            return 'Z'
        if isinstance(e, (ast.Compare, ast.BoolOp)): return 'bool'
        if isinstance(e, ast.UnaryOp) and isinstance(e.op, ast.Not): return 'bool'
        if isinstance(e, ast.IfExp): return self.typ(e.body)
        if isinstance(e, ast.Call):
            n = self.callee(e)
            if n == 'bool' and len(e.args) == 1: return 'bool'
            if n == 'int' and len(e.args) == 1: return 'Z'
            if n in self.calls: return self.calls[n][2]
            raise Unsupported('call ' + str(n))
        if isinstance(e, ast.Subscript):
            return 'bytes' if isinstance(e.slice, ast.Slice) else 'Z'
        if isinstance(e, ast.Tuple): return 'tuple'
        if isinstance(e, ast.Dict): return 'dict'
        raise Unsupported('type of ' + ast.dump(e)[:80])

    def callee(self, e):
        f = e.func
        if isinstance(f, ast.Attribute): return f.attr
        if isinstance(f, ast.Name): return f.id
        return None

    def expr(self, e):
        if isinstance(e, ast.Constant):
            if isinstance(e.value, bool): return 'true' if e.value else 'false'
            if isinstance(e.value, int): return '(%d)' % e.value
            if isinstance(e.value, bytes): return '[' + '; '.join(str(b) for b in e.value) + ']'
            raise Unsupported('constant ' + repr(e.value))
        k = self.key(e)
        if k is not None:
            if k in self.names: return self.names[k][0]
            if isinstance(e, ast.Attribute) and (e.value.id, e.attr) in self.consts:
                return '(%d)' % self.consts[(e.value.id, e.attr)]
            raise Unsupported('unknown name ' + k)
        if isinstance(e, ast.BinOp):
            if isinstance(e.op, ast.Add) and self.typ(e.left) == 'bytes':
                if self.typ(e.right) != 'bytes': raise Unsupported('bytes + non-bytes')
                return '(%s ++ %s)' % (self.expr(e.left), self.expr(e.right))
            if type(e.op) not in BIN: raise Unsupported('operator ' + type(e.op).__name__)
            if self.typ(e.left) != 'Z' or self.typ(e.right) != 'Z': raise Unsupported('arith on non-int')
            return '(%s %s %s)' % (BIN[type(e.op)], self.expr(e.left), self.expr(e.right))
        if isinstance(e, ast.Compare):
            if len(e.ops) != 1: raise Unsupported('chained comparison')
            op, l, r = e.ops[0], e.left, e.comparators[0]
            if isinstance(op, (ast.In, ast.NotIn)) and isinstance(r, (ast.Set, ast.List, ast.Tuple)):
                s = '(existsb (Z.eqb %s) [%s])' % (self.expr(l), '; '.join(self.expr(x) for x in r.elts))
                return s if isinstance(op, ast.In) else '(negb %s)' % s
            if self.typ(l) != 'Z' or self.typ(r) != 'Z': raise Unsupported('comparison of non-ints')
            if type(op) in CMP: return '(%s %s %s)' % (CMP[type(op)], self.expr(l), self.expr(r))
            if isinstance(op, ast.NotEq): return '(negb (Z.eqb %s %s))' % (self.expr(l), self.expr(r))
            raise Unsupported('comparison ' + type(op).__name__)
        if isinstance(e, ast.BoolOp):
            op = 'andb' if isinstance(e.op, ast.And) else 'orb'
            out = self.cond(e.values[0])
            for v in e.values[1:]:
                out = '(%s %s %s)' % (op, out, self.cond(v))
            return out
        if isinstance(e, ast.UnaryOp) and isinstance(e.op, ast.Not):
            return '(negb %s)' % self.cond(e.operand)
        if isinstance(e, ast.IfExp):
            return '(if %s then %s else %s)' % (self.cond(e.test), self.expr(e.body), self.expr(e.orelse))
        if isinstance(e, ast.Call):
            n = self.callee(e)
            if n == 'bool' and len(e.args) == 1: return self.cond(e.args[0])
            if n == 'int' and len(e.args) == 1 and self.typ(e.args[0]) == 'bool':
                return '(if %s then 1 else 0)' % self.expr(e.args[0])
            if n not in self.calls: raise Unsupported('call ' + str(n))
            cname, atys, rty, defaults = self.calls[n]
            if e.keywords: raise Unsupported('keyword arguments')
            args = [self.expr(a) for a in e.args]
            for a, t in zip(e.args, atys):
                if self.typ(a) != t: raise Unsupported('argument type of %s: %s vs %s' % (n, self.typ(a), t))
            if len(args) > len(atys): raise Unsupported('too many arguments to ' + n)
            missing = len(atys) - len(args)
            if missing:
                if missing > len(defaults): raise Unsupported('missing arguments to ' + n)
                args += defaults[len(defaults) - missing:]
            return '(%s %s)' % (cname, ' '.join(args))
        if isinstance(e, ast.Subscript):
            if self.typ(e.value) == 'dict':
                return self.dict_lookup(e.value, e.slice)
            if self.typ(e.value) != 'bytes': raise Unsupported('subscript of non-bytes')
            if isinstance(e.slice, ast.Slice):
                if e.slice.step is not None: raise Unsupported('slice step')
                lo = self.natexpr(e.slice.lower) if e.slice.lower is not None else '0%nat'
                if e.slice.upper is None:
                    return '(skipn %s %s)' % (lo, self.expr(e.value))
                return '(slice %s %s %s)' % (lo, self.natexpr(e.slice.upper), self.expr(e.value))
            raise Unsupported('indexing (may raise IndexError)')
        if isinstance(e, ast.Tuple):
            return '(' + ', '.join(self.expr(x) for x in e.elts) + ')'
        raise Unsupported('expression ' + ast.dump(e)[:80])

    def dict_lookup(self, d, k):
        # {c1: v1, ...}[k] with int literal keys -> nested if, KeyError -> only allowed when raises
        if not self.raises: raise Unsupported('dict lookup may raise KeyError')
        out = 'None'
        for kk, vv in reversed(list(zip(d.keys, d.values))):
            out = '(if Z.eqb %s %s then Some %s else %s)' % (self.expr(k), self.expr(kk), self.expr(vv), out)
        return out

    def natexpr(self, e):
        # non-negative index expression: names of type nat, int literals >= 0, and sums of those
        if isinstance(e, ast.Constant) and isinstance(e.value, int) and e.value >= 0:
            return '%d%%nat' % e.value
        k = self.key(e)
        if k is not None and k in self.names and self.names[k][1] == 'nat':
            return self.names[k][0]
        if isinstance(e, ast.BinOp) and isinstance(e.op, ast.Add):
            return '(%s + %s)%%nat' % (self.natexpr(e.left), self.natexpr(e.right))
        if self.typ(e) == 'Z':
            return '(Z.to_nat %s)' % self.expr(e)
        raise Unsupported('index expression ' + ast.dump(e)[:60])

    def cond(self, e):
        t = self.typ(e)
        if t == 'bool': return self.expr(e)
        if t == 'Z': return '(negb (Z.eqb %s 0))' % self.expr(e)
        raise Unsupported('truthiness of ' + t)

    # ---------- statements ----------
    def ret(self, s):
        return ('(Some %s)' % s) if self.raises else s

    def block(self, stmts, k=None):
        """Translate a statement list into a Gallina expression for the returned value.
        k = continuation text for fall-through, None = the block must return."""
        if not stmts:
            if k is None: raise Unsupported('fall-through without return')
            return k
        s, rest = stmts[0], stmts[1:]
        if isinstance(s, ast.Return):
            if s.value is None: raise Unsupported('bare return')
            return self.ret(self.expr(s.value))
        if isinstance(s, ast.Raise):
            if not self.raises: raise Unsupported('raise in a function declared total')
            return 'None'
        if isinstance(s, ast.Assign) and len(s.targets) == 1 and isinstance(s.targets[0], ast.Name):
            n = s.targets[0].id
            t = self.typ(s.value)
            v = self.expr(s.value)
            saved = self.names.get(n)
            self.names[n] = (n, t)
            body = self.block(rest, k)
            if saved is None: del self.names[n]
            else: self.names[n] = saved
            return '(let %s := %s in\n %s)' % (n, v, body)
        if isinstance(s, ast.AugAssign) and isinstance(s.target, ast.Name):
            v = ast.BinOp(left=ast.Name(id=s.target.id, ctx=ast.Load()), op=s.op, right=s.value)
            return self.block([ast.Assign(targets=[s.target], value=v)] + rest, k)
        if isinstance(s, ast.If):
            kk = self.block(rest, k) if (rest or k is not None) else None
            return '(if %s then %s else %s)' % (self.cond(s.test), self.block(s.body, kk), self.block(s.orelse, kk))
        if isinstance(s, ast.Expr) and isinstance(s.value, ast.Constant) and isinstance(s.value.value, str):
            return self.block(rest, k)
        if isinstance(s, ast.Pass):
            return self.block(rest, k)
        raise Unsupported('statement ' + ast.dump(s)[:80])


# ---------- imperative subset (new targets; the class above is frozen so that old output stays byte-identical) ----------
def tmatch(pat, e, env):
    """structural match of AST e against the template AST pat; names _1 .. _9 of the template are holes"""
    if isinstance(pat, ast.Name) and re.fullmatch(r'_\d', pat.id):
        if pat.id in env:
            return ast.dump(env[pat.id]) == ast.dump(e)
        env[pat.id] = e
        return True
    if type(pat) is not type(e):
        return False
    for f in pat._fields:
        a, b = getattr(pat, f, None), getattr(e, f, None)
        if isinstance(a, list):
            if not isinstance(b, list) or len(a) != len(b): return False
            for x, y in zip(a, b):
                if isinstance(x, ast.AST):
                    if not isinstance(y, ast.AST) or not tmatch(x, y, env): return False
                elif x != y:
                    return False
        elif isinstance(a, ast.AST):
            if not isinstance(b, ast.AST) or not tmatch(a, b, env): return False
        elif a != b:
            return False
    return True


def tpl(src):
    return ast.parse(src, mode='eval').body


RESERVED = {'length', 'firstn', 'skipn', 'repeat', 'sumz', 'lastn', 'app', 'fix', 'end', 'at', 'as', 'fun', 'match', 'type',
            'in', 'let', 'if', 'then', 'else', 'with', 'return', 'bytes', 'slice', 'be', 'unbe', 'map', 'filter', 'rev', 'nth',
            'fst', 'snd', 'Some', 'None', 'true', 'false', 'negb', 'andb', 'orb', 'existsb', 'forallb'}


def has_exit(stmts):
    """does the statement list contain a return / raise (at any depth)"""
    for s in stmts:
        for n in ast.walk(s):
            if isinstance(n, (ast.Return, ast.Raise)): return True
    return False


class TrI(Tr):
    """Imperative subset on top of Tr (see the module docstring, "Imperative subset").
    atoms : [(template source, coq format over the translated holes, result type, [hole types])]   opaque total expressions
    ratoms: [(template source, coq format of an OPTION-valued term, result type, [hole types], exception name)]
            expressions that may raise: hoisted in evaluation order in front of the statement that contains them
    skip  : exact source texts (ast.unparse) of statements that are passed over; each must occur exactly once
    octets: coq terms declared to be octets (0..255), so that bytearray.append / bytearray([..]) cannot raise on them
    raises: result type is `gres T` (GOk / GRaise "ExceptionClass") instead of T
    """

    def __init__(self, names=None, calls=None, consts=None, atoms=(), ratoms=(), skip=(), octets=(), raises=False,
                 fields=None, hashobjs=(), lists=None, effects=None, opaque=(), exc_parents=None):
        super().__init__(names, calls, consts, raises)
        self.fields = dict(fields or {})      # 'self.s2k.usage' -> (coq name, type): attributes that are assigned, tracked like locals
        self.hashobjs = set(hashobjs)         # local names holding a hashlib object (modelled as the octets fed to it so far)
        self.lists = dict(lists or {})        # source text of an iterable -> (coq term : list Z, element type)
        self.effects = dict(effects or {})    # exact source text of a statement -> (state variable, coq term of its new value, type)
        self.opaque = set(opaque)             # names of opaque types (values are only passed around)
        self.exc_parents = dict(exc_parents or {})   # non-builtin exception class -> [its base classes] (for `except` matching)
        self.atoms = [(tpl(a[0]),) + tuple(a[1:]) for a in atoms]
        self.ratoms = [(tpl(a[0]),) + tuple(a[1:]) for a in ratoms]
        self.skip = {s: set() for s in skip}
        self.octets = set(octets)
        self.effects_seen = {}
        self.injoin = 0         # > 0 while a branch of a joined `if` / a fold body is translated: nothing in there may raise
        self.pending = None     # list of (var, option term, exception name) while a statement is being translated
        self.noho = 0           # > 0 inside a short-circuit operand / conditional-expression arm: hoisting is not sound there
        self.cache = {}
        self.fresh = 0

    def key(self, e):
        if isinstance(e, ast.Attribute):
            u = ast.unparse(e)
            if u in self.fields: return u
        return super().key(e)

    # ----- opaque atoms -----
    def find_atom(self, e):
        for i, a in enumerate(self.atoms):
            env = {}
            if tmatch(a[0], e, env): return ('a', a, env)
        for i, a in enumerate(self.ratoms):
            env = {}
            if tmatch(a[0], e, env): return ('r', a, env)
        return None

    def holes(self, a, env):
        out = []
        for i, t in enumerate(a[3]):
            h = env.get('_%d' % (i + 1))
            if h is None: raise Unsupported('template hole _%d unbound' % (i + 1))
            if self.typ(h) != t: raise Unsupported('template hole _%d: %s vs %s' % (i + 1, self.typ(h), t))
            out.append(self.expr(h))
        return out

    def hoist(self, e, opt, exc):
        if self.pending is None or self.noho:
            raise Unsupported('expression that may raise (%s) in a position where it cannot be hoisted: %s' % (exc, ast.unparse(e)[:60]))
        if id(e) in self.cache: return self.cache[id(e)]
        v = 'h%d_' % self.fresh
        self.fresh += 1
        self.pending.append((v, opt, exc))
        self.cache[id(e)] = v
        return v

    def is_octet(self, e):
        if isinstance(e, ast.Constant) and isinstance(e.value, int) and not isinstance(e.value, bool):
            return 0 <= e.value < 256
        if isinstance(e, ast.Call) and self.callee(e) == 'int' and len(e.args) == 1 and self.typ(e.args[0]) == 'bool':
            return True
        try:
            return self.expr(e) in self.octets
        except Unsupported:
            return False

    def octet_list(self, l):
        if not isinstance(l, ast.List): raise Unsupported('bytearray([...]) of a non-literal list')
        out = []
        for x in l.elts:
            if self.typ(x) != 'Z': raise Unsupported('bytearray([..]) of a non-integer')
            if self.is_octet(x):
                out.append(self.expr(x))
            else:
                # bytearray([v]) raises ValueError unless 0 <= v < 256
                v = self.expr(x)
                out.append(self.hoist(x, '(if andb (Z.leb 0 %s) (Z.ltb %s 256) then Some %s else None)' % (v, v, v), 'ValueError'))
        return '[' + '; '.join(out) + ']'

    # ----- types -----
    def typ(self, e):
        m = self.find_atom(e)
        if m: return m[1][2]
        if isinstance(e, ast.Call):
            n = self.callee(e)
            if isinstance(e.func, ast.Name):
                if n in ('bytes', 'bytearray') and len(e.args) <= 1 and not e.keywords: return 'bytes'
                if n in ('len', 'sum') and len(e.args) == 1 and not e.keywords: return 'Z'
        if isinstance(e, ast.Constant) and e.value is None: return 'none'
        if isinstance(e, ast.BinOp) and isinstance(e.op, ast.Mult) and self.typ(e.left) == 'bytes': return 'bytes'
        if isinstance(e, ast.UnaryOp) and isinstance(e.op, ast.USub) and self.typ(e.operand) == 'Z': return 'Z'
        if isinstance(e, ast.Subscript) and not isinstance(e.slice, ast.Slice):
            if self.typ(e.value) == 'bytes': return 'Z'
        return super().typ(e)

    # ----- expressions -----
    def expr(self, e):
        m = self.find_atom(e)
        if m:
            kind, a, env = m
            txt = a[1].format(*self.holes(a, env))
            if kind == 'a': return txt
            return self.hoist(e, txt, a[4])
        if isinstance(e, ast.Constant) and e.value is None: return 'None'
        if isinstance(e, ast.Compare) and len(e.ops) == 1 and isinstance(e.ops[0], (ast.Is, ast.IsNot)) \
                and isinstance(e.comparators[0], ast.Constant) and e.comparators[0].value is None and self.typ(e.left) == 'optbytes':
            # x is None / x is not None for an attribute holding None or octets (option bytes)
            a, b = ('true', 'false') if isinstance(e.ops[0], ast.Is) else ('false', 'true')
            return '(match %s with None => %s | Some _ => %s end)' % (self.expr(e.left), a, b)
        if isinstance(e, ast.Call) and isinstance(e.func, ast.Name) and not e.keywords:
            n = e.func.id
            if n in ('bytes', 'bytearray'):
                if len(e.args) == 0: return '[]'
                if len(e.args) == 1:
                    a = e.args[0]
                    if isinstance(a, ast.List): return self.octet_list(a)
                    if self.typ(a) == 'bytes': return self.expr(a)          # conversion between bytes / bytearray: identity
                    if self.typ(a) == 'optbytes': return self.hoist(e, self.expr(a), 'TypeError')    # bytearray(None) raises TypeError
                    raise Unsupported('%s(%s)' % (n, self.typ(a)))
            if n == 'len' and len(e.args) == 1:
                if self.typ(e.args[0]) != 'bytes': raise Unsupported('len of non-bytes')
                return '(Z.of_nat (length %s))' % self.expr(e.args[0])
            if n == 'sum' and len(e.args) == 1:
                if self.typ(e.args[0]) != 'bytes': raise Unsupported('sum of non-bytes')
                return '(sumz %s)' % self.expr(e.args[0])
        if isinstance(e, ast.UnaryOp) and isinstance(e.op, ast.USub) and self.typ(e.operand) == 'Z':
            return '(Z.opp %s)' % self.expr(e.operand)
        if isinstance(e, ast.BinOp) and isinstance(e.op, ast.Mult) and self.typ(e.left) == 'bytes':
            # b'\x00' * n : n copies (none when n <= 0)
            if not (isinstance(e.left, ast.Constant) and len(e.left.value) == 1) or self.typ(e.right) != 'Z':
                raise Unsupported('bytes * int for anything but a one-octet literal')
            return '(repeat (%d) (Z.to_nat %s))' % (e.left.value[0], self.expr(e.right))
        if isinstance(e, ast.Compare) and len(e.ops) == 1 and isinstance(e.ops[0], (ast.Eq, ast.NotEq)) \
                and self.typ(e.left) == 'bytes' and self.typ(e.comparators[0]) == 'bytes':
            s = '(eqb_bytes %s %s)' % (self.expr(e.left), self.expr(e.comparators[0]))
            return s if isinstance(e.ops[0], ast.Eq) else '(negb %s)' % s
        if isinstance(e, ast.Compare) and len(e.ops) == 1 and isinstance(e.ops[0], (ast.Eq, ast.NotEq)) \
                and self.typ(e.left) == 'bool' and self.typ(e.comparators[0]) == 'bool':
            s = '(Bool.eqb %s %s)' % (self.expr(e.left), self.expr(e.comparators[0]))
            return s if isinstance(e.ops[0], ast.Eq) else '(negb %s)' % s
        if isinstance(e, ast.BoolOp):
            op = 'andb' if isinstance(e.op, ast.And) else 'orb'
            out = self.cond(e.values[0])
            self.noho += 1
            try:
                for v in e.values[1:]:
                    out = '(%s %s %s)' % (op, out, self.cond(v))
            finally:
                self.noho -= 1
            return out
        if isinstance(e, ast.IfExp):
            c = self.cond(e.test)
            self.noho += 1
            try:
                return '(if %s then %s else %s)' % (c, self.expr(e.body), self.expr(e.orelse))
            finally:
                self.noho -= 1
        if isinstance(e, ast.Compare) and len(e.ops) == 1 and isinstance(e.ops[0], (ast.In, ast.NotIn)) \
                and isinstance(e.comparators[0], ast.Name) and self.typ(e.comparators[0]) == 'dict':
            # k in d for a dict d with integer keys (an association list)
            if self.typ(e.left) != 'Z': raise Unsupported('dict key of type ' + self.typ(e.left))
            s = '(zhas %s %s)' % (self.expr(e.left), self.expr(e.comparators[0]))
            return s if isinstance(e.ops[0], ast.In) else '(negb %s)' % s
        if isinstance(e, ast.Subscript) and isinstance(e.value, ast.Name) and self.typ(e.value) == 'dict':
            # d[k]: KeyError when absent
            if isinstance(e.slice, ast.Slice) or self.typ(e.slice) != 'Z': raise Unsupported('dict subscript')
            return self.hoist(e, '(zassoc %s %s)' % (self.expr(e.slice), self.expr(e.value)), 'KeyError')
        if isinstance(e, ast.Subscript) and self.typ(e.value) == 'bytes':
            v = self.expr(e.value)
            if isinstance(e.slice, ast.Slice):
                return self.pyslice(v, e.slice)
            # indexing raises IndexError outside the range; negative literal indices count from the end
            i = e.slice
            if isinstance(i, ast.Constant) and isinstance(i.value, int) and not isinstance(i.value, bool):
                if i.value >= 0:
                    return self.hoist(e, '(nth_error %s %d%%nat)' % (v, i.value), 'IndexError')
                return self.hoist(e, '(nth_error (rev %s) %d%%nat)' % (v, -i.value - 1), 'IndexError')
            raise Unsupported('index that is not an integer literal')
        return super().expr(e)

    def neglit(self, b):
        """value of a NEGATIVE integer literal bound (-20), else None"""
        if isinstance(b, ast.UnaryOp) and isinstance(b.op, ast.USub) and isinstance(b.operand, ast.Constant) \
                and isinstance(b.operand.value, int) and not isinstance(b.operand.value, bool) and b.operand.value > 0:
            return -b.operand.value
        return None

    def poslit(self, b):
        if isinstance(b, ast.Constant) and isinstance(b.value, int) and not isinstance(b.value, bool) and b.value >= 0:
            return b.value
        return None

    def pyslice(self, v, sl):
        """Python slice v[lo:hi] (clamping, never raising).
        literal bounds:  v[:k] -> firstn k v;  v[k:] -> skipn k v;  v[j:k] -> slice j k v          (k, j >= 0)
                         v[:-k] -> firstn (length v - k) v   (empty when len < k: nat subtraction truncates, as Python clamps)
                         v[-k:] -> lastn k v = skipn (length v - k) v   (the whole of v when len < k)
        other bounds (type Z, sign unknown): py_upto / py_from / py_slice of Gen_base.v."""
        if sl.step is not None: raise Unsupported('slice step')
        lo, hi = sl.lower, sl.upper
        if lo is None and hi is None: return v
        if lo is None:
            if self.poslit(hi) is not None: return '(firstn %d%%nat %s)' % (self.poslit(hi), v)
            if self.neglit(hi) is not None: return '(firstn (length %s - %d%%nat)%%nat %s)' % (v, -self.neglit(hi), v)
            if self.typ(hi) != 'Z': raise Unsupported('slice bound type')
            return '(py_upto %s %s)' % (self.expr(hi), v)
        if hi is None:
            if self.poslit(lo) is not None: return '(skipn %d%%nat %s)' % (self.poslit(lo), v)
            if self.neglit(lo) is not None: return '(lastn %d%%nat %s)' % (-self.neglit(lo), v)
            if self.typ(lo) != 'Z': raise Unsupported('slice bound type')
            return '(py_from %s %s)' % (self.expr(lo), v)
        if self.poslit(lo) is not None and self.poslit(hi) is not None:
            return '(slice %d%%nat %d%%nat %s)' % (self.poslit(lo), self.poslit(hi), v)
        if self.typ(lo) != 'Z' or self.typ(hi) != 'Z': raise Unsupported('slice bound type')
        return '(py_slice %s %s %s)' % (self.expr(lo), self.expr(hi), v)

    # ----- statements -----
    def cname(self, n):
        if n in self.fields: return self.fields[n][0]
        return n + '_' if n in RESERVED or re.fullmatch(r'h\d+_', n) else n

    def ret(self, s):
        return ('(GOk %s)' % s) if self.raises else s

    def wrap(self, pend, body):
        for v, opt, exc in reversed(pend):
            if exc is None:   # the term is itself gres-valued: its exception propagates
                body = '(match %s with GOk %s => %s | GRaise e_ => GRaise e_ end)' % (opt, v, body)
            else:
                body = '(match %s with Some %s => %s | None => GRaise "%s"%%string end)' % (opt, v, body, exc)
        return body

    def simple(self, fn):
        """run fn() (which translates the expressions of ONE simple statement) collecting the hoisted raising atoms"""
        if self.pending is not None: raise Unsupported('nested statement translation')
        self.pending = []
        self.cache = {}         # (a statement may be translated again when a continuation is copied)
        try:
            r = fn()
            pend = self.pending
        finally:
            self.pending = None
        if pend and not self.raises: raise Unsupported('expression may raise %s in a function declared total' % pend[0][2])
        if pend and self.injoin: raise NeedCopy('expression may raise inside a joined branch / loop body')
        return r, pend

    def coqname(self, n):
        return self.names[n][0] if n in self.names else self.cname(n)

    def bind(self, n, t, v, rest, k, pend=()):
        cn = self.coqname(n)
        saved = self.names.get(n)
        self.names[n] = (cn, t)
        try:
            body = self.block(rest, k)
        finally:
            if saved is None: del self.names[n]
            else: self.names[n] = saved
        return self.wrap(pend, '(let %s := %s in\n %s)' % (cn, v, body))

    def assigned(self, stmts, top=None):
        """local names (re)bound by the statement list (any depth)"""
        out = []
        for s in stmts:
            for n in ast.walk(s):
                t = None
                if isinstance(n, ast.stmt) and self.effects and ast.unparse(n) in self.effects:
                    ups = self.effects[ast.unparse(n)]
                    for u in ([ups] if isinstance(ups, tuple) else ups):
                        if u[0] not in out: out.append(u[0])
                    continue
                if isinstance(n, ast.Assign) and len(n.targets) == 1 and isinstance(n.targets[0], ast.Name): t = n.targets[0].id
                elif isinstance(n, ast.Assign) and len(n.targets) == 1 and ast.unparse(n.targets[0]) in self.fields: t = ast.unparse(n.targets[0])
                elif isinstance(n, ast.AugAssign) and isinstance(n.target, ast.Name): t = n.target.id
                elif isinstance(n, ast.Expr) and isinstance(n.value, ast.Call) and isinstance(n.value.func, ast.Attribute) \
                        and n.value.func.attr in ('append', 'extend', 'update') and isinstance(n.value.func.value, ast.Name): t = n.value.func.value.id
                elif isinstance(n, ast.Delete):
                    for x in n.targets:
                        if isinstance(x, ast.Subscript) and isinstance(x.value, ast.Name) and x.value.id not in out: out.append(x.value.id)
                        if isinstance(x, ast.Name) and x.id not in out: out.append(x.id)
                if t is not None and t not in out: out.append(t)
        return out

    def definitely(self, stmts):
        """names assigned by a top-level `name = ...` of the list (assigned on every path through it)"""
        return [s.targets[0].id for s in stmts
                if isinstance(s, ast.Assign) and len(s.targets) == 1 and isinstance(s.targets[0], ast.Name)]

    def kont(self, k):
        return k() if callable(k) else k

    def block(self, stmts, k=None):
        if not stmts:
            if k is None: raise Unsupported('fall-through without return')
            return self.kont(k)
        s, rest = stmts[0], stmts[1:]
        src = ast.unparse(s)
        if src in self.skip:
            self.skip[src].add(id(s))      # (a continuation may be translated more than once: count statements, not visits)
            return self.block(rest, k)
        if src in self.effects:
            # a pinned statement whose effect is declared: state variable := term
            ups = self.effects[src]
            if isinstance(ups, tuple): ups = [ups]
            self.effects_seen.setdefault(src, set()).add(id(s))
            for var, val, t in ups:
                if var not in self.names or self.names[var][1] != t: raise Unsupported('effect on undeclared state ' + var)
            if len(ups) == 1:
                var, val, t = ups[0]
                return self.bind(var, t, val, rest, k)
            # several state variables change at once: all new values are computed in the old state, then bound
            body = self.block(rest, k)
            for i, (var, val, t) in reversed(list(enumerate(ups))):
                body = '(let %s := e%d_ in\n %s)' % (self.names[var][0], i, body)
            for i, (var, val, t) in reversed(list(enumerate(ups))):
                body = '(let e%d_ := %s in\n %s)' % (i, val, body)
            return body
        if isinstance(s, ast.Expr) and isinstance(s.value, ast.Constant) and isinstance(s.value.value, str):
            return self.block(rest, k)
        if isinstance(s, ast.Pass):
            return self.block(rest, k)
        if isinstance(s, ast.Return):
            if s.value is None: raise Unsupported('bare return')
            v, pend = self.simple(lambda: self.expr(s.value))
            return self.wrap(pend, self.ret(v))
        if isinstance(s, ast.Raise):
            if not self.raises: raise Unsupported('raise in a function declared total')
            if s.cause is not None: raise Unsupported('raise ... from')
            x = s.exc
            if isinstance(x, ast.Call): x = x.func
            if not isinstance(x, ast.Name): raise Unsupported('raise of ' + ast.unparse(s)[:40])
            return '(GRaise "%s"%%string)' % x.id
        if isinstance(s, ast.Assign) and len(s.targets) == 1 and isinstance(s.targets[0], ast.Name):
            (t, v), pend = self.simple(lambda: (self.typ(s.value), self.expr(s.value)))
            if t not in ('Z', 'bool', 'bytes') and t not in self.opaque: raise Unsupported('assignment of a value of type ' + t)
            return self.bind(s.targets[0].id, t, v, rest, k, pend)
        if isinstance(s, ast.AugAssign) and isinstance(s.target, ast.Name):
            v = ast.BinOp(left=ast.Name(id=s.target.id, ctx=ast.Load()), op=s.op, right=s.value)
            a = ast.fix_missing_locations(ast.copy_location(ast.Assign(targets=[s.target], value=v), s))
            return self.block([a] + rest, k)
        if isinstance(s, ast.Assign) and len(s.targets) == 1 and isinstance(s.targets[0], ast.Attribute) \
                and ast.unparse(s.targets[0]) in self.fields:
            # obj.attr = value for a declared attribute: tracked like a local (no setter semantics beyond the declared type)
            fk = ast.unparse(s.targets[0])
            cn, ft = self.fields[fk][:2]
            def f():
                t, v = self.typ(s.value), self.expr(s.value)
                if len(self.fields[fk]) > 2:
                    # declared setter semantics: the stored value is (option term over the assigned value), else the exception
                    fmt, exc = self.fields[fk][2:4]
                    v = self.hoist(s, fmt.format(v), exc)
                return t, v
            (t, v), pend = self.simple(f)
            if ft == 'optbytes' and t == 'bytes': t, v = ft, '(Some %s)' % v       # an attribute holding None or octets
            if ft == 'optbytes' and t == 'none': t, v = ft, '(@None bytes)'
            if t != ft: raise Unsupported('field %s: %s vs %s' % (fk, t, ft))
            saved = self.names.get(fk)
            self.names[fk] = (cn, ft)
            try:
                body = self.block(rest, k)
            finally:
                if saved is None: del self.names[fk]
                else: self.names[fk] = saved
            return self.wrap(pend, '(let %s := %s in\n %s)' % (cn, v, body))
        if isinstance(s, ast.Expr) and isinstance(s.value, ast.Call) and isinstance(s.value.func, ast.Attribute) \
                and s.value.func.attr == 'update' and isinstance(s.value.func.value, ast.Name) \
                and s.value.func.value.id in self.hashobjs and len(s.value.args) == 1 and not s.value.keywords:
            # h.update(b): the hash object is the concatenation of what it was fed
            n = s.value.func.value.id
            if n not in self.names or self.names[n][1] != 'bytes': raise Unsupported('update of ' + n)
            a = s.value.args[0]
            def f():
                if self.typ(a) != 'bytes': raise Unsupported('update with non-bytes')
                return self.expr(a)
            v, pend = self.simple(f)
            return self.bind(n, 'bytes', '(%s ++ %s)' % (self.names[n][0], v), rest, k, pend)
        if isinstance(s, ast.Expr) and isinstance(s.value, ast.Call) and self.find_atom(s.value) and self.find_atom(s.value)[0] == 'r':
            # a call evaluated for its exception only
            _, pend = self.simple(lambda: self.expr(s.value))
            return self.wrap(pend, self.block(rest, k))
        if isinstance(s, ast.With) and len(s.items) == 1 and isinstance(s.items[0].optional_vars, ast.Name) \
                and self.find_atom(s.items[0].context_expr) and self.find_atom(s.items[0].context_expr)[0] == 'r':
            # with <declared context manager that yields once and does nothing afterwards> as x: body   ->   x = <yielded value>; body
            a = ast.fix_missing_locations(ast.copy_location(ast.Assign(targets=[s.items[0].optional_vars], value=s.items[0].context_expr), s))
            return self.block([a] + s.body + rest, k)
        if isinstance(s, ast.For) and ast.unparse(s.iter) in self.lists and (s.orelse or any(isinstance(n, ast.Raise) for b in s.body for n in ast.walk(b))):
            spec = self.lists[ast.unparse(s.iter)]
            lst, et = spec[0], spec[1]
            tgt = [s.target] if isinstance(s.target, ast.Name) else list(s.target.elts) if isinstance(s.target, ast.Tuple) else None
            ets = [et] if isinstance(et, str) else list(et)
            if tgt is None or not all(isinstance(x, ast.Name) for x in tgt) or len(tgt) != len(ets): raise Unsupported('loop target')
            if len(s.body) != 1 or not isinstance(s.body[0], ast.If) or s.body[0].orelse or len(s.body[0].body) != 1:
                raise Unsupported('search loop: body is not a single `if`')
            saved = {x.id: self.names.get(x.id) for x in tgt}
            for x, t in zip(tgt, ets): self.names[x.id] = (self.cname(x.id), t)
            pat = self.cname(tgt[0].id) if len(tgt) == 1 else "'(" + ', '.join(self.cname(x.id) for x in tgt) + ')'
            try:
                test, pend = self.simple(lambda: self.cond(s.body[0].test))
                if pend: raise Unsupported('raising expression in a loop test')
                act = s.body[0].body[0]
                kk = (lambda: self.block(rest, k)) if (rest or k is not None) else None
                if isinstance(act, ast.Raise) and not s.orelse:
                    # for x in L: if C: raise E     ->   if existsb C L then raise E else continue
                    r = self.block([act])
                    for x in tgt:
                        if saved[x.id] is None: del self.names[x.id]
                        else: self.names[x.id] = saved[x.id]
                    saved = {}
                    return '(if existsb (fun %s => %s) %s then %s else %s)' % (pat, test, lst, r, self.block(rest, k))
                if isinstance(act, ast.Break) and s.orelse and len(tgt) == 1 and len(spec) > 2:
                    # for x in L: if C: break   else: E       (L not empty, spec[2] = its first element)
                    #   ->  match find C L with Some x => rest | None => (x = last element) E; rest
                    some = self.kont(kk) if kk else None
                    none = self.block(s.orelse, kk)
                    if some is None: raise Unsupported('search loop at the end of a function')
                    x = self.cname(tgt[0].id)
                    return ('(match find (fun %s => %s) %s with Some %s => %s | None => (let %s := last %s %s in %s) end)'
                            % (x, test, lst, x, some, x, lst, spec[2], none))
                raise Unsupported('search loop shape')
            finally:
                for x in tgt:
                    if x.id in saved:
                        if saved[x.id] is None: self.names.pop(x.id, None)
                        else: self.names[x.id] = saved[x.id]
        if isinstance(s, ast.For) and not s.orelse and isinstance(s.target, ast.Name) and ast.unparse(s.iter) in self.lists:
            # for x in <opaque list>: body rebinding locals (no return / raise / break)  ->  fold_left over the list
            if has_exit(s.body) or any(isinstance(n, (ast.Break, ast.Continue)) for b in s.body for n in ast.walk(b)):
                raise Unsupported('loop body with return / raise / break / continue')
            lst, et = self.lists[ast.unparse(s.iter)]
            acc = [v for v in self.assigned(s.body) if v in self.names]
            if not acc or any(v == s.target.id for v in acc): raise Unsupported('loop accumulators')
            x = s.target.id
            saved = self.names.get(x)
            self.names[x] = (self.cname(x), et)
            types = {v: self.names[v][1] for v in acc}
            def kf():
                for v in acc:
                    if v not in self.names or self.names[v][1] != types[v]: raise Unsupported('loop changes the type of ' + v)
                return '(' + ', '.join(self.names[v][0] for v in acc) + ')'
            self.injoin += 1
            try:
                body = self.block(s.body, kf)
            except NeedCopy as ex:
                raise Unsupported('loop body: ' + str(ex))
            finally:
                self.injoin -= 1
                if saved is None: del self.names[x]
                else: self.names[x] = saved
            tup = '(' + ', '.join(self.names[v][0] for v in acc) + ')'
            pat = self.names[acc[0]][0] if len(acc) == 1 else "'" + tup
            fold = '(fold_left (fun st_ %s => let %s := st_ in %s) %s %s)' % (self.cname(x), pat, body, lst, tup)
            return '(let %s := %s in\n %s)' % (pat, fold, self.block(rest, k))
        if isinstance(s, ast.Expr) and isinstance(s.value, ast.Call) and isinstance(s.value.func, ast.Attribute) \
                and s.value.func.attr == 'append' and isinstance(s.value.func.value, ast.Name) \
                and len(s.value.args) == 1 and not s.value.keywords:
            # x.append(o): bytearray.append raises ValueError unless 0 <= o < 256 -> o must be a declared octet
            n = s.value.func.value.id
            if n not in self.names or self.names[n][1] != 'bytes': raise Unsupported('append to non-bytes ' + n)
            a = s.value.args[0]
            def f():
                if self.typ(a) != 'Z' or not self.is_octet(a):
                    raise Unsupported('append of a value not known to be an octet: ' + ast.unparse(a)[:60])
                return self.expr(a)
            v, pend = self.simple(f)
            return self.bind(n, 'bytes', '(%s ++ [%s])' % (self.names[n][0], v), rest, k, pend)
        if isinstance(s, ast.Delete) and len(s.targets) == 1:
            x = s.targets[0]
            if isinstance(x, ast.Name):
                # del name: the name is unbound afterwards (a later use is then an unknown name -> Unsupported)
                if x.id not in self.names: raise Unsupported('del of unknown name ' + x.id)
                saved = self.names.pop(x.id)
                try:
                    return self.block(rest, k)
                finally:
                    self.names[x.id] = saved
            if isinstance(x, ast.Subscript) and isinstance(x.value, ast.Name) and x.value.id in self.names \
                    and self.names[x.value.id][1] == 'bytes':
                n = x.value.id
                cn = self.names[n][0]
                if isinstance(x.slice, ast.Slice):
                    sl = x.slice
                    if sl.step is not None: raise Unsupported('del with slice step')
                    def f():
                        if sl.lower is None and sl.upper is not None:      # del x[:k]  ==  x = x[k:]
                            return self.pyslice(cn, ast.Slice(lower=sl.upper, upper=None, step=None))
                        if sl.upper is None and sl.lower is not None:      # del x[k:]  ==  x = x[:k]
                            return self.pyslice(cn, ast.Slice(lower=None, upper=sl.lower, step=None))
                        raise Unsupported('del x[a:b] with both or no bounds')
                    v, pend = self.simple(f)
                    return self.bind(n, 'bytes', v, rest, k, pend)
                if self.poslit(x.slice) == 0:
                    # del x[0]: IndexError on an empty sequence
                    if not self.raises: raise Unsupported('del x[0] may raise IndexError')
                    body = self.bind(n, 'bytes', '(skipn 1%%nat %s)' % cn, rest, k)
                    return '(match %s with [] => GRaise "IndexError"%%string | _ :: _ => %s end)' % (cn, body)
            raise Unsupported('del ' + ast.unparse(x)[:60])
        if isinstance(s, ast.Try):
            return self.try_stmt(s, rest, k)
        if isinstance(s, ast.If):
            c, pend = self.simple(lambda: self.cond(s.test))
            joined = None
            if not has_exit(s.body) and not has_exit(s.orelse):
                try:
                    joined = self.join_if(s, c, pend, rest, k)
                except NeedCopy:
                    if self.injoin: raise      # we are ourselves inside a joined branch: let the outer `if` fall back
            if joined is not None: return joined
            kk = (lambda: self.block(rest, k)) if (rest or k is not None) else None
            return self.wrap(pend, '(if %s then %s else %s)' % (c, self.block(s.body, kk), self.block(s.orelse, kk)))
        raise Unsupported('statement ' + ast.dump(s)[:80])

    def caught_names(self, classes):
        """the exception class names an `except (classes)` clause catches: the listed classes and every subclass of them.
        Builtin classes: the subclass relation of the running Python's builtins.  Other classes: only as declared in
        exc_parents (a listed non-builtin class that is not declared there is Unsupported; a raised non-builtin class that is
        not declared is taken to derive from Exception only)."""
        import builtins
        bi = {n: c for n, c in vars(builtins).items() if isinstance(c, type) and issubclass(c, BaseException)}
        for c in classes:
            if c not in bi and c not in self.exc_parents: raise Unsupported('except clause names the undeclared class ' + c)
        def parents(n):
            if n in bi: return [b.__name__ for b in bi[n].__mro__[1:] if b.__name__ in bi]
            out = []
            for q in self.exc_parents.get(n, []): out += [q] + parents(q)
            return out
        names = sorted(set(list(bi) + list(self.exc_parents)))
        return [n for n in names if n in classes or any(q in classes for q in parents(n))]

    def try_stmt(self, s, rest, k):
        """try: BODY  except (E1, .., En): raise C(..)        (one handler, no name, no else / finally; BODY without return)
        BODY becomes a gres-valued term ending in GOk (the names it binds that are visible afterwards); a GRaise of a class the
        clause catches becomes the handler's GRaise, every other GRaise passes through."""
        if not self.raises: raise Unsupported('try in a function declared total')
        if s.orelse or s.finalbody or len(s.handlers) != 1: raise Unsupported('try with else / finally / several handlers')
        h = s.handlers[0]
        if h.name is not None or h.type is None: raise Unsupported('except clause with a name / bare except')
        cl = h.type.elts if isinstance(h.type, ast.Tuple) else [h.type]
        if not all(isinstance(c, ast.Name) for c in cl): raise Unsupported('except clause: class expression')
        hb = strip_doc(h.body)
        if len(hb) != 1 or not isinstance(hb[0], ast.Raise): raise Unsupported('except handler is not a single raise')
        if any(isinstance(n, (ast.Return, ast.Try)) for b in s.body for n in ast.walk(b)): raise Unsupported('return / try inside a try body')
        caught = self.caught_names([c.id for c in cl])
        before = set(self.names)
        ex = [v for v in self.assigned(s.body) if v in before or v in self.definitely(s.body)]
        types = {}
        def kf():
            for v in ex:
                if v not in self.names: raise Unsupported('name %s is deleted in a try body' % v)
                types[v] = self.names[v][1]
            return '(GOk %s)' % ('tt' if not ex else self.names[ex[0]][0] if len(ex) == 1 else '(' + ', '.join(self.names[v][0] for v in ex) + ')')
        body = self.block(s.body, kf)
        handler = self.block(hb)
        saved = {v: self.names.get(v) for v in ex}
        cns = [self.coqname(v) for v in ex]
        for v, cn in zip(ex, cns): self.names[v] = (cn, types[v])
        try:
            cont = self.block(rest, k)
        finally:
            for v in ex:
                if saved[v] is None: del self.names[v]
                else: self.names[v] = saved[v]
        pat = '_' if not ex else cns[0] if len(ex) == 1 else '(' + ', '.join(cns) + ')'
        lst = '[' + '; '.join('"%s"%%string' % n for n in caught) + ']'
        return ('(match %s with\n | GOk %s => %s\n | GRaise e_ => if existsb (String.eqb e_) %s then %s else GRaise e_ end)'
                % (body, pat, cont, lst, handler))

    def join_if(self, s, c, pend, rest, k):
            if True:
                # join: the branches only rebind locals; those that are visible afterwards are returned as a tuple
                before = set(self.names)
                both = set(self.definitely(s.body)) & set(self.definitely(s.orelse))
                ex = [v for v in self.assigned(s.body + s.orelse) if v in before or v in both]
                types = {}
                def kf():
                    for v in ex:
                        if v not in self.names: raise Unsupported('name %s is deleted in a branch' % v)
                        t = self.names[v][1]
                        if types.setdefault(v, t) != t: raise Unsupported('name %s has different types in the branches' % v)
                    return '(' + ', '.join(self.names[v][0] for v in ex) + ')' if len(ex) != 1 else self.names[ex[0]][0]
                self.injoin += 1
                try:
                    b1 = self.block(s.body, kf)
                    b2 = self.block(s.orelse, kf)
                finally:
                    self.injoin -= 1
                if not ex:
                    return self.wrap(pend, self.block(rest, k))     # branches without any visible effect
                saved = {v: self.names.get(v) for v in ex}
                cns = [self.coqname(v) for v in ex]
                for v, cn in zip(ex, cns): self.names[v] = (cn, types[v])
                try:
                    body = self.block(rest, k)
                finally:
                    for v in ex:
                        if saved[v] is None: del self.names[v]
                        else: self.names[v] = saved[v]
                pat = cns[0] if len(ex) == 1 else "'(" + ', '.join(cns) + ')'
                return self.wrap(pend, '(let %s := (if %s then %s else %s) in\n %s)' % (pat, c, b1, b2, body))

    def finish(self):
        for src, ids in self.skip.items():
            if len(ids) != 1: raise Unsupported('pinned statement occurs %d times: %s' % (len(ids), src[:70]))
        for src in self.effects:
            if len(self.effects_seen.get(src, ())) != 1:
                raise Unsupported('pinned statement occurs %d times: %s' % (len(self.effects_seen.get(src, ())), src[:70]))


# ---------- source helpers ----------
def parse(rel):
    with open(os.path.join(REPO, rel)) as f:
        return ast.parse(f.read())


def find_class(tree, cls):
    for n in tree.body:
        if isinstance(n, ast.ClassDef) and n.name == cls: return n
    raise Unsupported('class %s not found' % cls)


def find_methods(cnode, name):
    return [m for m in cnode.body if isinstance(m, ast.FunctionDef) and m.name == name]


def find_method(cnode, name, deco=None):
    ms = find_methods(cnode, name)
    if deco is not None:
        ms = [m for m in ms if any(deco in ast.unparse(d) for d in m.decorator_list)]
    if len(ms) != 1: raise Unsupported('method %s.%s: %d candidates' % (cnode.name, name, len(ms)))
    return ms[0]


def inner_defs(fn):
    return {s.name: s for s in fn.body if isinstance(s, ast.FunctionDef)}


def class_int_consts(cnode):
    out = {}
    for st in cnode.body:
        if isinstance(st, ast.Assign) and len(st.targets) == 1 and isinstance(st.targets[0], ast.Name):
            try:
                v = eval(compile(ast.Expression(st.value), '<c>', 'eval'), {'__builtins__': {}})
            except Exception:
                continue
            if isinstance(v, int) and not isinstance(v, bool):
                nm = st.targets[0].id
                out[(cnode.name, nm)] = v
                if nm.startswith('__'):  # name-mangled class-private constant
                    out[(cnode.name, '_%s%s' % (cnode.name, nm))] = v
    return out


HDR = """(* GENERATED by tools/py2coq.py from %s -- do not edit; regenerated on every run *)
From Coq Require Import ZArith List Bool.
Import ListNotations.
Require Import PV.Lib.Bytes.
Open Scope Z_scope.
"""

I2B = {'int_to_bytes': ('int_to_bytes', ['Z', 'Z'], 'bytes', ['(1)']),
       'bytes_to_int': ('bytes_to_int', ['bytes'], 'Z', []),
       'int_byte_len': ('int_byte_len', ['Z'], 'Z', []),
       'bit_length': ('bit_length', ['Z'], 'Z', []),
       'max': ('Z.max', ['Z', 'Z'], 'Z', []), 'min': ('Z.min', ['Z', 'Z'], 'Z', [])}


def guarded(out, name, fn):
    """run one target; on Unsupported emit a comment so that only this definition is missing"""
    try:
        out.append(fn())
    except Unsupported as ex:
        out.append('(* TRANSLATION FAILED for %s: %s *)\n' % (name, str(ex).replace('*)', '* )')))
        FAILED.append((name, str(ex)))
    except Exception as ex:  # any other surprise in the source shape is also fail-closed
        out.append('(* TRANSLATION FAILED for %s: %s: %s *)\n' % (name, type(ex).__name__, str(ex).replace('*)', '* )')))
        FAILED.append((name, '%s: %s' % (type(ex).__name__, ex)))


FAILED = []


# ---------- targets: pgpy/types.py ----------
def gen_types():
    tree = parse('pgpy/types.py')
    out = [HDR % 'pgpy/types.py']
    hdr = find_class(tree, 'Header')
    arm = find_class(tree, 'Armorable')

    def t_encode_length():
        fn = find_method(hdr, 'encode_length')
        inner = inner_defs(fn)
        if set(inner) != {'_new_length', '_old_length'}: raise Unsupported('encode_length: inner defs changed')
        res = []
        tr = Tr(names={'nl': ('nl', 'Z'), 'llen': ('llen', 'Z')}, calls=I2B)
        res.append('Definition gen_new_length (nl : Z) : bytes :=\n %s.\n' % tr.block(inner['_new_length'].body))
        res.append('Definition gen_old_length (nl llen : Z) : bytes :=\n %s.\n' % tr.block(inner['_old_length'].body))
        rest = [s for s in fn.body if not isinstance(s, ast.FunctionDef)]
        tr2 = Tr(names={'length': ('length', 'Z'), 'nhf': ('nhf', 'bool'), 'llen': ('llen', 'Z')},
                 calls={'_new_length': ('gen_new_length', ['Z'], 'bytes', []),
                        '_old_length': ('gen_old_length', ['Z', 'Z'], 'bytes', [])})
        res.append('Definition gen_encode_length (length : Z) (nhf : bool) (llen : Z) : bytes :=\n %s.\n' % tr2.block(rest))
        a = fn.args
        if [x.arg for x in a.args] != ['length', 'nhf', 'llen'] or [ast.literal_eval(d) for d in a.defaults] != [True, 1]:
            raise Unsupported('encode_length: signature changed')
        return '\n'.join(res)
    guarded(out, 'Header.encode_length', t_encode_length)

    def t_llen():
        ms = [m for m in find_methods(hdr, 'llen') if any('sdproperty' in ast.unparse(d) for d in m.decorator_list)]
        if len(ms) != 1: raise Unsupported('llen getter not found')
        tr = Tr(names={'self._lenfmt': ('lenfmt', 'Z'), 'self.length': ('length', 'Z'), 'self._llen': ('stored_llen', 'Z')},
                calls=I2B)
        return 'Definition gen_llen_get (lenfmt length stored_llen : Z) : Z :=\n %s.\n' % tr.block(ms[0].body)
    guarded(out, 'Header.llen', t_llen)

    def t_llen_set():
        fn = find_method(hdr, 'llen_int')
        # shape: if self._lenfmt == 0: self._llen = {..}[val]
        if len(fn.body) != 1 or not isinstance(fn.body[0], ast.If): raise Unsupported('llen_int shape')
        st = fn.body[0].body
        if len(st) != 1 or not isinstance(st[0], ast.Assign) or ast.unparse(st[0].targets[0]) != 'self._llen':
            raise Unsupported('llen_int shape')
        d = st[0].value
        if not (isinstance(d, ast.Subscript) and isinstance(d.value, ast.Dict)): raise Unsupported('llen_int shape')
        tr = Tr(names={'val': ('val', 'Z')}, raises=True)
        return 'Definition gen_llen_of_code (val : Z) : option Z :=\n %s.\n' % tr.dict_lookup(d.value, d.slice)
    guarded(out, 'Header.llen_int', t_llen_set)

    def t_parse_len():
        fn = find_method(hdr, 'length_bin')
        new_len = inner_defs(fn).get('_new_len')
        if new_len is None: raise Unsupported('_new_len not found')
        pl = inner_defs(new_len).get('_parse_len')
        if pl is None: raise Unsupported('_parse_len not found')
        body = list(pl.body)
        # first statement must be `fo = a[offset]` (the only place that can raise IndexError): fo becomes a parameter
        if not (isinstance(body[0], ast.Assign) and ast.unparse(body[0]) == 'fo = a[offset]'):
            raise Unsupported('_parse_len: first statement is not fo = a[offset]')
        tr = Tr(names={'fo': ('fo', 'Z'), 'a': ('b', 'bytes'), 'b': ('b', 'bytes'), 'offset': ('offset', 'nat')},
                calls=I2B, raises=True)
        return ('Definition gen_parse_len (fo : Z) (b : bytes) (offset : nat) : option (Z * Z * bool) :=\n %s.\n'
                % tr.block(body[1:]))
    guarded(out, 'Header._parse_len', t_parse_len)

    def t_crc24():
        fn = find_method(arm, 'crc24')
        consts = class_int_consts(arm)
        tr = Tr(names={}, consts=consts)
        body = [s for s in fn.body if not (isinstance(s, ast.Expr) and isinstance(s.value, ast.Constant))]
        init = [s for s in body if isinstance(s, ast.Assign)]
        loop = [s for s in body if isinstance(s, ast.For)]
        ret = [s for s in body if isinstance(s, ast.Return)]
        others = [s for s in body if s not in init + loop + ret]
        if len(init) != 1 or len(loop) != 1 or len(ret) != 1: raise Unsupported('crc24 shape')
        for s in others:
            if ast.unparse(s) != 'if not isinstance(data, bytearray):\n    data = iter(data)':
                raise Unsupported('crc24: unexpected statement ' + ast.unparse(s)[:60])
        init, loop, ret = init[0], loop[0], ret[0]
        if body.index(init) > body.index(loop) or body.index(loop) > body.index(ret): raise Unsupported('crc24 order')
        acc = init.targets[0].id
        if ast.unparse(loop.iter) != 'data' or loop.orelse: raise Unsupported('crc24 loop')
        x = loop.target.id
        pre = [s for s in loop.body if not isinstance(s, ast.For)]
        inner = [s for s in loop.body if isinstance(s, ast.For)]
        if len(inner) != 1 or loop.body[-1] is not inner[0]: raise Unsupported('crc24 inner loop')
        inner = inner[0]
        if not (isinstance(inner.iter, ast.Call) and ast.unparse(inner.iter.func) == 'range' and len(inner.iter.args) == 1
                and isinstance(inner.iter.args[0], ast.Constant)) or inner.orelse:
            raise Unsupported('crc24 inner range')
        nit = inner.iter.args[0].value
        tr.names[acc] = (acc, 'Z'); tr.names[x] = (x, 'Z')
        res = []
        res.append('Definition gen_crc_bit (%s : Z) : Z :=\n %s.\n' % (acc, tr.block(inner.body, k=acc)))
        res.append('Definition gen_crc_octet (%s %s : Z) : Z :=\n %s.\n'
                   % (acc, x, tr.block(pre, k='(Nat.iter %d gen_crc_bit %s)' % (nit, acc))))
        res.append('Definition gen_crc24 (data : bytes) : Z :=\n (let %s := fold_left gen_crc_octet data %s in %s).\n'
                   % (acc, tr.expr(init.value), tr.expr(ret.value)))
        return '\n'.join(res)
    guarded(out, 'Armorable.crc24', t_crc24)

    def t_wrap():
        # the 64-column wrap and the 3-octet CRC of Armorable.__str__
        fn = find_method(arm, '__str__')
        src = ast.unparse(fn)
        m = re.search(r"payload\[i:i \+ (\d+)\] for i in range\(0, len\(payload\), (\d+)\)", src)
        if not m or m.group(1) != m.group(2): raise Unsupported('__str__: wrap expression changed')
        m2 = re.search(r"int_to_bytes\(self\.crc24\(self\.__bytes__\(\)\), (\d+)\)", src)
        if not m2: raise Unsupported('__str__: crc expression changed')
        return 'Definition gen_armor_wrap : Z := %s.\nDefinition gen_armor_crc_octets : Z := %s.\n' % (m.group(1), m2.group(1))
    guarded(out, 'Armorable.__str__', t_wrap)

    def t_verif():
        sv = find_class(tree, 'SignatureVerification')
        res = []
        # the three comprehension conditions, over (issues, causes_fail issues)
        names = {'sigsub.issues': ('issues', 'Z'), 'sigsub.issues.causes_signature_verify_to_fail': ('(cf issues)', 'bool'),
                 'SecurityIssues.OK': ('(0)', 'Z')}
        class T2(Tr):
            def key(self, e):
                s = ast.unparse(e) if isinstance(e, (ast.Attribute, ast.Name)) else None
                return s
            def expr(self, e):
                if isinstance(e, ast.Compare) and len(e.ops) == 1 and isinstance(e.ops[0], ast.Is):
                    return '(Z.eqb %s %s)' % (self.expr(e.left), self.expr(e.comparators[0]))
                return super().expr(e)
            def typ(self, e):
                if isinstance(e, ast.Compare): return 'bool'
                return super().typ(e)
        tr = T2(names=names)
        def cond_of(prop, kind):
            fn = find_method(sv, prop)
            gens = [n for n in ast.walk(fn) if isinstance(n, ast.GeneratorExp)]
            if len(gens) != 1: raise Unsupported(prop + ': generator shape')
            g = gens[0]
            if len(g.generators) != 1 or ast.unparse(g.generators[0].iter) != 'self._subjects' or ast.unparse(g.generators[0].target) != 'sigsub':
                raise Unsupported(prop + ': iteration changed')
            if kind == 'filter':
                if ast.unparse(g.elt) != 'sigsub' or len(g.generators[0].ifs) != 1: raise Unsupported(prop + ': filter shape')
                return tr.cond(g.generators[0].ifs[0])
            if g.generators[0].ifs: raise Unsupported(prop + ': unexpected filter')
            call = [n for n in ast.walk(fn) if isinstance(n, ast.Call) and ast.unparse(n.func) == 'all']
            if len(call) != 1: raise Unsupported(prop + ': all() missing')
            return tr.cond(g.elt)
        res.append('Section Verdict.\nVariable cf : Z -> bool.')
        res.append('Definition gen_is_good (issues : Z) : bool := %s.' % cond_of('good_signatures', 'filter'))
        res.append('Definition gen_is_bad (issues : Z) : bool := %s.' % cond_of('bad_signatures', 'filter'))
        res.append('Definition gen_entry_ok (issues : Z) : bool := %s.' % cond_of('__bool__', 'all'))
        res.append('End Verdict.\n')
        fn = find_method(sv, 'add_sigsubj')
        m = re.search(r"issues = SecurityIssues\((0x[0-9A-Fa-f]+|\d+)\)", ast.unparse(fn))
        if not m: raise Unsupported('add_sigsubj default changed')
        res.append('Definition gen_default_issues : Z := %d.\n' % int(m.group(1), 0))
        return '\n'.join(res)
    guarded(out, 'SignatureVerification', t_verif)

    write('Gen_types.v', '\n'.join(out))


# ---------- targets: pgpy/packet/types.py, subpackets/types.py ----------
def gen_ptypes():
    tree = parse('pgpy/packet/types.py')
    out = [HDR % 'pgpy/packet/types.py, pgpy/packet/subpackets/types.py, pgpy/packet/fields.py']
    hdr = find_class(tree, 'Header')
    mpi = find_class(tree, 'MPI')

    def t_tag():
        fn = find_method(hdr, 'tag_int')
        st = fn.body[0]
        if not (isinstance(st, ast.Assign) and ast.unparse(st.targets[0]) == '_tag'): raise Unsupported('tag_int shape')
        tr = Tr(names={'val': ('val', 'Z'), 'self._lenfmt': ('lenfmt', 'Z')})
        return 'Definition gen_tag_of_octet (lenfmt val : Z) : Z :=\n %s.\n' % tr.expr(st.value)
    guarded(out, 'Header.tag_int', t_tag)

    def t_hdr_bytes():
        fn = find_method(hdr, '__bytearray__')
        src = [ast.unparse(s) for s in fn.body]
        want_tail = ['_bytes = bytearray(self.int_to_bytes(tag))',
                     '_bytes += self.encode_length(self.length, self._lenfmt, self.llen)', 'return _bytes']
        if src[-3:] != want_tail: raise Unsupported('Header.__bytearray__ tail changed: ' + repr(src[-3:]))
        tr = Tr(names={'self._lenfmt': ('lenfmt', 'Z'), 'self.tag': ('tag', 'Z'), 'self.llen': ('llen', 'Z')}, raises=True)
        # tag = 0x80 | (lenfmt << 6) ; tag |= X if lenfmt else (Y | {..}[llen])
        body = fn.body[:-3]
        if len(body) != 2 or not isinstance(body[0], ast.Assign) or not isinstance(body[1], ast.AugAssign) or not isinstance(body[1].op, ast.BitOr):
            raise Unsupported('Header.__bytearray__ head changed')
        first = tr.expr(body[0].value)
        v = body[1].value
        if not isinstance(v, ast.IfExp): raise Unsupported('tag expression shape')
        new = tr.expr(v.body)
        o = v.orelse
        if not (isinstance(o, ast.BinOp) and isinstance(o.op, ast.BitOr) and isinstance(o.right, ast.Subscript)
                and isinstance(o.right.value, ast.Dict)): raise Unsupported('old tag expression shape')
        code = tr.dict_lookup(o.right.value, o.right.slice)
        left = tr.expr(o.left)
        return ('Definition gen_code_of_llen (llen : Z) : option Z :=\n %s.\n\n'
                'Definition gen_tag_octet (lenfmt tag llen : Z) : option Z :=\n'
                ' (if %s then Some (Z.lor %s %s) else match gen_code_of_llen llen with Some c => Some (Z.lor %s (Z.lor %s c)) | None => None end).\n'
                % (code, tr.cond(v.test), first, new, first, left))
    guarded(out, 'packet Header.__bytearray__', t_hdr_bytes)

    def t_hdr_parse():
        # Header.parse: how the first octet is read (format bit, length-type bits), which inputs carry a length field, and what
        # the branch without one stores.  Every other statement must be exactly the pinned text.
        fn = find_method(hdr, 'parse')
        body = [st for st in fn.body if not (isinstance(st, ast.Expr) and isinstance(st.value, ast.Constant))]
        if len(body) != 5: raise Unsupported('Header.parse: %d statements' % len(body))

        class P0(ast.NodeTransformer):
            def visit_Subscript(self, n):
                if ast.unparse(n) == 'packet[0]': return ast.copy_location(ast.Name(id='p0', ctx=ast.Load()), n)
                return self.generic_visit(n)
        tr = Tr(names={'p0': ('p0', 'Z'), 'self._lenfmt': ('lenfmt', 'Z'), 'self.llen': ('llen', 'Z')})
        s0, s1, s2, s3, s4 = body
        if not (isinstance(s0, ast.Assign) and ast.unparse(s0.targets[0]) == 'self._lenfmt'): raise Unsupported('Header.parse: _lenfmt statement')
        lenfmt = tr.expr(P0().visit(s0.value))
        if ast.unparse(s1) != 'self.tag = packet[0]': raise Unsupported('Header.parse: tag statement: ' + ast.unparse(s1))
        if not (isinstance(s2, ast.If) and ast.unparse(s2.test) == 'self._lenfmt == 0' and not s2.orelse and len(s2.body) == 1
                and isinstance(s2.body[0], ast.Assign) and ast.unparse(s2.body[0].targets[0]) == 'self.llen'):
            raise Unsupported('Header.parse: length-type statement')
        code = tr.expr(P0().visit(s2.body[0].value))
        if ast.unparse(s3) != 'del packet[0]': raise Unsupported('Header.parse: del statement')
        if not isinstance(s4, ast.If): raise Unsupported('Header.parse: branch')
        if [ast.unparse(x) for x in s4.body] != ['self.length = packet']: raise Unsupported('Header.parse: length branch changed')
        if [ast.unparse(x) for x in s4.orelse] != ['self.length = len(packet)', 'self._llen = 1']:
            raise Unsupported('Header.parse: branch without length field changed: ' + repr([ast.unparse(x) for x in s4.orelse]))
        return ('Definition gen_hdr_lenfmt (p0 : Z) : Z :=\n %s.\n\n'
                'Definition gen_hdr_llen_code (p0 : Z) : Z :=\n %s.\n\n'
                'Definition gen_hdr_has_length (lenfmt llen : Z) : bool :=\n %s.\n\n'
                'Definition gen_hdr_indet_llen : Z := 1.\n' % (lenfmt, code, tr.cond(s4.test)))
    guarded(out, 'packet Header.parse', t_hdr_parse)

    def t_mpi():
        res = []
        tr = Tr(names={'self': ('v', 'Z')}, calls=dict(I2B))
        class T3(Tr):
            def callee(self, e):
                f = e.func
                if isinstance(f, ast.Attribute) and ast.unparse(f) == 'self.bit_length': return 'self_bit_length'
                if isinstance(f, ast.Attribute) and ast.unparse(f) == 'self.byte_length': return 'self_byte_length'
                return super().callee(e)
        tr = T3(names={'self': ('v', 'Z')}, calls=dict(I2B))
        tr.calls['self_bit_length'] = ('bit_length v', [], 'Z', [])
        tr.calls['self_byte_length'] = ('gen_mpi_byte_length v', [], 'Z', [])
        bl = find_method(mpi, 'byte_length')
        res.append('Definition gen_mpi_byte_length (v : Z) : Z :=\n %s.\n' % tr.block(bl.body).replace('(bit_length v )', '(bit_length v)'))
        tm = find_method(mpi, 'to_mpibytes')
        res.append('Definition gen_to_mpibytes (v : Z) : bytes :=\n %s.\n' % tr.block(tm.body))
        # the two arithmetic lines of MPI.__new__
        nw = find_method(mpi, '__new__')
        src = ast.unparse(nw)
        if 'fl = (MPIs.bytes_to_int(num[:2]) + 7) // 8' not in src or 'del num[:2]' not in src \
           or 'mpi = MPIs.bytes_to_int(num[:fl])' not in src or 'del num[:fl]' not in src:
            raise Unsupported('MPI.__new__ arithmetic changed')
        res.append('Definition gen_mpi_new_pinned : bool := true.\n')
        return '\n'.join(res).replace('(bit_length v )', '(bit_length v)').replace('(gen_mpi_byte_length v )', '(gen_mpi_byte_length v)')
    guarded(out, 'MPI', t_mpi)

    stree = parse('pgpy/packet/subpackets/types.py')
    shdr = find_class(stree, 'Header')

    def t_sub():
        res = []
        fn = find_method(shdr, 'typeid_int')
        if ast.unparse(fn.body[0]) != 'self._typeid = val & 127': raise Unsupported('typeid_int changed: ' + ast.unparse(fn.body[0]))
        fn = find_method(shdr, 'typeid_bin')
        want = ['v = self.bytes_to_int(val)', 'self.typeid = v', 'self.critical = bool(v & 128)']
        if [ast.unparse(s) for s in fn.body] != want: raise Unsupported('typeid_bin changed')
        fn = find_method(shdr, '__bytearray__')
        want = ['_bytes = bytearray(self.encode_length(self.length))',
                '_bytes += self.int_to_bytes((int(self.critical) << 7) + self.typeid)', 'return _bytes']
        if [ast.unparse(s) for s in fn.body] != want: raise Unsupported('sub Header.__bytearray__ changed')
        res.append('Definition gen_sub_typeid (v : Z) : Z := Z.land v 127.\nDefinition gen_sub_critical (v : Z) : bool := negb (Z.eqb (Z.land v 128) 0).')
        res.append('Definition gen_sub_header_emit (len typeid : Z) (critical : bool) : bytes :=\n'
                   ' (encode_length_gen len true 1) ++ (int_to_bytes (Z.add (Z.shiftl (if critical then 1 else 0) 7) typeid) 1).\n')
        # Header.parse: length decode (after the F8 repair) then typeid
        fn = find_method(shdr, 'parse')
        tr = Tr(names={'packet': ('packet', 'bytes')})
        return '\n'.join(res), fn
    def t_sub_wrap():
        txt, fn = t_sub()
        src = ast.unparse(fn)
        # accepted shapes of the length step: the repaired one, recorded verbatim
        want = ("def parse(self, packet):\n    if 192 <= packet[0] < 255:\n        self.length = (packet[0] - 192 << 8) + packet[1] + 192\n"
                "        del packet[:2]\n    else:\n        self.length = packet\n    self.typeid = packet[:1]\n    del packet[:1]")
        old = "def parse(self, packet):\n    self.length = packet\n    self.typeid = packet[:1]\n    del packet[:1]"
        if src == want: mode = 'true'
        elif src == old: mode = 'false'
        else: raise Unsupported('sub Header.parse changed')
        return txt + 'Definition gen_sub_len_two_octet_band : bool := %s.\n' % mode
    guarded(out, 'subpacket Header', t_sub_wrap)

    ftree = parse('pgpy/packet/fields.py')
    s2k = find_class(ftree, 'String2Key')

    def t_count():
        ms = [m for m in find_methods(s2k, 'count') if any('sdproperty' in ast.unparse(d) for d in m.decorator_list)]
        if len(ms) != 1: raise Unsupported('count getter')
        tr = Tr(names={'self._count': ('c', 'Z')})
        return 'Definition gen_s2k_count (c : Z) : Z :=\n %s.\n' % tr.block(ms[0].body)
    guarded(out, 'String2Key.count', t_count)

    def t_derive():
        # the straight-line arithmetic of derive_key: count, hcount, hleft as functions of
        # (specifier, decoded count, len(hsalt + hpass))
        fn = find_method(s2k, 'derive_key')
        stmts = [st for st in fn.body
                 if (isinstance(st, ast.Assign) and ast.unparse(st.targets[0]) in ('count', 'hcount', 'hleft'))
                 or (isinstance(st, ast.If) and ast.unparse(st.body[0]) == 'count = self.count')]
        if [type(st).__name__ for st in stmts] != ['Assign', 'If', 'Assign', 'Assign'] or \
                [ast.unparse(st.targets[0]) for st in stmts if isinstance(st, ast.Assign)] != ['count', 'hcount', 'hleft'] or \
                len(stmts[1].body) != 1 or stmts[1].orelse:
            raise Unsupported('derive_key arithmetic shape')
        sl = [st for st in fn.body if isinstance(st, ast.Assign) and ast.unparse(st.targets[0]) == 'hashdata']
        if len(sl) != 1 or ast.unparse(sl[0].value) != '(hsalt + hpass) * hcount + (hsalt + hpass)[:hleft]':
            raise Unsupported('derive_key hashdata shape')
        atoms = {'len(hsalt + hpass)': ('l', 'Z'), 'self.specifier': ('spec', 'Z'), 'self.count': ('dcount', 'Z'),
                 'String2KeyType.Iterated': ('(3)', 'Z')}
        class T3(Tr):
            def key(self, e):
                u = ast.unparse(e)
                return u if u in atoms else super().key(e)
        tr = T3(names=atoms)
        ret = ast.parse('def f():\n return (count, hcount, hleft)').body[0].body[0]
        return 'Definition gen_s2k_arith (spec dcount l : Z) : Z * Z * Z :=\n %s.\n' % tr.block(stmts + [ret])
    guarded(out, 'String2Key.derive_key arithmetic', t_derive)

    txt = '\n'.join(out).replace('encode_length_gen', 'gen_encode_length')
    txt = txt.replace('Require Import PV.Lib.Bytes.', 'Require Import PV.Lib.Bytes PV.Gen.Gen_types.')
    write('Gen_ptypes.v', txt)


# ---------- targets: pgpy/constants.py ----------
def gen_consts():
    tree = parse('pgpy/constants.py')
    out = [HDR % 'pgpy/constants.py']
    si = find_class(tree, 'SecurityIssues')

    def t_si():
        consts = class_int_consts(si)
        res = []
        order = ['OK', 'WrongSig', 'Expired', 'Disabled', 'Revoked', 'Invalid', 'BrokenAsymmetricFunc',
                 'HashFunctionNotCollisionResistant', 'HashFunctionNotSecondPreimageResistant',
                 'AsymmetricKeyLengthIsTooShort', 'InsecureCurve', 'NoSelfSignature']
        got = sorted(k[1] for k in consts)
        if sorted(order) != got: raise Unsupported('SecurityIssues members changed: ' + repr(got))
        for n in order:
            res.append('Definition gen_SI_%s : Z := %d.' % (n, consts[('SecurityIssues', n)]))
        fn = find_method(si, 'causes_signature_verify_to_fail')
        if len(fn.body) != 1 or not isinstance(fn.body[0], ast.Return): raise Unsupported('causes_fail shape')
        e = fn.body[0].value
        tr = Tr(names={'self': ('issues', 'Z')}, consts=consts)
        # `self in {members}`  (exact membership)   or   bool(self & (A | B | ...))  (bit test)
        res.append('Definition gen_causes_fail (issues : Z) : bool :=\n %s.\n' % tr.cond(e))
        return '\n'.join(res)
    guarded(out, 'SecurityIssues', t_si)
    write('Gen_consts.v', '\n'.join(out))


# ---------- fixed prelude of the imperative subset ----------
BASE = """(* GENERATED by tools/py2coq.py (fixed text) -- the Python semantics the imperative subset of the translator relies on *)
From Coq Require Import String ZArith List Bool.
Import ListNotations.
Require Import PV.Lib.Bytes.
Open Scope Z_scope.

(* a function that may raise: the value, or the name of the exception class *)
Inductive gres (A : Type) : Type := GOk (a : A) | GRaise (exc : string).
Arguments GOk {A} a.
Arguments GRaise {A} exc.

(* Python slices never raise: a negative bound counts from the end, every bound is clamped to 0 .. len *)
Definition py_index (n : Z) (len : nat) : nat :=
  if n <? 0 then (len - Z.to_nat (- n))%nat else Nat.min (Z.to_nat n) len.
(* l[:n] *)
Definition py_upto (n : Z) (l : bytes) : bytes := firstn (py_index n (length l)) l.
(* l[n:] *)
Definition py_from (n : Z) (l : bytes) : bytes := skipn (py_index n (length l)) l.
(* l[a:b] *)
Definition py_slice (a b : Z) (l : bytes) : bytes :=
  firstn (py_index b (length l) - py_index a (length l)) (skipn (py_index a (length l)) l).

(* dict with integer keys and values: association list in source order; d[k] (None = KeyError), k in d *)
Fixpoint zassoc (k : Z) (d : list (Z * Z)) : option Z :=
  match d with [] => None | (k', v) :: r => if Z.eqb k k' then Some v else zassoc k r end.
Definition zhas (k : Z) (d : list (Z * Z)) : bool := match zassoc k d with Some _ => true | None => false end.
"""

HDR2 = """(* GENERATED by tools/py2coq.py from %s -- do not edit; regenerated on every run *)
From Coq Require Import String ZArith List Bool.
Import ListNotations.
Require Import PV.Lib.Bytes PV.Gen.Gen_base%s.
Open Scope Z_scope.
"""


def gen_base():
    write('Gen_base.v', BASE)


def enum_members(tree, cls):
    """{member name: int} of an IntEnum / IntFlag class body, in source order"""
    c = find_class(tree, cls)
    out = {}
    for (cn, nm), v in class_int_consts(c).items():
        if not (nm.startswith('_') and nm.endswith('_')) and not nm.startswith('_' + cls): out[nm] = v
    return out


# block_size (bits) of the cipher classes of the `cryptography` library that SymmetricKeyAlgorithm.cipher names.
# Library knowledge, not PGPy source: the correspondence run of C03 / C06 / C13 compares all 256 ids at run time.
LIB_BLOCK_BITS = {'algorithms.IDEA': 64, 'algorithms.TripleDES': 64, 'algorithms.CAST5': 64, 'algorithms.Blowfish': 64,
                  'algorithms.AES': 128, 'algorithms.Camellia': 128}


def zlist(vals):
    return '[' + '; '.join(str(v) for v in vals) + ']'


# ---------- targets: pgpy/constants.py, tables ----------
def gen_tables():
    tree = parse('pgpy/constants.py')
    out = [HDR2 % ('pgpy/constants.py (enum member lists, size tables)', '')]

    for cls in ('SymmetricKeyAlgorithm', 'PubKeyAlgorithm', 'HashAlgorithm', 'String2KeyType', 'CompressionAlgorithm',
                'SignatureType', 'S2KGNUExtension'):
        def t_enum(cls=cls):
            c = find_class(tree, cls)
            if [ast.unparse(b) for b in c.bases] != ['IntEnum']: raise Unsupported(cls + ' is not an IntEnum')
            m = enum_members(tree, cls)
            if not m: raise Unsupported(cls + ': no members')
            if len(set(m.values())) != len(m): raise Unsupported(cls + ': aliases')
            return '(* %s(v) succeeds exactly for these values *)\nDefinition gen_members_%s : list Z := %s.\n' % (cls, cls, zlist(m.values()))
        guarded(out, 'enum ' + cls, t_enum)

    sym = find_class(tree, 'SymmetricKeyAlgorithm')
    consts = class_int_consts(sym)

    def table_fn(prop, dname, tname, fname, valfn):
        """property of shape   d = {Member: value, ...};  if self in d: return d[self];  raise NotImplementedError(repr(self))
        the dict literal becomes the association list <tname>, the rest is translated over it"""
        fn = find_method(sym, prop)
        body = [s for s in fn.body if not (isinstance(s, ast.Expr) and isinstance(s.value, ast.Constant))]
        d = body[0]
        if not (isinstance(d, ast.Assign) and len(d.targets) == 1 and isinstance(d.targets[0], ast.Name) and d.targets[0].id == dname
                and isinstance(d.value, ast.Dict)):
            raise Unsupported('%s: first statement is not %s = {...}' % (prop, dname))
        tr = TrI(names={'self': ('a', 'Z')}, consts=consts, raises=True)
        keys = []
        for kk in d.value.keys:
            if kk is None or tr.typ(kk) != 'Z': raise Unsupported('%s: dict key' % prop)
            keys.append(int(tr.expr(kk).strip('()')))
        if len(set(keys)) != len(keys): raise Unsupported('%s: duplicate dict key' % prop)
        vals = [valfn(v) for v in d.value.values]
        tr.names[dname] = (tname, 'dict')
        txt = tr.block(body[1:])
        return ('Definition %s : list (Z * Z) := [%s].\nDefinition %s (a : Z) : gres Z :=\n %s.\n'
                % (tname, '; '.join('(%d, %d)' % kv for kv in zip(keys, vals)), fname, txt))

    def intval(v):
        if isinstance(v, ast.Constant) and isinstance(v.value, int) and not isinstance(v.value, bool): return v.value
        raise Unsupported('table value ' + ast.unparse(v)[:40])

    def blockval(v):
        u = ast.unparse(v)
        if u in LIB_BLOCK_BITS: return LIB_BLOCK_BITS[u]
        m = re.fullmatch(r"namedtuple\('\w+', \['block_size'\]\)\(block_size=(\d+)\)", u)
        if m: return int(m.group(1))
        raise Unsupported('cipher class ' + u[:60])

    guarded(out, 'SymmetricKeyAlgorithm.key_size',
            lambda: '(* SymmetricKeyAlgorithm.key_size (bits) *)\n' + table_fn('key_size', 'ks', 'gen_sym_key_size_table', 'gen_sym_key_size', intval))

    def t_block():
        fn = find_method(sym, 'block_size')
        if [ast.unparse(s) for s in fn.body] != ['return self.cipher.block_size']: raise Unsupported('block_size body changed')
        return ('(* SymmetricKeyAlgorithm.block_size = self.cipher.block_size (bits): the cipher table with each `cryptography` class\n'
                '   replaced by its block_size (LIB_BLOCK_BITS in py2coq.py) *)\n'
                + table_fn('cipher', 'bs', 'gen_sym_block_size_table', 'gen_sym_block_size', blockval))
    guarded(out, 'SymmetricKeyAlgorithm.block_size', t_block)

    def t_gen():
        res = ['(* gen_iv / gen_key: the number of octets asked of os.urandom *)']
        for nm in ('gen_iv', 'gen_key'):
            fn = find_method(sym, nm)
            if [a.arg for a in fn.args.args] != ['self']: raise Unsupported(nm + ': signature changed')
            tr = TrI(names={'self': ('a', 'Z')}, raises=True, ratoms=sym_atoms('self', 'a'),
                     atoms=[('os.urandom(_1)', '{0}', 'Z', ['Z'])])
            res.append('Definition gen_sym_%s_octets (a : Z) : gres Z :=\n %s.' % (nm, tr.block(strip_doc(fn.body))))
        return '\n'.join(res) + '\n'
    guarded(out, 'SymmetricKeyAlgorithm.gen_iv/gen_key', t_gen)

    write('Gen_tables.v', '\n'.join(out))


# ---------- targets: pgpy/pgp.py ----------
def gen_pgp():
    tree = parse('pgpy/pgp.py')
    ctree = parse('pgpy/constants.py')
    out = [HDR2 % ('pgpy/pgp.py', '')]
    sig = find_class(tree, 'PGPSignature')

    def t_hashdata():
        fn = find_method(sig, 'hashdata')
        if [a.arg for a in fn.args.args] != ['self', 'subject']: raise Unsupported('hashdata signature changed')
        st = class_int_consts(find_class(ctree, 'SignatureType'))
        if not all(0 <= v < 256 for v in st.values()): raise Unsupported('SignatureType member outside the octet range')
        names = {'self.type': ('t', 'Z'), 'self.key_algorithm': ('pk', 'Z'), 'self.hash_algorithm': ('h', 'Z'),
                 'subject': ('doc', 'bytes'), 'subject.is_primary': ('s_primary', 'bool'), 'subject.is_uid': ('s_is_uid', 'bool'),
                 'subject.hashdata': ('s_hd', 'bytes')}
        atoms = [
            ('self._signature.header.version if not self.embedded else self._signature._sig.header.version', 'ver', 'Z', []),
            ('self._signature.subpackets.__hashbytearray__()', 'hashed', 'bytes', []),
            ("re.subn(b'\\\\r?\\\\n', b'\\r\\n', subject)[0]", '(canon doc)', 'bytes', []),
            ('isinstance(subject, (SKEData, IntegrityProtectedSKEData))', 's_is_ske', 'bool', []),
            ('subject.__bytearray__()', 'doc', 'bytes', []),
            ('isinstance(subject, PGPUID)', 's_isuid', 'bool', []),
            ('isinstance(subject, PGPKey)', 's_iskey', 'bool', []),
            ('subject._parent.hashdata', 's_uparent_hd', 'bytes', []),
            ('subject.parent.hashdata', 's_parent_hd', 'bytes', []),
            ('subject.subkeys[self.signer].hashdata', 's_signer_sub_hd', 'bytes', []),
        ]
        skip = ["if isinstance(subject, str):\n    try:\n        subject = subject.encode('utf-8')\n"
                "    except UnicodeEncodeError:\n        subject = subject.encode('charmap')",
                'if 0 in list(self._signature.signature):\n    self._signature.update_hlen()']
        tr = TrI(names=names, calls=I2B, consts=st, atoms=atoms, skip=skip, octets=['t', 'pk', 'h', 'ver'])
        body = tr.block(fn.body)
        tr.finish()
        return ('(* PGPSignature.hashdata.  Opaque inputs: t pk h ver = self.type, key_algorithm, hash_algorithm, header version (octets:\n'
                '   enum members / parsed octets); hashed = subpackets.__hashbytearray__(); doc = the subject as octets (a str subject is\n'
                '   encoded first: that statement is pinned, not translated); canon = re.subn(br\'\\r?\\n\', b\'\\r\\n\', .)[0];\n'
                '   s_* = what the code reads off a key / user id subject (isinstance tests, is_primary, is_uid, the hashdata of the\n'
                '   subject, of its _parent, of its parent, of subkeys[self.signer]).  AttributeError on a subject of the wrong kind is\n'
                '   outside the translation. *)\n'
                'Definition gen_hashdata (canon : bytes -> bytes) (t pk h ver : Z) (hashed doc : bytes)\n'
                '  (s_is_ske s_isuid s_iskey s_primary s_is_uid : bool) (s_hd s_uparent_hd s_parent_hd s_signer_sub_hd : bytes) : bytes :=\n %s.\n'
                % body)
    guarded(out, 'PGPSignature.hashdata', t_hashdata)
    write('Gen_pgp.v', '\n'.join(out))


def pinned(stmts, want, what):
    """the statements that are NOT translated around a translated slice are compared with their recorded text"""
    got = [ast.unparse(s) for s in stmts if not (isinstance(s, ast.Expr) and isinstance(s.value, ast.Constant))]
    if got != want:
        for i, (g, w) in enumerate(zip(got + [None] * len(want), want + [None] * len(got))):
            if g != w: raise Unsupported('%s: untranslated statement %d changed: %r' % (what, i, (g or '<missing>')[:90]))


def strip_doc(stmts):
    return [s for s in stmts if not (isinstance(s, ast.Expr) and isinstance(s.value, ast.Constant) and isinstance(s.value.value, str))]


def ret_stmt(src):
    return ast.parse('def f():\n return ' + src).body[0].body[0]


def sym_atoms(var, cvar=None):
    """SymmetricKeyAlgorithm-valued variable `var` (Coq name cvar): its size properties are the translated tables of Gen_tables.v"""
    cvar = cvar or var
    return [('%s.key_size' % var, '(gen_sym_key_size %s)' % cvar, 'Z', [], None),
            ('%s.block_size' % var, '(gen_sym_block_size %s)' % cvar, 'Z', [], None)]


# ---------- targets: pgpy/packet/packets.py ----------
def gen_packets():
    tree = parse('pgpy/packet/packets.py')
    ctree = parse('pgpy/constants.py')
    out = [HDR2 % ('pgpy/packet/packets.py', ' PV.Gen.Gen_tables')]
    pka = class_int_consts(find_class(ctree, 'PubKeyAlgorithm'))
    pkesk = find_class(tree, 'PKESessionKeyV3')
    seipd = find_class(tree, 'IntegrityProtectedSKEDataV1')

    def t_encrypt_sk():
        fn = find_method(pkesk, 'encrypt_sk')
        if [a.arg for a in fn.args.args] != ['self', 'pk', 'symalg', 'symkey']: raise Unsupported('encrypt_sk signature changed')
        body = strip_doc(fn.body)
        pinned(body[3:], ["if self.pkalg == PubKeyAlgorithm.RSAEncryptOrSign:\n    encrypter = pk.keymaterial.__pubkey__().encrypt\n"
                          "    encargs = (bytes(m), padding.PKCS1v15())\nelif self.pkalg == PubKeyAlgorithm.ECDH:\n    encrypter = pk\n"
                          "    encargs = (bytes(m),)\nelse:\n    raise NotImplementedError(self.pkalg)",
                          'self.ct = self.ct.encrypt(encrypter, *encargs)', 'self.update_hlen()'], 'encrypt_sk')
        tr = TrI(names={'symalg': ('symalg', 'Z'), 'symkey': ('symkey', 'bytes')}, calls=I2B, ratoms=sym_atoms('symalg'), raises=True)
        txt = tr.block(body[:3] + [ret_stmt('m')])
        return ('(* PKESessionKeyV3.encrypt_sk: the value m handed to the public-key primitive (the dispatch on self.pkalg that\n'
                '   follows is pinned text: RSA gets bytes(m) with PKCS#1 v1.5, ECDH gets bytes(m)) *)\n'
                'Definition gen_pkesk_m (symalg : Z) (symkey : bytes) : gres bytes :=\n %s.\n' % txt)
    guarded(out, 'PKESessionKeyV3.encrypt_sk', t_encrypt_sk)

    def t_decrypt_sk():
        fn = find_method(pkesk, 'decrypt_sk')
        if [a.arg for a in fn.args.args] != ['self', 'pk']: raise Unsupported('decrypt_sk signature changed')
        body = strip_doc(fn.body)
        disp = body[0]
        if not (isinstance(disp, ast.If) and ast.unparse(disp.test) == 'self.pkalg == PubKeyAlgorithm.RSAEncryptOrSign'):
            raise Unsupported('decrypt_sk: dispatch changed')
        pinned(disp.body[2:], ['decrypter = pk.keymaterial.__privkey__().decrypt', 'decargs = (ct, padding.PKCS1v15())'], 'decrypt_sk RSA branch')
        pinned(disp.orelse, ['if self.pkalg == PubKeyAlgorithm.ECDH:\n    decrypter = pk\n    decargs = ()\nelse:\n    raise NotImplementedError(self.pkalg)'],
               'decrypt_sk dispatch')
        pinned(body[1:2], ["try:\n    m = bytearray(self.ct.decrypt(decrypter, *decargs))\nexcept (ValueError, InvalidUnwrap):\n"
                           "    raise PGPDecryptionError('{:s} decryption failed'.format(self.pkalg.name))"], 'decrypt_sk')
        tr0 = TrI(calls=I2B, atoms=[('self.ct.me_mod_n.to_mpibytes()', 'mpib', 'bytes', []),
                                    ('pk.keymaterial.__privkey__().key_size', 'key_bits', 'Z', [])])
        pad = tr0.block(disp.body[:2] + [ret_stmt('ct')])
        mem = '(if existsb (Z.eqb {0}) gen_members_SymmetricKeyAlgorithm then Some {0} else None)'
        tr = TrI(names={'m': ('m', 'bytes')}, calls=I2B, raises=True,
                 ratoms=[('SymmetricKeyAlgorithm(_1)', mem, 'Z', ['Z'], 'ValueError')] + sym_atoms('symalg'))
        txt = tr.block(body[2:])
        return ('(* PKESessionKeyV3.decrypt_sk, RSA branch: the ciphertext octets handed to RSA decryption\n'
                '   (mpib = self.ct.me_mod_n.to_mpibytes(), key_bits = the private key\'s key_size) *)\n'
                'Definition gen_rsa_ct_padded (mpib : bytes) (key_bits : Z) : bytes :=\n %s.\n\n'
                '(* PKESessionKeyV3.decrypt_sk after the (pinned) try: m = bytearray(self.ct.decrypt(...)) except (ValueError, InvalidUnwrap):\n'
                '   raise PGPDecryptionError : algorithm octet and key length (IndexError / ValueError / NotImplementedError become\n'
                '   PGPDecryptionError), key, checksum, the length-and-checksum test *)\n'
                'Definition gen_pkesk_open (m : bytes) : gres (Z * bytes) :=\n %s.\n' % (pad, txt))
    guarded(out, 'PKESessionKeyV3.decrypt_sk', t_decrypt_sk)

    sha1 = ("hashlib.new('SHA1', _1).digest()", '(sha1 {0})', 'bytes', ['bytes'])

    def t_seipd():
        res = ['Section Seipd.\n'
               '(* opaque: SHA-1; CFB with a zero IV under (algorithm, key) -- None = _encrypt / _decrypt raised;\n'
               '   hexlify = binascii.hexlify; mdc_emit = MDC.__bytes__() as a function of the value assigned to mdc.mdc *)\n'
               'Variable sha1 : bytes -> bytes.\nVariable cfb_enc cfb_dec : Z -> bytes -> bytes -> option bytes.\n'
               'Variable hexlify : bytes -> bytes.\nVariable mdc_emit : bytes -> bytes.\n']
        fn = find_method(seipd, 'encrypt')
        if [a.arg for a in fn.args.args] != ['self', 'key', 'alg', 'data']: raise Unsupported('encrypt signature changed')
        body = strip_doc(fn.body)
        if not body or ast.unparse(body[-1]) != 'self.update_hlen()' or not ast.unparse(body[-2]).startswith('self.ct = '):
            raise Unsupported('encrypt: tail changed')
        tr = TrI(names={'data': ('data', 'bytes'), 'key': ('key', 'bytes'), 'alg': ('alg', 'Z')}, raises=True,
                 atoms=[('alg.gen_iv()', 'iv0', 'bytes', []), sha1, ('binascii.hexlify(_1)', '(hexlify {0})', 'bytes', ['bytes']),
                        ('mdc.__bytes__()', '(mdc_emit mdc_mdc)', 'bytes', [])],
                 ratoms=[('_encrypt(_1, _2, alg)', '(cfb_enc alg {1} {0})', 'bytes', ['bytes', 'bytes'], '_encrypt')],
                 fields={'mdc.mdc': ('mdc_mdc', 'bytes')}, skip=['mdc = MDC()', 'mdc.update_hlen()'])
        txt = tr.block(body[:-2] + [ast.copy_location(ast.Return(value=body[-2].value), body[-2])])
        tr.finish()
        res.append('(* IntegrityProtectedSKEDataV1.encrypt: the value assigned to self.ct; iv0 = alg.gen_iv() *)\n'
                   'Definition gen_seipd_encrypt (key : bytes) (alg : Z) (data iv0 : bytes) : gres bytes :=\n %s.\n' % txt)
        fn = find_method(seipd, 'decrypt')
        if [a.arg for a in fn.args.args] != ['self', 'key', 'alg']: raise Unsupported('decrypt signature changed')
        tr = TrI(names={'key': ('key', 'bytes'), 'alg': ('alg', 'Z'), 'self.ct': ('ct', 'bytes')}, raises=True,
                 atoms=[sha1, ('constant_time.bytes_eq(_1, _2)', '(eqb_bytes {0} {1})', 'bool', ['bytes', 'bytes'])],
                 ratoms=[('_decrypt(_1, _2, alg)', '(cfb_dec alg {1} {0})', 'bytes', ['bytes', 'bytes'], '_decrypt')] + sym_atoms('alg'))
        txt = tr.block(strip_doc(fn.body))
        res.append('(* IntegrityProtectedSKEDataV1.decrypt; ct = self.ct *)\n'
                   'Definition gen_seipd_decrypt (key : bytes) (alg : Z) (ct : bytes) : gres bytes :=\n %s.\n' % txt)
        res.append('End Seipd.\n')
        return '\n'.join(res)
    guarded(out, 'IntegrityProtectedSKEDataV1.encrypt/decrypt', t_seipd)

    def t_fpr():
        pk4 = find_class(tree, 'PubKeyV4')
        fn = find_method(pk4, 'fingerprint')
        tr = TrI(names={'self.pkalg': ('pkalg', 'Z')}, calls=I2B, hashobjs=['fp'],
                 atoms=[("hashlib.new('sha1')", '[]', 'bytes', []), ('self.keymaterial.publen()', 'publen', 'Z', []),
                        ('calendar.timegm(self.created.utctimetuple())', 'created', 'Z', []),
                        ('self.keymaterial.__bytearray__()', 'kmat', 'bytes', []),
                        ('Fingerprint(fp.hexdigest().upper())', '(sha1 fp)', 'bytes', [])])
        txt = tr.block(strip_doc(fn.body))
        return ('(* PubKeyV4.fingerprint as octets (the method returns them as upper-case hex in a Fingerprint): the hashlib object is the\n'
                '   concatenation of the octets it was fed; publen = keymaterial.publen(), created = timegm(created), kmat =\n'
                '   keymaterial.__bytearray__() *)\n'
                'Definition gen_fingerprint (sha1 : bytes -> bytes) (publen created pkalg : Z) (kmat : bytes) : bytes :=\n %s.\n' % txt)
    guarded(out, 'PubKeyV4.fingerprint', t_fpr)

    def memfmt(cls):
        return '(if existsb (Z.eqb {0}) gen_members_%s then Some {0} else None)' % cls

    def t_ops():
        ops = find_class(tree, 'OnePassSignatureV3')
        # setter semantics declared below are those of the pinned setter bodies
        pinned(find_method(ops, 'sigtype_int').body, ['self._sigtype = SignatureType(val)'], 'OnePassSignatureV3.sigtype setter')
        pinned(find_method(ops, 'pubalg_int').body[:1], ['self._pubalg = PubKeyAlgorithm(val)'], 'OnePassSignatureV3.pubalg setter')
        pinned(find_method(ops, 'halg_int').body, ['try:\n    self._halg = HashAlgorithm(val)\nexcept ValueError:\n    self._halg = val'],
               'OnePassSignatureV3.halg setter')
        for cls in ('SignatureType', 'PubKeyAlgorithm', 'HashAlgorithm'):
            if not all(0 <= v < 256 for v in enum_members(ctree, cls).values()): raise Unsupported(cls + ' member outside the octet range')
        fn = find_method(ops, '__bytearray__')
        tr = TrI(names={'self.sigtype': ('sigtype', 'Z'), 'self.halg': ('halg', 'Z'), 'self.pubalg': ('pubalg', 'Z'), 'self.nested': ('nested', 'bool')},
                 octets=['sigtype', 'halg', 'pubalg'],
                 atoms=[('super(OnePassSignatureV3, self).__bytearray__()', 'hdr', 'bytes', []),
                        ("binascii.unhexlify(self.signer.encode('latin-1'))", 'keyid', 'bytes', [])])
        emit = tr.block(strip_doc(fn.body))
        fn = find_method(ops, 'parse')
        tr = TrI(names={'packet': ('packet', 'bytes')}, raises=True, skip=['super(OnePassSignatureV3, self).parse(packet)'],
                 fields={'self.sigtype': ('sigtype', 'Z', memfmt('SignatureType'), 'ValueError'), 'self.halg': ('halg', 'Z'),
                         'self.pubalg': ('pubalg', 'Z', memfmt('PubKeyAlgorithm'), 'ValueError'),
                         'self.signer': ('signer', 'bytes'), 'self.nested': ('nested', 'bool')})
        prs = tr.block(strip_doc(fn.body) + [ret_stmt('(self.sigtype, self.halg, self.pubalg, self.signer, self.nested, packet)')])
        tr.finish()
        return ('(* OnePassSignatureV3.__bytearray__: hdr = the versioned header octets, keyid = unhexlify(self.signer); sigtype halg pubalg\n'
                '   are enum members (octets) *)\n'
                'Definition gen_ops_emit (hdr : bytes) (sigtype halg pubalg : Z) (keyid : bytes) (nested : bool) : bytes :=\n %s.\n\n'
                '(* OnePassSignatureV3.parse after the header (super().parse is pinned text): the attribute values assigned and the rest of\n'
                '   the buffer.  Setters (pinned): sigtype -> SignatureType(v), pubalg -> PubKeyAlgorithm(v) raise ValueError for a non-member;\n'
                '   halg keeps any value; signer keeps the 8 octets (as hex) *)\n'
                'Definition gen_ops_parse (packet : bytes) : gres (Z * Z * Z * bytes * bool * bytes) :=\n %s.\n' % (emit, prs))
    guarded(out, 'OnePassSignatureV3.__bytearray__/parse', t_ops)

    def t_lit():
        lit = find_class(tree, 'LiteralData')
        latin = ("_1.encode('latin-1')", '(if forallb byteb {0} then Some {0} else None)', 'bytes', ['bytes'], 'UnicodeEncodeError')
        fn = find_method(lit, '__bytearray__')
        tr = TrI(names={'self.format': ('fmt', 'bytes'), 'self.filename': ('fname', 'bytes'), 'self._contents': ('contents', 'bytes')},
                 calls=I2B, raises=True, ratoms=[latin],
                 atoms=[('super(LiteralData, self).__bytearray__()', 'hdr', 'bytes', []),
                        ('calendar.timegm(self.mtime.utctimetuple())', 'mtime0', 'Z', [])],
                 # the two statements that prepare self.header (length form, length of this body) before it is emitted: pinned text,
                 # their effect is inside hdr = super().__bytearray__() which is emitted AFTER them
                 skip=['if self.header._lenfmt == 0 and self.header.llen == 0:\n    self.header.llen = 0',
                       'self.header.length = len(_body)'])
        emit = tr.block(strip_doc(fn.body))
        tr.finish()
        fn = find_method(lit, 'parse')
        tr = TrI(names={'packet': ('packet', 'bytes')}, raises=True, skip=['super(LiteralData, self).parse(packet)'],
                 fields={'self.format': ('fmt', 'bytes'), 'self.filename': ('fname', 'bytes'), 'self.mtime': ('mtime', 'bytes'),
                         'self._contents': ('contents', 'bytes')},
                 atoms=[('chr(_1)', '[{0}]', 'bytes', ['Z']), ("_1.decode('latin-1')", '{0}', 'bytes', ['bytes']),
                        ('self.header.length', 'hlen', 'Z', [])])
        prs = tr.block(strip_doc(fn.body) + [ret_stmt('(self.format, self.filename, self.mtime, self._contents, packet)')])
        tr.finish()
        return ('(* LiteralData.__bytearray__: text = list of code points (encode(\'latin-1\') raises UnicodeEncodeError above 255);\n'
                '   fmt = self.format, fname = self.filename, mtime0 = timegm(self.mtime), hdr = the header octets as emitted after the\n'
                '   (pinned) statements that set self.header.llen / self.header.length from the body just built *)\n'
                'Definition gen_lit_emit (hdr fmt fname : bytes) (mtime0 : Z) (contents : bytes) : gres bytes :=\n %s.\n\n'
                '(* LiteralData.parse after the header (super().parse is pinned text): the values assigned to format, filename, mtime (the\n'
                '   four octets handed to the setter), _contents, and the rest of the buffer; hlen = self.header.length *)\n'
                'Definition gen_lit_parse (hlen : Z) (packet : bytes) : gres (bytes * bytes * bytes * bytes * bytes) :=\n %s.\n' % (emit, prs))
    guarded(out, 'LiteralData.__bytearray__/parse', t_lit)

    write('Gen_packets.v', '\n'.join(out))


# ---------- targets: pgpy/packet/fields.py ----------
def gen_fields():
    tree = parse('pgpy/packet/fields.py')
    ctree = parse('pgpy/constants.py')
    out = [HDR2 % ('pgpy/packet/fields.py', ' PV.Gen.Gen_types PV.Gen.Gen_ptypes PV.Gen.Gen_tables')]

    def t_eckdf():
        fn = find_method(find_class(tree, 'ECKDF'), 'derive_key')
        if [a.arg for a in fn.args.args] != ['self', 's', 'curve', 'pkalg', 'fingerprint']: raise Unsupported('derive_key signature changed')
        body = strip_doc(fn.body)
        pinned(body[-2:], ["ckdf = ConcatKDFHash(algorithm=getattr(hashes, self.halg.name)(), length=self.encalg.key_size // 8, "
                           "otherinfo=bytes(data), backend=default_backend())", 'return ckdf.derive(s)'], 'ECKDF.derive_key')
        tr = TrI(names={'pkalg': ('pkalg', 'Z'), 'self.halg': ('halg', 'Z'), 'self.encalg': ('encalg', 'Z')},
                 octets=['pkalg', 'halg', 'encalg'],
                 atoms=[('encoder.encode(curve.value)', 'oid_der', 'bytes', []),
                        ("binascii.unhexlify(fingerprint.replace(' ', ''))", 'fpr', 'bytes', [])])
        txt = tr.block(body[:-2] + [ret_stmt('data')])
        return ('(* ECKDF.derive_key: the otherinfo block handed to ConcatKDFHash (the two KDF statements are pinned text);\n'
                '   oid_der = DER encoding of the curve OID, fpr = the fingerprint octets; pkalg halg encalg are enum members (octets) *)\n'
                'Definition gen_ecdh_param (oid_der : bytes) (pkalg halg encalg : Z) (fpr : bytes) : bytes :=\n %s.\n' % txt)
    guarded(out, 'ECKDF.derive_key', t_eckdf)

    priv = find_class(tree, 'PrivKey')
    s2kt = class_int_consts(find_class(ctree, 'String2KeyType'))

    def t_keyblob():
        res = ['Section KeyBlob.\n'
               '(* opaque: SHA-1; CFB of cipher alg under key, iv; String2Key.derive_key as a function of the S2K fields it reads\n'
               '   (specifier, hash, cipher, salt, coded count) and the passphrase *)\n'
               'Variable sha1 : bytes -> bytes.\nVariable cfb_enc cfb_dec : Z -> bytes -> bytes -> bytes -> bytes.\n'
               'Variable s2k : Z -> Z -> Z -> bytes -> Z -> bytes -> bytes.\n']
        fn = find_method(priv, 'decrypt_keyblob')
        sha = ("hashlib.new('sha1', _1).digest()", '(sha1 {0})', 'bytes', ['bytes'])
        tr = TrI(names={'passphrase': ('pass', 'bytes'), 'self.encbytes': ('encbytes', 'bytes')}, calls=I2B, raises=True,
                 atoms=[('self.s2k.usage', 'usage', 'Z', []), sha,
                        ('self.s2k.derive_key(passphrase)', '(s2k spec halg alg salt count pass)', 'bytes', []),
                        ('_decrypt(_1, _2, self.s2k.encalg, bytes(self.s2k.iv))', '(cfb_dec alg {1} iv {0})', 'bytes', ['bytes', 'bytes'])],
                 skip=['if not self.s2k:\n    return'])
        txt = tr.block(strip_doc(fn.body))
        tr.finish()
        res.append('(* PrivKey.decrypt_keyblob (the `if not self.s2k: return` guard is pinned text): usage alg spec halg salt count iv =\n'
                   '   the fields of self.s2k, encbytes = self.encbytes *)\n'
                   'Definition gen_decrypt_keyblob (usage alg spec halg : Z) (salt : bytes) (count : Z) (iv encbytes pass : bytes) : gres bytes :=\n %s.\n' % txt)
        fn = find_method(priv, 'encrypt_keyblob')
        if [a.arg for a in fn.args.args] != ['self', 'passphrase', 'enc_alg', 'hash_alg']: raise Unsupported('encrypt_keyblob signature changed')
        # (repair a3ce830) the specifier is built on a local `s2k = String2Key()` and installed by `self.s2k = s2k` after _encrypt:
        # the two statements are pinned text, the fields of the local object are tracked like locals
        F = {'s2k.usage': ('s_usage', 'Z'), 's2k.encalg': ('s_encalg', 'Z'), 's2k.specifier': ('s_spec', 'Z'),
             's2k.iv': ('s_iv', 'bytes'), 's2k.halg': ('s_halg', 'Z'), 's2k.salt': ('s_salt', 'bytes'),
             's2k.count': ('s_count', 'Z'), 'self.encbytes': ('s_encbytes', 'bytes')}
        tr = TrI(names={'passphrase': ('pass', 'bytes'), 'enc_alg': ('enc_alg', 'Z'), 'hash_alg': ('hash_alg', 'Z')}, consts=s2kt,
                 fields=F, lists={'self.__privfields__': ('privs', 'Z')},
                 atoms=[('enc_alg.gen_iv()', 'iv0', 'bytes', []), ('bytearray(os.urandom(8))', 'salt0', 'bytes', []),
                        ('hash_alg.tuned_count', 'count0', 'Z', []), sha,
                        ('getattr(self, pf).to_mpibytes()', '(gen_to_mpibytes pf)', 'bytes', []),
                        ('s2k.derive_key(passphrase)', '(s2k s_spec s_halg s_encalg s_salt s_count pass)', 'bytes', []),
                        ('_encrypt(_1, _2, enc_alg, _3)', '(cfb_enc enc_alg {1} {2} {0})', 'bytes', ['bytes', 'bytes', 'bytes'])],
                 skip=['s2k = String2Key()', 'self.s2k = s2k', 'self.clear()'])
        txt = tr.block(strip_doc(fn.body) + [ret_stmt('(s2k.usage, s2k.encalg, s2k.specifier, s2k.halg, '
                                                      's2k.salt, s2k.count, s2k.iv, self.encbytes)')])
        tr.finish()
        res.append('(* PrivKey.encrypt_keyblob: the S2K fields and self.encbytes after the call (self.clear() is pinned text);\n'
                   '   privs = the values of the private fields in __privfields__ order (the loop variable stands for getattr(self, pf)),\n'
                   '   iv0 / salt0 = the two random draws, count0 = hash_alg.tuned_count *)\n'
                   'Definition gen_encrypt_keyblob (pass : bytes) (enc_alg hash_alg : Z) (privs : list Z) (iv0 salt0 : bytes) (count0 : Z)\n'
                   '  : Z * Z * Z * Z * bytes * Z * bytes * bytes :=\n %s.\n' % txt)
        res.append('End KeyBlob.\n')
        return '\n'.join(res)
    guarded(out, 'PrivKey.decrypt_keyblob/encrypt_keyblob', t_keyblob)

    write('Gen_fields.v', '\n'.join(out))


# ---------- targets: pgpy/pgp.py, cleartext framework constants ----------
def text_lit(s):
    return '[' + '; '.join(str(ord(c)) for c in s) + ']'


def str_const(e, what):
    if isinstance(e, ast.Constant) and isinstance(e.value, str): return e.value
    raise Unsupported(what + ': not a string literal')


def gen_cleartext():
    tree = parse('pgpy/pgp.py')
    out = [HDR % 'pgpy/pgp.py (PGPMessage.dash_escape / dash_unescape / __str__): text = list of code points']
    msg = find_class(tree, 'PGPMessage')

    def t_dash():
        res = []
        for nm in ('dash_escape', 'dash_unescape'):
            fn = find_method(msg, nm)
            if [a.arg for a in fn.args.args] != ['text'] or [ast.unparse(d) for d in fn.decorator_list] != ['staticmethod']:
                raise Unsupported(nm + ': signature changed')
            body = strip_doc(fn.body)
            if len(body) != 1 or not isinstance(body[0], ast.Return): raise Unsupported(nm + ': body shape')
            env = {}
            if not tmatch(tpl('re.subn(_1, _2, text, flags=re.MULTILINE)[0]'), body[0].value, env):
                raise Unsupported(nm + ': not re.subn(PATTERN, REPLACEMENT, text, flags=re.MULTILINE)[0]')
            res.append('(* %s: re.subn(%r, %r, text, flags=re.MULTILINE)[0] *)' % (nm, str_const(env['_1'], nm), str_const(env['_2'], nm)))
            res.append('Definition gen_%s_pattern : list Z := %s.' % (nm, text_lit(str_const(env['_1'], nm))))
            res.append('Definition gen_%s_repl : list Z := %s.' % (nm, text_lit(str_const(env['_2'], nm))))
            res.append('Definition gen_%s_multiline : bool := true.\n' % nm)
        return '\n'.join(res)
    guarded(out, 'PGPMessage.dash_escape/dash_unescape', t_dash)

    def t_str():
        fn = find_method(msg, '__str__')
        body = strip_doc(fn.body)
        if len(body) != 2 or not isinstance(body[0], ast.If) or ast.unparse(body[0].test) != "self.type == 'cleartext'" or body[0].orelse:
            raise Unsupported('__str__: shape')
        pinned(body[1:], ['return super(PGPMessage, self).__str__()'], '__str__')
        b = strip_doc([x for x in body[0].body])
        if len(b) != 4: raise Unsupported('__str__: cleartext branch has %d statements' % len(b))
        if not (isinstance(b[0], ast.Assign) and ast.unparse(b[0].targets[0]) == 'tmpl'): raise Unsupported('__str__: tmpl')
        tmpl = str_const(b[0].value, 'tmpl')
        pinned(b[1:2], ['hashes = set((s.hash_algorithm.name for s in self.signatures))'], '__str__ hashes')
        env = {}
        if not (isinstance(b[2], ast.Assign) and ast.unparse(b[2].targets[0]) == 'hhdr'
                and tmatch(tpl("_1.format(hashes=_2.join(sorted(hashes))) if hashes else _3"), b[2].value, env)):
            raise Unsupported('__str__: hhdr expression changed')
        pinned(b[3:], ['return tmpl.format(hhdr=hhdr, cleartext=self.dash_escape(self.bytes_to_text(self._message)), '
                       'signature=super(PGPMessage, self).__str__())'], '__str__ return')
        return ('(* PGPMessage.__str__, cleartext branch: the template, the Hash: line format, the separator, the empty case *)\n'
                'Definition gen_cleartext_template : list Z := %s.\nDefinition gen_hash_header_format : list Z := %s.\n'
                'Definition gen_hash_header_join : list Z := %s.\nDefinition gen_hash_header_empty : list Z := %s.\n'
                % (text_lit(tmpl), text_lit(str_const(env['_1'], 'hhdr')), text_lit(str_const(env['_2'], 'join')),
                   text_lit(str_const(env['_3'], 'empty'))))
    guarded(out, 'PGPMessage.__str__', t_str)
    write('Gen_cleartext.v', '\n'.join(out))


# ---------- targets: pgpy/decorators.py KeyAction, the @KeyAction(...) lines of pgpy/pgp.py ----------
KEY_OPS = ['sign', 'certify', 'revoke', 'revoker', 'bind', 'encrypt', 'decrypt']      # order of Model/Policy.v `oper`
KEY_ATTRS = {'is_unlocked': 0, 'is_public': 1}                                        # encoding of Model/Policy.v `attr`


def gen_policy():
    dtree = parse('pgpy/decorators.py')
    ptree = parse('pgpy/pgp.py')
    ctree = parse('pgpy/constants.py')
    out = [HDR2 % ('pgpy/decorators.py (KeyAction), pgpy/pgp.py (@KeyAction lines of PGPKey)', '')]
    ka = find_class(dtree, 'KeyAction')

    def t_table():
        kf = enum_members(ctree, 'KeyFlags')
        key = find_class(ptree, 'PGPKey')
        found = {}
        for m in key.body:
            if not isinstance(m, ast.FunctionDef): continue
            decs = [d for d in m.decorator_list if 'KeyAction' in ast.unparse(d)]
            if not decs: continue
            if len(decs) != 1 or len(m.decorator_list) != 1 or m.name in found: raise Unsupported('decorators of PGPKey.' + m.name)
            d = decs[0]
            if not (isinstance(d, ast.Call) and ast.unparse(d.func) == 'KeyAction'): raise Unsupported('decorator shape of ' + m.name)
            flags = 0
            for a in d.args:
                u = ast.unparse(a)
                if not u.startswith('KeyFlags.') or u[9:] not in kf: raise Unsupported('usage flag ' + u)
                flags |= kf[u[9:]]
            conds = []
            for kw in d.keywords:
                if kw.arg not in KEY_ATTRS or not (isinstance(kw.value, ast.Constant) and isinstance(kw.value.value, bool)):
                    raise Unsupported('condition %s of %s' % (kw.arg, m.name))
                conds.append('(%d, %s)' % (KEY_ATTRS[kw.arg], 'true' if kw.value.value else 'false'))
            found[m.name] = '(%d, [%s])' % (flags, '; '.join(conds))
        if sorted(found) != sorted(KEY_OPS): raise Unsupported('methods of PGPKey under @KeyAction: ' + repr(sorted(found)))
        # KeyAction.__init__: flags = set(usage), conditions = the keyword arguments in order
        pinned(find_method(ka, '__init__').body, ['super(KeyAction, self).__init__()', 'self.flags = set(usage)', 'self.conditions = conditions'],
               'KeyAction.__init__')
        return ('(* @KeyAction(flags..., conditions...) above PGPKey.%s: (union of the KeyFlags bits, [(attribute, expected)]) with\n'
                '   attribute 0 = is_unlocked, 1 = is_public *)\n'
                'Definition gen_key_actions : list (Z * list (Z * bool)) :=\n [%s].\n' % (' / '.join(KEY_OPS), ';\n  '.join(found[o] for o in KEY_OPS)))
    guarded(out, '@KeyAction table', t_table)

    def t_check():
        fn = find_method(ka, 'check_attributes')
        tr = TrI(raises=True, lists={'self.conditions.items()': ('conds', ('Z', 'bool'))},
                 atoms=[('getattr(key, attr)', '(getattr_key attr)', 'bool', [])])
        txt = tr.block(strip_doc(fn.body), k='(GOk tt)')
        return ('(* KeyAction.check_attributes: getattr_key a = getattr(key, <attribute a>), conds = self.conditions.items() *)\n'
                'Definition gen_check_attributes (getattr_key : Z -> bool) (conds : list (Z * bool)) : gres unit :=\n %s.\n' % txt)
    guarded(out, 'KeyAction.check_attributes', t_check)

    def t_usage():
        fn = find_method(ka, 'usage')
        if [a.arg for a in fn.args.args] != ['self', 'key', 'user'] or [ast.unparse(d) for d in fn.decorator_list] != ['contextlib.contextmanager']:
            raise Unsupported('usage: signature changed')
        body = strip_doc(fn.body)
        pinned(body[:1], ['def _preiter(first, iterable):\n    yield first\n    for item in iterable:\n        yield item'], 'usage._preiter')
        if ast.unparse(body[-1]) != 'yield _key': raise Unsupported('usage: does not end with `yield _key`')
        tr = TrI(names={'key': ('key', 'Z'), 'key._require_usage_flags': ('enforce', 'bool')}, raises=True,
                 lists={'_preiter(key, key.subkeys.values())': ('(key :: subkeys)', 'Z', 'key')},
                 atoms=[('len(self.flags)', 'req', 'Z', []),
                        ('self.flags & set(_key._get_key_flags(user))', '(Z.land req (flags_of _key))', 'Z', []),
                        ('_key is not key', '(negb (Z.eqb _key key))', 'bool', [])],
                 skip=['em = {}', "em['keyid'] = key.fingerprint.keyid", "em['flags'] = ', '.join((flag.name for flag in self.flags))",
                       "warning = 'Key {keyid:s} does not have the required usage flag {flags:s}'.format(**em)",
                       'logging.warning(warning)',
                       "if _key is not key:\n    em['subkeyid'] = _key.fingerprint.keyid\n"
                       "    logging.debug('Key {keyid:s} does not have the required usage flag {flags:s}; using subkey {subkeyid:s}'.format(**em))"])
        txt = tr.block(body[1:-1] + [ret_stmt('_key')])
        tr.finish()
        return ('(* KeyAction.usage: the key object yielded.  Key objects are numbers (key = the receiver, subkeys = key.subkeys.values());\n'
                '   req = self.flags as a bit set (len(self.flags) is non-zero exactly when a bit is set), flags_of k = the bit set\n'
                '   k._get_key_flags(user) returns (an exception raised there is outside the translation), enforce = key._require_usage_flags.\n'
                '   The logging calls and the message strings are pinned text. *)\n'
                'Definition gen_usage (req : Z) (flags_of : Z -> Z) (enforce : bool) (key : Z) (subkeys : list Z) : gres Z :=\n %s.\n' % txt)
    guarded(out, 'KeyAction.usage', t_usage)

    def t_call():
        fn = find_method(ka, '__call__')
        body = strip_doc(fn.body)
        if len(body) != 2 or not isinstance(body[0], ast.FunctionDef) or body[0].name != '_action' or ast.unparse(body[1]) != 'return _action':
            raise Unsupported('__call__ shape')
        act = body[0]
        if ast.unparse(act.args) != 'key, *args, **kwargs' or [ast.unparse(d) for d in act.decorator_list] != ['functools.wraps(action)']:
            raise Unsupported('_action signature')
        tr = TrI(names={'key': ('key', 'Z'), 'key.is_primary': ('is_primary', 'bool')}, raises=True,
                 atoms=[('key._key is None', 'no_key', 'bool', []), ('len(key._uids)', 'nuids', 'Z', []),
                        ('action is not key.certify.__wrapped__', 'not_certify', 'bool', []),
                        ('user is not None and key.get_uid(user) is None', 'user_unknown', 'bool', [])],
                 ratoms=[('self.usage(key, user)', '(gen_usage req flags_of enforce key subkeys)', 'Z', [], None),
                         ('self.check_attributes(_key)', '(gen_check_attributes (getattr_key _key) conds)', 'unit', [], None),
                         ('action(_key, *args, **kwargs)', '(GOk _key)', 'Z', [], None)],
                 skip=["user = kwargs.get('user', None)"])
        txt = tr.block(strip_doc(act.body))
        tr.finish()
        return ('(* the wrapper KeyAction.__call__ installs: GOk k = the undecorated method runs on key object k (what it returns or raises\n'
                '   is outside the translation); no_key = `key._key is None`, nuids = len(key._uids), not_certify = `action is not\n'
                '   key.certify.__wrapped__`, user_unknown = `user is not None and key.get_uid(user) is None` for user = kwargs.get(\'user\', None)\n'
                '   (that assignment is pinned text); getattr_key k a = getattr(<key object k>, <attribute a>): the conditions are checked on\n'
                '   the component usage() yields *)\n'
                'Definition gen_key_action (req : Z) (flags_of : Z -> Z) (enforce : bool) (key : Z) (subkeys : list Z)\n'
                '  (getattr_key : Z -> Z -> bool) (conds : list (Z * bool)) (no_key : bool) (nuids : Z)\n'
                '  (is_primary not_certify user_unknown : bool) : gres Z :=\n %s.\n' % txt)
    guarded(out, 'KeyAction.__call__', t_call)

    write('Gen_policy.v', '\n'.join(out))


# ---------- targets: pgpy/pgp.py PGPKeyring._add_alias ----------
def gen_keyring():
    tree = parse('pgpy/pgp.py')
    out = [HDR2 % ('pgpy/pgp.py (PGPKeyring._add_alias)', '')]
    kr = find_class(tree, 'PGPKeyring')

    def t_add_alias():
        fn = find_method(kr, '_add_alias')
        if [a.arg for a in fn.args.args] != ['self', 'alias', 'pkid']: raise Unsupported('_add_alias signature changed')
        # the operations on the deque of dicts are pinned statements with a declared effect; the control flow is translated
        loop = ('for m in self._aliases:\n    if alias not in m:\n        m[alias] = pkid\n        break\nelse:\n'
                '    self._aliases.appendleft({alias: pkid})')
        tr = TrI(names={'alias': ('alias', 'A'), 'pkid': ('pkid', 'Z'), 'self._aliases': ('aliases', 'L')}, opaque=['A', 'L'],
                 atoms=[('alias not in self', '(negb (contains aliases alias))', 'bool', []),
                        ('alias in self', '(contains aliases alias)', 'bool', []),
                        ('pkid in set((m[alias] for m in self._aliases if alias in m))', '(has_pid aliases alias pkid)', 'bool', [])],
                 effects={'self._aliases[-1][alias] = pkid': ('self._aliases', '(set_last aliases alias pkid)', 'L'),
                          loop: ('self._aliases', '(insert_free aliases alias pkid)', 'L'),
                          'self._sort_alias(alias)': ('self._aliases', '(sort_alias aliases alias)', 'L')})
        txt = tr.block(strip_doc(fn.body), k='aliases')
        tr.finish()
        return ('Section Keyring.\n'
                '(* A = alias (str / Fingerprint), L = the deque of dicts self._aliases.  Pinned statements and the operation each stands for:\n'
                '     contains ls a       `a in self`  (PGPKeyring.__contains__)\n'
                '     has_pid ls a k      `k in set(m[a] for m in self._aliases if a in m)`\n'
                '     set_last ls a k     `self._aliases[-1][a] = k`\n'
                '     insert_free ls a k  the for / break / else: first dict lacking a gets a -> k, else appendleft({a: k})\n'
                '     sort_alias ls a     `self._sort_alias(a)` *)\n'
                'Variables A L : Type.\nVariable contains : L -> A -> bool.\nVariable has_pid : L -> A -> Z -> bool.\n'
                'Variables set_last insert_free : L -> A -> Z -> L.\nVariable sort_alias : L -> A -> L.\n\n'
                '(* PGPKeyring._add_alias: self._aliases afterwards *)\n'
                'Definition gen_add_alias (aliases : L) (alias : A) (pkid : Z) : L :=\n %s.\nEnd Keyring.\n' % txt)
    guarded(out, 'PGPKeyring._add_alias', t_add_alias)
    write('Gen_keyring.v', '\n'.join(out))


# ---------- targets: pgpy/packet/fields.py SubPackets ----------
def gen_subarea():
    tree = parse('pgpy/packet/fields.py')
    out = [HDR2 % ('pgpy/packet/fields.py (class SubPackets)', '')]
    sp = find_class(tree, 'SubPackets')
    RAW = {'self._hashed_raw': ('hraw', 'optbytes'), 'self._unhashed_raw': ('uraw', 'optbytes')}

    def t_emit():
        res = ['Section SubArea.\n'
               '(* SP = a parsed subpacket object; sp_len = len(sp), sp_bytes = sp.__bytearray__().  hraw / uraw = self._hashed_raw /\n'
               '   self._unhashed_raw (None or the received octets), hsps / usps = self._hashed_sp.values() / self._unhashed_sp.values() *)\n'
               'Variable SP : Type.\nVariable sp_len : SP -> Z.\nVariable sp_bytes : SP -> bytes.\n']
        for meth, raw, cn, dct, lv, gname in (('__hashbytearray__', '_hashed_raw', 'hraw', '_hashed_sp', 'hsp', 'gen_sub_hashed_emit'),
                                              ('__unhashbytearray__', '_unhashed_raw', 'uraw', '_unhashed_sp', 'uhsp', 'gen_sub_unhashed_emit')):
            fn = find_method(sp, meth)
            if [a.arg for a in fn.args.args] != ['self']: raise Unsupported(meth + ': signature changed')
            tr = TrI(names={'self.' + raw: (cn, 'optbytes')}, calls=I2B, raises=True, opaque=['SP'],
                     lists={'self.%s.values()' % dct: ('sps', 'SP')},
                     atoms=[('sum((len(sp) for sp in self.%s.values()))' % dct, '(fold_right Z.add 0 (map sp_len sps))', 'Z', []),
                            ('%s.__bytearray__()' % lv, '(sp_bytes %s)' % lv, 'bytes', [])])
            res.append('(* SubPackets.%s *)\nDefinition %s (%s : option bytes) (sps : list SP) : gres bytes :=\n %s.\n'
                       % (meth, gname, cn, tr.block(strip_doc(fn.body))))
        fn = find_method(sp, '__bytearray__')
        tr = TrI(raises=True, ratoms=[('self.__hashbytearray__()', '(gen_sub_hashed_emit hraw hsps)', 'bytes', [], None),
                                      ('self.__unhashbytearray__()', '(gen_sub_unhashed_emit uraw usps)', 'bytes', [], None)])
        res.append('(* SubPackets.__bytearray__ *)\nDefinition gen_sub_emit (hraw uraw : option bytes) (hsps usps : list SP) : gres bytes :=\n %s.\n'
                   % tr.block(strip_doc(fn.body)))
        res.append('End SubArea.\n')
        return '\n'.join(res)
    guarded(out, 'SubPackets.__hashbytearray__/__unhashbytearray__/__bytearray__', t_emit)

    def t_setitem():
        fn = find_method(sp, '__setitem__')
        if [a.arg for a in fn.args.args] != ['self', 'key', 'val']: raise Unsupported('__setitem__: signature changed')
        tr = TrI(names=dict(RAW), fields=dict(RAW),
                 atoms=[("key.startswith('h_')", 'is_h', 'bool', []), ('self._unhashed_sp', 'false', 'bool', [])],
                 skip=['if isinstance(key, tuple):\n    key, i = key', 'while (key, i) in d:\n    i += 1', 'd[key, i] = val'],
                 effects={'d, key = (self._hashed_sp, key[2:])': ('d', 'true', 'bool')})
        txt = tr.block(strip_doc(fn.body) + [ret_stmt('(d, self._hashed_raw, self._unhashed_raw)')])
        tr.finish()
        return ('(* SubPackets.__setitem__: is_h = key.startswith(\'h_\').  The dictionary d that receives the value is represented by the\n'
                '   boolean "d is self._hashed_sp" (d = self._unhashed_sp -> false;  d, key = self._hashed_sp, key[2:] -> true, pinned);\n'
                '   the (key, i) sequence-id search and the insertion d[(key, i)] = val are pinned text.  Result: which dictionary got the\n'
                '   value, self._hashed_raw and self._unhashed_raw afterwards *)\n'
                'Definition gen_sub_setitem (is_h : bool) (hraw uraw : option bytes) : bool * option bytes * option bytes :=\n %s.\n' % txt)
    guarded(out, 'SubPackets.__setitem__', t_setitem)

    def t_copy():
        fn = find_method(sp, '__copy__')
        body = strip_doc(fn.body)
        if not body or ast.unparse(body[-1]) != 'return sp': raise Unsupported('__copy__: does not end with `return sp`')
        F = {'sp._hashed_sp': ('c_hsps', 'SPD'), 'sp._unhashed_sp': ('c_usps', 'SPD'),
             'sp._hashed_raw': ('c_hraw', 'optbytes'), 'sp._unhashed_raw': ('c_uraw', 'optbytes')}
        tr = TrI(names=dict(RAW), fields=F, opaque=['SPD'], skip=['sp = SubPackets()'],
                 atoms=[('self._hashed_sp.copy()', 'hsps', 'SPD', []), ('self._unhashed_sp.copy()', 'usps', 'SPD', []),
                        ('copy.copy(_1)', '{0}', 'optbytes', ['optbytes'])])
        txt = tr.block(body[:-1] + [ret_stmt('(sp._hashed_sp, sp._unhashed_sp, sp._hashed_raw, sp._unhashed_raw)')])
        tr.finish()
        return ('(* SubPackets.__copy__: the four attributes of the new object (SPD = an ordered dictionary of subpackets; .copy() and\n'
                '   copy.copy of None / octets give equal values) *)\n'
                'Definition gen_sub_copy (SPD : Type) (hsps usps : SPD) (hraw uraw : option bytes) : SPD * SPD * option bytes * option bytes :=\n %s.\n' % txt)
    guarded(out, 'SubPackets.__copy__', t_copy)

    def t_parse():
        fn = find_method(sp, 'parse')
        if [a.arg for a in fn.args.args] != ['self', 'packet']: raise Unsupported('parse: signature changed')
        loop_h = "while plen - len(packet) < hl:\n    sp = SignatureSP(packet)\n    self['h_' + sp.__class__.__name__] = sp"
        loop_u = "while plen - len(packet) < uhl:\n    sp = SignatureSP(packet)\n    self[sp.__class__.__name__] = sp"
        names = dict(RAW); names['packet'] = ('packet', 'bytes')
        tr = TrI(names=names, fields=dict(RAW), calls=I2B, raises=True,
                 effects={loop_h: [('packet', '(walk packet hl)', 'bytes'),
                                   ('self._hashed_raw', '(if Z.ltb 0 hl then None else hraw)', 'optbytes')],
                          loop_u: [('packet', '(walk packet uhl)', 'bytes'),
                                   ('self._unhashed_raw', '(if Z.ltb 0 uhl then None else uraw)', 'optbytes')]})
        txt = tr.block(strip_doc(fn.body) + [ret_stmt('(self._hashed_raw, self._unhashed_raw, packet)')])
        tr.finish()
        return ('(* SubPackets.parse.  The two `while` loops (SignatureSP(packet) eats one subpacket from the buffer, self[...] = sp stores it)\n'
                '   are pinned text with the declared effect: the buffer becomes  walk packet n  (what is left when at least n octets are\n'
                '   consumed; an exception raised inside the loop is outside the translation) and, when the loop body runs at all (0 < n),\n'
                '   __setitem__ drops the received octets of that area.  Everything else is translated: the two counts, the two slices\n'
                '   that are kept, the two overrun guards, the order of the assignments.  Result: self._hashed_raw, self._unhashed_raw,\n'
                '   the rest of the buffer *)\n'
                'Definition gen_sub_parse (walk : bytes -> Z -> bytes) (hraw uraw : option bytes) (packet : bytes)\n'
                '  : gres (option bytes * option bytes * bytes) :=\n %s.\n' % txt)
    guarded(out, 'SubPackets.parse', t_parse)

    write('Gen_subarea.v', '\n'.join(out))


def write(name, txt):
    os.makedirs(OUT, exist_ok=True)
    p = os.path.join(OUT, name)
    old = open(p).read() if os.path.exists(p) else None
    if old != txt:
        with open(p, 'w') as f:
            f.write(txt)


GENS = [('gen_types', 'Gen_types.v'), ('gen_ptypes', 'Gen_ptypes.v'), ('gen_consts', 'Gen_consts.v'),
        ('gen_base', 'Gen_base.v'), ('gen_pgp', 'Gen_pgp.v'), ('gen_tables', 'Gen_tables.v'),
        ('gen_packets', 'Gen_packets.v'), ('gen_fields', 'Gen_fields.v'), ('gen_cleartext', 'Gen_cleartext.v'), ('gen_policy', 'Gen_policy.v'), ('gen_keyring', 'Gen_keyring.v'), ('gen_subarea', 'Gen_subarea.v')]


def main():
    for gname, fname in GENS:
        g = globals()[gname]
        try:
            g()
        except Exception as ex:  # whole-file failure: leave a file that does not compile
            FAILED.append((g.__name__, '%s: %s' % (type(ex).__name__, ex)))
            write(fname, '(* TRANSLATION FAILED: %s *)\nTranslation_failed.\n' % str(ex).replace('*)', '* )'))
    for n, r in FAILED:
        print('py2coq: FAILED %s: %s' % (n, r))
    print('py2coq: %d target(s) failed' % len(FAILED))
    return 0


if __name__ == '__main__':
    sys.exit(main())
