#!/bin/sh
# usage: tools/run_all.sh [quick|thorough]  -- every claimed check once on the current tree; one summary line each
tier=${1:-quick}
cd "$(dirname "$0")/.."
for p in $(cat tools/ready.txt); do
  out=$(timeout 3000 ./check $p --tier $tier 2>&1); rc=$?
  echo "$p rc=$rc $(echo "$out" | grep '^# C' | tail -1 | cut -c1-110) $(echo "$out" | grep -c '^KNOWN-FINDING') known"
  if [ $rc -ne 0 ]; then echo "$out" | grep "FAIL\|VIOL\|BROKEN\|Error" | head -4 | cut -c1-260; fi
done
