import sys, json, subprocess, xml.etree.ElementTree as ET, os, time
repo = sys.argv[1]
out = '/tmp/verif_junit_%d.xml' % os.getpid()
t=time.time()
subprocess.run(['/venv/bin/python','-m','pytest','-ra','-q','-p','no:cacheprovider','--timeout=900','--continue-on-collection-errors','--junitxml='+out], cwd=repo, stdout=subprocess.DEVNULL, stderr=subprocess.DEVNULL)
base = json.load(open('/root/.vp/BASELINE.json'))
stable = set(base['stable_pass'])
passed=set()
for tc in ET.parse(out).getroot().iter('testcase'):
    ok = not any(c.tag in ('failure','error','skipped') for c in tc)
    if ok: passed.add(tc.get('classname')+'::'+tc.get('name'))
missing = sorted(stable - passed)
print('stable', len(stable), 'passed now', len(passed), 'stable-but-not-passing', len(missing), 'time', round(time.time()-t,1))
for m in missing[:15]: print('  ', m)
