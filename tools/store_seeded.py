#!/venv/bin/python
"""copy a confirmed seeded change into /verif/seeded/<Cxx>-<k>/ with the coordinator's confirmation added to meta.json
usage: store_seeded.py <src dir> <Cxx> <k> "<confirmation line>" "<detected by>" """
import json, os, shutil, sys
src, prop, k, confirm, detected = sys.argv[1:6]
dst = '/verif/seeded/%s-%s' % (prop, k)
os.makedirs(dst, exist_ok=True)
for f in ('patch.diff', 'demo.py'):
    shutil.copy(os.path.join(src, f), os.path.join(dst, f))
try:
    meta = json.load(open(os.path.join(src, 'meta.json')))
except Exception:
    meta = {}
meta.update({'property': prop, 'written_by': 'fresh sub-agent given only the property text and a scratch worktree',
             'confirmed_by_coordinator': confirm, 'detected_by': detected,
             'how_run': 'tools/confirm_seeded.sh (apply in scratch worktree, baseline suite vs BASELINE.json stable_pass, demo on mutant and on /repo); tools/try_patch.sh <patch> %s quick' % prop})
json.dump(meta, open(os.path.join(dst, 'meta.json'), 'w'), indent=1)
print('stored', dst)
