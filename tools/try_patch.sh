#!/bin/sh
# usage: tools/try_patch.sh <patch.diff> <Cxx> [tier]   -- self-validation only (never used by MANIFEST commands)
# Applies a seeded change in a scratch worktree outside /repo and /verif, runs the check against it, removes the worktree.
patch=$(readlink -f "$1"); p=$2; tier=${3:-quick}
wt=/tmp/verif_wt_p$$
git -C /repo worktree add -q --detach $wt HEAD || exit 2
(cd $wt && git apply "$patch") || { echo "patch does not apply"; git -C /repo worktree remove --force $wt; exit 2; }
cd /verif && VERIF_REPO=$wt timeout 1800 ./check $p --tier $tier 2>&1 | grep -v "^# [a-zP]" | cut -c1-400 | tail -6
git -C /repo worktree remove --force $wt
/venv/bin/python /verif/tools/py2coq.py >/dev/null
