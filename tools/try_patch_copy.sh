#!/bin/sh
# usage: tools/try_patch_copy.sh <dir with patch.diff> <Cxx>  -- self-validation only: like try_patch.sh but in a private copy of /verif under /tmp, so several can run in parallel (coq/Gen is regenerated per run)
d=$(readlink -f "$1"); p=$2
vc=/tmp/vc_$$; wt=/tmp/vcwt_$$
rsync -a --exclude .git /verif/ $vc/
git -C /repo worktree add -q --detach $wt HEAD || exit 2
if ! (cd $wt && git apply "$d/patch.diff"); then echo "$(basename $d): PATCH-DOES-NOT-APPLY"; git -C /repo worktree remove --force $wt; rm -rf $vc; exit 0; fi
out=$(cd $vc && VERIF_REPO=$wt timeout 2400 ./check $p --tier quick 2>&1)
v=$(echo "$out" | grep "^VIOLATION" | head -1 | sed "s#$vc#/verif#" | cut -c1-110)
f=$(echo "$out" | grep "^# FAIL" | head -1 | cut -c1-160)
b=$(echo "$out" | grep "^# BROKEN" | head -1 | cut -c1-120)
echo "$(basename $d): ${v:-NOT-DETECTED} || ${f:-$b}"
git -C /repo worktree remove --force $wt; rm -rf $vc
