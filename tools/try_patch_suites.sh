#!/bin/sh
# usage: tools/try_patch_suites.sh <dir with patch.diff> <Cxx>  -- self-validation only: like try_patch_copy.sh, but prints which suites fail (so that one sees
# whether a suite, not only the regression corpus, catches the change)
d=$(readlink -f "$1"); p=$2
vc=/tmp/vps_$$; wt=/tmp/vpswt_$$
rsync -a --exclude .git /verif/ $vc/
git -C /repo worktree add -q --detach $wt HEAD || exit 2
if ! (cd $wt && git apply "$d/patch.diff"); then echo "$d: PATCH-DOES-NOT-APPLY"; git -C /repo worktree remove --force $wt; rm -rf $vc; exit 0; fi
out=$(cd $vc && VERIF_REPO=$wt timeout 2400 ./check $p --tier quick 2>&1)
v=$(echo "$out" | grep "^VIOLATION" | head -1 | sed "s#$vc#/verif#" | cut -c1-100)
s=$(echo "$out" | grep "^# FAIL" | awk '{print $3}' | sort | uniq -c | tr '\n' ' ')
b=$(echo "$out" | grep -c "^# BROKEN")
echo "$d $p: ${v:-NOT-DETECTED} || suites: $s broken=$b"
git -C /repo worktree remove --force $wt; rm -rf $vc
