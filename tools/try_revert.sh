#!/bin/sh
# usage: tools/try_revert.sh <repo-commit-to-revert> <Cxx> [tier]   -- self-validation only (never used by MANIFEST commands)
# Reverts one fix: commit of /repo in a scratch worktree outside /repo and /verif, runs the check against it, removes the worktree.
c=$1; p=$2; tier=${3:-quick}
wt=/tmp/verif_wt_$c
git -C /repo worktree remove --force $wt 2>/dev/null
git -C /repo worktree add -q --detach $wt HEAD || exit 2
(cd $wt && git revert -n $c >/dev/null 2>&1) || { echo "revert failed"; git -C /repo worktree remove --force $wt; exit 2; }
cd /verif && VERIF_REPO=$wt timeout 1800 ./check $p --tier $tier 2>&1 | grep -v "^#" | cut -c1-300 | tail -4
VERIF_REPO=$wt timeout 60 /venv/bin/python -c "pass"
git -C /repo worktree remove --force $wt
/venv/bin/python /verif/tools/py2coq.py >/dev/null
