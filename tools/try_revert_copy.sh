#!/bin/sh
# usage: tools/try_revert_copy.sh <repo-commit-to-revert> <Cxx>  -- self-validation only: reverts one fix: commit in a scratch worktree and runs the check
# from a private copy of /verif; prints the VIOLATION line and the failing suites (so that one sees whether a suite, not only the regression corpus, catches it)
c=$1; p=$2
vc=/tmp/vrc_$$; wt=/tmp/vrcwt_$$
rsync -a --exclude .git /verif/ $vc/
git -C /repo worktree add -q --detach $wt HEAD || exit 2
if ! (cd $wt && git revert -n $c >/dev/null 2>&1); then echo "$c $p: REVERT-CONFLICT"; git -C /repo worktree remove --force $wt; rm -rf $vc; exit 0; fi
out=$(cd $vc && VERIF_REPO=$wt timeout 2400 ./check $p --tier quick 2>&1)
v=$(echo "$out" | grep "^VIOLATION" | head -1 | sed "s#$vc#/verif#" | cut -c1-100)
s=$(echo "$out" | grep "^# FAIL" | awk '{print $3}' | sort | uniq -c | tr '\n' ' ')
echo "$c $p: ${v:-NOT-DETECTED} || suites: $s"
git -C /repo worktree remove --force $wt; rm -rf $vc
